"""Shared plumbing of the GMX harness parts (c17.py, c01_gmx.py, c03_gmx.py, c04_gmx.py): builds real GmxMarket / GmxV2Market
objects on generated or recorded rows, dumps their raw state, runs operations, talks to `driver_gmx`, and holds the
independent Fraction oracles."""
from __future__ import annotations

import math
import os
from datetime import datetime
from decimal import Decimal
from fractions import Fraction

from common import REPO, fmt, frac_str, driver_json

F = Fraction
TS = datetime(2024, 10, 15)
V1_TOKENS = [("btc.b", 8), ("weth", 18), ("wbtc", 8), ("wavax", 18), ("mim", 18), ("usdc.e", 6), ("usdc", 6)]
V1_DEC = dict(V1_TOKENS)
DEC_COLS = ["glp_price", "weth_price", "wavax_price", "glp", "aum"]
E30 = 10 ** 30
E18 = 10 ** 18
E12 = 10 ** 12
TOL30 = F(1, 10 ** 30)


def fl(x: float) -> str:
    """floats travel as the exact n/d of their binary value; NaN and the infinities as "nan" / "inf" / "-inf" """
    if x != x:
        return "nan"
    if x in (math.inf, -math.inf):
        return "inf" if x > 0 else "-inf"
    return frac_str(F(x))


def is_finite_num(x) -> bool:
    """True for an ordinary number; False for NaN / sNaN / +-Infinity (float or Decimal).  Never raises and never relies on an ordering
    comparison (NaN compares false with everything, Decimal NaN raises on <)."""
    if isinstance(x, Decimal):
        return x.is_finite()
    try:
        return math.isfinite(x)
    except (TypeError, ValueError, OverflowError):
        return True          # ints beyond float range are finite



def cap_violations(ctx, per_key=12):
    """keep the shared 200-entry violation list from being filled by one (possibly known) key: at most `per_key` replays per key are recorded"""
    if getattr(ctx, "_gmx_capped", False):
        return
    orig, seen = ctx.violate, {}

    def violate(key, what, replay):
        seen[key] = seen.get(key, 0) + 1
        if seen[key] <= per_key:
            orig(key, what, replay)
        else:
            ctx.notes["violations_not_recorded_" + key] = seen[key] - per_key
    ctx.violate = violate
    ctx._gmx_capped = True


GMX_MODULES = ["demeter.gmx.market", "demeter.gmx.market2", "demeter.gmx.helper", "demeter.gmx.helper2", "demeter.gmx._typing", "demeter.gmx._typing2",
               "demeter.gmx.gmx_v2.ExecuteDepositUtils", "demeter.gmx.gmx_v2.ExecuteWithdrawUtils", "demeter.gmx.gmx_v2.MarketUtils",
               "demeter.gmx.gmx_v2.SwapPricingUtils", "demeter.gmx.gmx_v2._typing", "demeter.gmx.gmx_v2.utils"]


def static_state_snapshot():
    """fingerprints of everything OUTSIDE the market objects that could remember something between calls: module-level and class-level
    mutable containers of the GMX modules and memoising wrappers (functools caches) on their functions / methods.  Taken before and after a
    run: an entry that changed while operations ran is hidden state (a memo table); constant tables do not change."""
    import enum
    import importlib
    import inspect
    import types
    snap = {}

    def cache_of(f):
        f = getattr(f, "__func__", f)
        return f if hasattr(f, "cache_info") else None

    def fp(v):
        return (len(v), hash(repr(v)[:100000]))
    for mn in GMX_MODULES:
        try:
            m = importlib.import_module(mn)
        except Exception:  # noqa: BLE001
            continue
        for k, v in list(vars(m).items()):
            if k.startswith("__"):
                continue
            if isinstance(v, (dict, list, set, bytearray)):
                snap[f"{mn}.{k}"] = fp(v)
            elif isinstance(v, types.FunctionType) and cache_of(v) is not None:
                snap[f"{mn}.{k}()"] = tuple(cache_of(v).cache_info())[:4]
            elif inspect.isclass(v) and v.__module__ == mn and not issubclass(v, enum.Enum):
                for a, av in list(vars(v).items()):
                    raw = av.__func__ if isinstance(av, (staticmethod, classmethod)) else av
                    if isinstance(raw, (dict, list, set)) and not a.startswith("__"):
                        snap[f"{mn}.{k}.{a}"] = fp(raw)
                    elif callable(raw) and cache_of(raw) is not None:
                        snap[f"{mn}.{k}.{a}()"] = tuple(cache_of(raw).cache_info())[:4]
    return snap


def static_state_check(ctx, before):
    after = static_state_snapshot()
    changed = sorted(k for k in set(before) | set(after) if before.get(k) != after.get(k))
    ctx.note("gmx_static_state_entries", len(after))
    if changed:
        ctx.disagree(f"state outside the market objects changed while GMX operations ran (a memo table / cache the model does not know): {changed}", {"world": None})


# ============================================================================================== v1
_recorded = None


def recorded_rows():
    """the two recorded CSV days loaded exactly as `load_gmx_v1_data` does (minus the feather cache); [] if emptied"""
    global _recorded
    if _recorded is None:
        import pandas as pd
        from demeter.utils import to_decimal
        rows = []
        for day in ("2024-10-15", "2024-10-16"):
            p = os.path.join(REPO, "tests", "data", f"avalanche_gmx_{day}.csv")
            if os.path.exists(p) and os.path.getsize(p) > 0:
                df = pd.read_csv(p, index_col=0, parse_dates=True, converters={k: to_decimal for k in DEC_COLS})
                rows.append(df)
        _recorded = pd.concat(rows) if rows else None
    return _recorded


def ser_val(v):
    import numpy as np
    if isinstance(v, Decimal):
        return ["D", str(v)]
    if isinstance(v, (np.integer,)):
        return ["N", str(int(v))]
    if isinstance(v, bool):
        raise TypeError
    if isinstance(v, int):
        return ["I", str(v)]
    if isinstance(v, (float, np.floating)):
        return ["F", repr(float(v))]
    raise TypeError(type(v))


def de_val(p):
    import numpy as np
    k, s = p
    return {"D": Decimal, "I": int, "N": lambda t: np.int64(int(t)), "F": lambda t: np.float64(float(t))}[k](s)


def v1_needed_cols(names):
    cols = ["glp", "aum", "usdg", "interval", "glp_price", "wavax_price"]
    for n in names:
        cols += [f"{n}_price", f"{n}_usdg", f"{n}_weight"]
    return list(dict.fromkeys(cols))


def bar_ts(k: int):
    from datetime import timedelta
    return TS + timedelta(minutes=k)


def v1_frame(rows):
    import pandas as pd
    idx = [bar_ts(k) for k in range(len(rows))]
    return pd.DataFrame({c: pd.Series([r[c] for r in rows], index=idx, dtype=object) for c in rows[0]})


class V1World:
    """a real GmxMarket attached to a real Broker, on one data row — or on a frame of several rows (bars): the SAME market object is
    moved from bar to bar with `set_bar` (= `set_market_status`, what Actuator does at the head of every bar)"""

    def __init__(self, row, token_names, wallet, glp=None, reward=None, allow_negative=False):
        from demeter import TokenInfo, MarketInfo, MarketTypeEnum, Broker, MarketStatus
        from demeter.gmx import GmxMarket
        self.rows = [dict(r) for r in row] if isinstance(row, (list, tuple)) else [dict(row)]
        self.bar = 0
        self.token_names = list(token_names)
        self.tok = {n: TokenInfo(n, V1_DEC.get(n, 18)) for n in set(self.token_names) | set(V1_DEC)}
        df = v1_frame(self.rows)
        self.market = GmxMarket(MarketInfo("gmx", MarketTypeEnum.gmx_v1), tokens=[self.tok[n] for n in self.token_names], data=df)
        self.allow_negative = allow_negative
        self.broker = Broker(allow_negative_balance=True) if allow_negative else Broker()
        self.broker.quote_token = self.market.quote_token      # USD
        self.acts = []
        self.broker._record_action_callback = self.acts.append
        self.broker.add_market(self.market)
        for n, b in wallet:
            self.broker.set_balance(self.tok[n] if n in self.tok else TokenInfo(n, 18), b)
        if glp is not None:
            self.market.glp_amount = glp
        if reward is not None:
            self.market.reward = reward
        self.market.set_market_status(MarketStatus(TS, None), None)

    @property
    def row(self):
        return self.rows[self.bar]

    def set_bar(self, k: int):
        """move the live market object to bar k exactly as Actuator does"""
        from demeter import MarketStatus
        self.bar = k
        self.market.set_market_status(MarketStatus(bar_ts(k), None), None)

    # ---- raw state
    def dump(self):
        m = self.market
        return {"glp": m.glp_amount, "reward": m.reward, "wallet": [[k.name, v.balance] for k, v in self.broker.assets.items()]}

    def object_fields(self):
        """names of everything stored on the live market object (a new attribute = per-object state the model does not know)"""
        return sorted(vars(self.market))

    def step_request(self, pre, env, op):
        return {"fn": "gmx1.step", "env": env, "state": {"glp": pre["glp"], "reward": pre["reward"], "wallet": pre["wallet"]}, "op": v1_op_json(op, self),
                "allowNeg": bool(self.allow_negative)}

    def nonfinite(self):
        """names of the numbers of the state that are NaN or infinite"""
        m = self.market
        return [n for n, v in [("glp_amount", m.glp_amount), ("reward", m.reward)] + [(f"wallet[{k.name}]", a.balance) for k, a in self.broker.assets.items()]
                if not is_finite_num(v)]

    def safe_snapshot(self):
        """NaN-safe snapshot (strings): holdings, reward, wallet in order, number of action records"""
        m = self.market
        return (str(m.glp_amount), str(m.reward), tuple((k.name, str(a.balance)) for k, a in self.broker.assets.items()), len(self.acts))

    def snapshot(self):
        m = self.market
        return (F(m.glp_amount), F(m.reward), tuple((k.name, F(v.balance)) for k, v in self.broker.assets.items()), len(self.acts),
                tuple(sorted(k for k in vars(m))))

    def env_json(self):
        r = self.market.market_status.data
        names = [c[:-6] for c in r.index if c.endswith("_price") and c != "glp_price" and f"{c[:-6]}_usdg" in r.index and f"{c[:-6]}_weight" in r.index]
        return {"rows": [{"name": n, "price": F(r[f"{n}_price"]), "usdg": F(r[f"{n}_usdg"]), "weight": F(int(r[f"{n}_weight"]))} for n in names],
                "tokenSet": [t.name.lower() for t in self.market._tokens],
                "glp": F(r["glp"]), "aum": F(r["aum"]), "usdg": F(r["usdg"]), "interval": F(float(r["interval"])),
                "glp_price": F(r["glp_price"]), "wavax_price": F(r["wavax_price"])}

    def spec(self):
        """everything needed to rebuild this world (replays)"""
        d = self.dump()
        sp = {"ver": 1, "row": {k: ser_val(v) for k, v in self.row.items()}, "tokens": self.token_names,
              "wallet": [[k, str(v)] for k, v in d["wallet"]], "glp": str(d["glp"]), "reward": str(d["reward"])}
        if self.allow_negative:
            sp["allow_negative"] = True
        return sp

    def spec_bars(self):
        """like `spec`, with the whole frame (multi-bar replays start at bar 0)"""
        sp = self.spec()
        sp["rows"] = [{k: ser_val(v) for k, v in r.items()} for r in self.rows]
        return sp

    @staticmethod
    def from_spec(sp):
        rows = [{k: de_val(v) for k, v in r.items()} for r in sp["rows"]] if "rows" in sp else {k: de_val(v) for k, v in sp["row"].items()}
        return V1World(rows, sp["tokens"], [(k.lower(), Decimal(v)) for k, v in sp["wallet"]],
                       Decimal(sp["glp"]), Decimal(sp["reward"]), allow_negative=sp.get("allow_negative", False))

    # ---- operations
    def apply(self, op):
        """returns (outcome, result, new action records)"""
        m = self.market
        n0 = len(self.acts)
        try:
            if op["kind"] == "buy":
                res = m.buy_glp(self.token(op["tok"], op.get("dec")), op["amount"])
            elif op["kind"] == "sell":
                res = m.sell_glp(self.token(op["tok"], op.get("dec")), op["amount"])
            elif op["kind"] == "update":
                m.update()
                res = None
            elif op["kind"] == "fee":
                res = m.get_fee_basis_points(self.token(op["tok"], op.get("dec")), op["amount"], op["increase"])
            else:
                raise ValueError(op["kind"])
            out = "ok"
        except Exception as e:  # noqa: BLE001 - the class is the observation
            out, res = type(e).__name__, None
        return out, res, self.acts[n0:]

    def token(self, name, dec=None):
        from demeter import TokenInfo
        if name in self.tok and (dec is None or dec == self.tok[name].decimal):
            return self.tok[name]
        return TokenInfo(name, 18 if dec is None else dec)


def v1_op_json(op, world):
    if op["kind"] == "update":
        return {"kind": "update"}
    return {"kind": op["kind"], "tok": op["tok"], "dec": op.get("dec", world.token(op["tok"]).decimal), "amount": op["amount"]}


def v1_action_json(a):
    if type(a).__name__ == "BuyGlpAction":
        return {"kind": "buy", "token": a.token, "token_amount": F(a.token_amount), "mint_amount": F(a.mint_amount)}
    return {"kind": "sell", "token": a.token, "glp_amount": F(a.glp_amount), "token_out": F(a.token_out)}


def state_eq_v1(model_state, dump, new_actions):
    """exact comparison of the model's post-state with the implementation's"""
    diffs = []
    if F(model_state["glp"]) != F(dump["glp"]):
        diffs.append(f"glp impl {dump['glp']} model {model_state['glp']}")
    if F(model_state["reward"]) != F(dump["reward"]):
        diffs.append(f"reward impl {dump['reward']} model {model_state['reward']}")
    mw = [(k, F(v)) for k, v in model_state["wallet"]]
    iw = [(k, F(v)) for k, v in dump["wallet"]]
    if mw != iw:
        diffs.append(f"wallet impl {dump['wallet']} model {model_state['wallet']}")
    ma = [{k: (F(v) if k not in ("kind", "token") else v) for k, v in a.items()} for a in model_state["actions"]]
    ia = [v1_action_json(a) for a in new_actions]
    if ma != ia:
        diffs.append(f"actions impl {ia} model {ma}")
    return diffs


# ---- generators
def _logu(rng, lo, hi):
    return 10 ** rng.uniform(lo, hi)


def gen_v1_row(rng):
    """(row, token_names, kind). Rows satisfy glp_price = (aum/1e30)/(glp/1e18) as the recorded data does."""
    rec = recorded_rows()
    k = rng.random()
    if rec is not None and k < 0.3:
        r = rec.iloc[rng.randrange(len(rec))]
        names = [n for n, _ in V1_TOKENS]
        row = {c: r[c] for c in v1_needed_cols(names)}
        if rng.random() < 0.4:       # move one token's USDG amount relative to its target
            n = rng.choice(names)
            tgt = int(row[f"{n}_weight"]) * int(row["usdg"]) // sum(int(row[f"{m}_weight"]) for m in names)
            row[f"{n}_usdg"] = int(tgt * rng.choice([0, 0.3, 0.999999, 1, 1.000001, 1.7, 3.2]))
            return row, names, "recorded-mut"
        return row, names, "recorded"
    cnt = rng.randint(1, 7)
    names = [n for n, _ in rng.sample(V1_TOKENS, cnt)]
    if "wavax" not in names and rng.random() < 0.5:
        names.append("wavax")
    return gen_v1_synth(rng, names), names, "synthetic"


V1_BASE_PRICE = {"btc.b": 66066.487, "wbtc": 66066.487, "weth": 2629.059, "wavax": 29.07, "mim": 1.0, "usdc": 1.0, "usdc.e": 1.0}


def gen_v1_synth(rng, names, degenerate=True):
    """a synthetic row for the given token set"""
    import numpy as np
    row = {}
    supply = rng.choice([0, rng.randint(1, 10 ** 6), int(_logu(rng, 18, 27))]) if (degenerate and rng.random() < 0.15) else int(_logu(rng, 20, 27))
    weights = {n: rng.choice([0, 1, 1000, 3000, 10000, 20000, 46000, rng.randint(1, 60000)]) for n in names}
    if sum(weights.values()) == 0:
        weights[names[0]] = 1
    tot = sum(weights.values())
    for n in names:
        p = int(V1_BASE_PRICE[n] * rng.uniform(0.5, 2) * 10 ** 6) * 10 ** 24
        row[f"{n}_price"] = Decimal(p) if n in ("weth", "wavax") else p
        tgt = weights[n] * supply // tot
        fct = rng.choice([0, 0.25, 0.5, 0.9, 0.999999, 1, 1, 1.000001, 1.1, 1.5, 2.5, 4])
        row[f"{n}_usdg"] = int(tgt * fct) if fct != 1 else tgt
        row[f"{n}_weight"] = np.int64(weights[n])
    if "wavax_price" not in row:
        row["wavax_price"] = Decimal(int(29.07 * 10 ** 6) * 10 ** 24)
    row["usdg"] = supply
    aum = int(_logu(rng, 33, 40)) if (not degenerate or rng.random() > 0.03) else rng.choice([0, 10 ** 11, 10 ** 12])
    glp = int(aum / E12 / rng.uniform(0.5, 2)) if (not degenerate or rng.random() > 0.03) else rng.choice([0, 1])
    row["aum"] = Decimal(aum)
    row["glp"] = Decimal(glp)
    row["glp_price"] = (Decimal(aum) / E30) / (Decimal(glp) / E18) if glp else Decimal(1)
    if rng.random() < 0.5:
        row["glp_price"] = Decimal(repr(float(row["glp_price"])))      # 16-17 digits as in the recorded files
    row["interval"] = np.float64(int(_logu(rng, 12, 16)))
    return row


V1_GROUPS = ("weights", "usdg", "aum", "supply", "prices", "interval")


def mutate_v1_row(rng, row, names, group):
    """the next bar's row: `row` with ONE group of fields changed (so a quantity derived from that group alone, if cached, goes stale),
    glp_price kept consistent with aum / glp"""
    import numpy as np
    r = dict(row)
    if group == "weights":
        for n in names:
            if rng.random() < 0.7:
                r[f"{n}_weight"] = np.int64(rng.choice([0, 1, 500, 7000, 25000, rng.randint(1, 60000)]))
        if sum(int(r[f"{n}_weight"]) for n in names) == 0:
            r[f"{names[0]}_weight"] = np.int64(rng.randint(1, 60000))
        if all(int(r[f"{n}_weight"]) == int(row[f"{n}_weight"]) for n in names):
            r[f"{names[0]}_weight"] = np.int64(int(row[f"{names[0]}_weight"]) + rng.randint(1, 40000))
    elif group == "usdg":
        for n in names:
            r[f"{n}_usdg"] = int(int(row[f"{n}_usdg"]) * rng.choice([0, 0.3, 0.9, 1.1, 2, 5])) + rng.choice([0, 1, 10 ** 18])
        r["usdg"] = max(1, int(int(row["usdg"]) * rng.choice([0.5, 0.9, 1.1, 2])))
    elif group == "aum":
        r["aum"] = Decimal(int(int(row["aum"]) * rng.uniform(0.5, 2)) + 1)
    elif group == "supply":
        r["glp"] = Decimal(int(int(row["glp"]) * rng.uniform(0.5, 2)) + 1)
    elif group == "prices":
        for n in names:
            v = int(int(row[f"{n}_price"]) * rng.uniform(0.5, 2)) + 1
            r[f"{n}_price"] = Decimal(v) if isinstance(row[f"{n}_price"], Decimal) else v
        if "wavax" not in names:
            r["wavax_price"] = Decimal(int(int(row["wavax_price"]) * rng.uniform(0.5, 2)) + 1)
    elif group == "interval":
        r["interval"] = np.float64(int(_logu(rng, 12, 16)))
    if group in ("aum", "supply"):
        r["glp_price"] = (Decimal(r["aum"]) / E30) / (Decimal(r["glp"]) / E18) if r["glp"] else Decimal(1)
    return r


def gen_v1_frame(rng, nbars=None, degenerate=False):
    """(rows, names, per-bar change class): bar 0 synthetic or recorded; each later bar changes every field ("all": a fresh row for the
    same token set), one group only, or nothing ("same")"""
    row0, names, kind = gen_v1_row(rng)
    if degenerate is False and kind == "synthetic":
        row0 = gen_v1_synth(rng, names, degenerate=False)
    nbars = nbars or rng.randint(2, 5)
    rows, classes = [row0], [kind]
    rec = recorded_rows()
    for _ in range(nbars - 1):
        c = rng.random()
        if c < 0.35:
            if kind.startswith("recorded") and rec is not None:
                r = rec.iloc[rng.randrange(len(rec))]
                rows.append({col: r[col] for col in v1_needed_cols(names)})
            else:
                rows.append(gen_v1_synth(rng, names, degenerate=False))
            classes.append("all")
        elif c < 0.92:
            g = rng.choice(V1_GROUPS)
            rows.append(mutate_v1_row(rng, rows[-1], names, g))
            classes.append(g)
        else:
            rows.append(dict(rows[-1]))
            classes.append("same")
    cols = list(rows[0])
    rows = [{c_: r[c_] for c_ in cols} for r in rows]
    return rows, names, classes


def gen_v1_wallet(rng, names):
    w = []
    for n in names:
        if rng.random() < 0.85:
            w.append((n, rng.choice([Decimal(0), Decimal(str(round(_logu(rng, -6, 7), rng.randint(0, 12))))])))
    return w


def rand_dec(rng, lo, hi, places):
    v = _logu(rng, lo, hi)
    return Decimal(str(v)).quantize(Decimal(1).scaleb(-places))


def gen_v1_op(rng, w: V1World):
    """(op, argument class)"""
    m = w.market
    names = w.token_names
    r = rng.random()
    if r < 0.06:
        return {"kind": "update"}, "update"
    unknown = rng.random() < 0.04
    tok = "doge" if unknown else rng.choice(names)
    dec = V1_DEC.get(tok, 18)
    t = w.token(tok)
    bal = w.broker.assets[t].balance if t in w.broker.assets else None
    if r < 0.55:
        c = rng.random()
        if bal is None:
            a, cls = rand_dec(rng, -6, 4, dec), "no-wallet-entry"
        elif c < 0.12:
            a, cls = bal, "exact-balance"
        elif c < 0.2:
            a, cls = bal * (1 + Decimal(rng.choice(["0.000001", "0.000009", "0.00001", "0.000011"]))), "balance+dust"
        elif c < 0.27:
            a, cls = bal * (1 - Decimal(rng.choice(["0.000001", "0.000009", "0.00001", "0.000011"]))), "balance-dust"
        elif c < 0.37:
            a, cls = bal * 10 + 1, "oversized"
        elif c < 0.42:
            a, cls = Decimal(0), "zero"
        elif c < 0.48:
            a, cls = -rand_dec(rng, -6, 3, dec), "negative"
        elif c < 0.55:
            a, cls = Decimal(rng.randint(1, 999)) / Decimal(10 ** dec), "wei"
        elif c < 0.65 and bal:
            a, cls = (bal * Decimal(str(round(rng.uniform(0.01, 0.99), 4)))), "fraction"
        elif c < 0.75:
            a, cls = rand_dec(rng, 6, 11, 2), "huge"
        else:
            a, cls = rand_dec(rng, -6, 5, min(dec, rng.randint(0, 18))), "mid"
        return {"kind": "buy", "tok": tok, "amount": a}, cls
    g = m.glp_amount
    c = rng.random()
    if c < 0.15:
        a, cls = Decimal(0), "all(0)"
    elif c < 0.3:
        a, cls = g, "exact-holding"
    elif c < 0.42:
        a, cls = g * (1 + Decimal(rng.choice(["0.000000000000000001", "0.000001", "0.00001"]))) + (0 if g else Decimal("0.000000000000000001")), "holding+eps"
    elif c < 0.52:
        a, cls = g * 10 + 1, "oversized"
    elif c < 0.6:
        a, cls = -rand_dec(rng, -6, 3, 18), "negative"
    elif c < 0.68:
        a, cls = Decimal(rng.randint(1, 999)) / Decimal(E18), "wei"
    elif g > 0:
        a, cls = g * Decimal(str(round(rng.uniform(0.01, 0.99), 6))), "fraction"
    else:
        a, cls = rand_dec(rng, -3, 4, 18), "mid-unheld"
    return {"kind": "sell", "tok": tok, "amount": a}, cls


# ---- independent oracles (exact Fractions, written from the property text / the Vault contract, not from the model)
def floor_frac(x: F) -> int:
    return x.numerator // x.denominator


def vault_target(weight: int, supply: int, total: int) -> int:
    """Vault.getTargetUsdgAmount"""
    if supply == 0:
        return 0
    return weight * supply // total


def vault_fee_bps(initial: int, delta: int, target: int, increment: bool, fee_bps=25, tax_bps=60) -> int:
    """VaultUtils.getFeeBasisPoints with dynamic fees (uint256 arithmetic)"""
    nxt = initial + delta
    if not increment:
        nxt = 0 if delta > initial else initial - delta
    if target == 0:
        return fee_bps
    idiff = initial - target if initial > target else target - initial
    ndiff = nxt - target if nxt > target else target - nxt
    if ndiff < idiff:
        rebate = tax_bps * idiff // target
        return 0 if rebate > fee_bps else fee_bps - rebate
    avg = (idiff + ndiff) // 2
    if avg > target:
        avg = target
    return fee_bps + tax_bps * avg // target


def v1_fee_inputs(w: V1World, tok: str):
    r = w.market.market_status.data
    total = sum(int(r[f"{t.name.lower()}_weight"]) for t in w.market._tokens)
    return int(r[f"{tok}_usdg"]), int(r[f"{tok}_weight"]), int(r["usdg"]), total


def branch_edge(initial, delta, weight, supply, total, increment) -> bool:
    """the Vault rule is discontinuous where |next - target| = |initial - target|.  The code (fractional target T) and the contract
    (floored target) can take different branches only if next + initial - 2*floor(T) is 0 or 1 (theorem C17_v1_fee_branch_agrees_off_mirror)"""
    if total == 0 or supply == 0:
        return False
    nxt = initial + delta if increment else max(0, initial - delta)
    return nxt + initial - 2 * (weight * supply // total) in (0, 1)


# ============================================================================================== v2
V2_FIELDS = ["longAmount", "shortAmount", "virtualSwapInventoryLong", "virtualSwapInventoryShort", "poolValue", "marketTokensSupply",
             "impactPoolAmount", "longPrice", "shortPrice", "indexPrice"]
V2_CFG = ["swapImpactExponentFactor", "swapImpactFactorPositive", "swapImpactFactorNegative", "depositFeeFactorForPositiveImpact",
          "depositFeeFactorForNegativeImpact", "withdrawFeeFactorForPositiveImpact", "withdrawFeeFactorForNegativeImpact"]
LP_FIELDS = ["long_amount", "short_amount", "total_usd", "gm_amount", "gm_usd", "long_fee", "short_fee", "fee_usd", "price_impact_usd"]


class V2World:
    """a real GmxV2Market on one pool row, or on several (bars): `set_bar` moves the SAME object to the next row — through
    `set_market_status` on a data frame (series mode, what Actuator does) or by replacing the status dataclass"""

    def __init__(self, pool, cfg: dict | None, wallet, amount=0.0, series=False, long=("weth", 18), short=("usdc", 6), allow_negative=False):
        import pandas as pd
        from demeter import TokenInfo, MarketInfo, MarketTypeEnum, Broker
        from demeter.gmx import GmxV2Market
        from demeter.gmx._typing2 import GmxV2Pool, GmxV2MarketStatus
        self.pools = [dict(q) for q in pool] if isinstance(pool, (list, tuple)) else [dict(pool)]
        self.bar = 0
        self.cfg, self.series = dict(cfg or {}), series
        self.long, self.short = TokenInfo(*long), TokenInfo(*short)
        self.names = (long, short)
        data = None
        if series:
            data = pd.DataFrame({k: [q[k] for q in self.pools] for k, v in self.pools[0].items() if v is not None},
                                index=[bar_ts(i) for i in range(len(self.pools))])
        self.market = GmxV2Market(MarketInfo("gm", MarketTypeEnum.gmx_v2), GmxV2Pool(self.long, self.short, self.long), data=data)
        for k, v in self.cfg.items():
            setattr(self.market.pool_config, k, v)
        self.allow_negative = allow_negative
        self.broker = Broker(allow_negative_balance=True) if allow_negative else Broker()
        self.broker.quote_token = self.market.quote_token      # USD
        self.acts = []
        self.broker._record_action_callback = self.acts.append
        self.broker.add_market(self.market)
        for n, b in wallet:
            self.broker.set_balance(TokenInfo(n, 18), b)
        self.market.amount = amount
        self.set_bar(0)

    @property
    def pool(self):
        return self.pools[self.bar]

    def set_bar(self, k: int):
        from demeter.gmx._typing2 import GmxV2MarketStatus
        from demeter.gmx.gmx_v2 import GmxV2PoolStatus
        self.bar = k
        if self.series:
            self.market.set_market_status(GmxV2MarketStatus(bar_ts(k), None), None)
        else:
            self.market._market_status = GmxV2MarketStatus(bar_ts(k), GmxV2PoolStatus(**self.pools[k]))

    def object_fields(self):
        return sorted(vars(self.market))

    def dump(self):
        return {"amount": float(self.market.amount), "wallet": [[k.name, v.balance] for k, v in self.broker.assets.items()]}

    def nonfinite(self):
        return [n for n, v in [("amount", self.market.amount)] + [(f"wallet[{k.name}]", a.balance) for k, a in self.broker.assets.items()]
                if not is_finite_num(v)]

    def safe_snapshot(self):
        return (repr(float(self.market.amount)), tuple((k.name, str(a.balance)) for k, a in self.broker.assets.items()), len(self.acts))

    def snapshot(self):
        a = self.market.amount
        return (F(a) if math.isfinite(a) else repr(a), tuple((k.name, F(v.balance)) for k, v in self.broker.assets.items()), len(self.acts),
                tuple(sorted(vars(self.market))))

    def cfg_json(self):
        c = self.market.pool_config
        return {k: fl(float(getattr(c, k))) for k in V2_CFG}

    def pool_json(self):
        d = self.market._market_status.data
        out = {}
        for k in V2_FIELDS:
            if k == "indexPrice":
                continue
            v = d[k] if self.series else getattr(d, k)
            out[k] = None if v is None else fl(float(v))
        return out

    def spec(self):
        d = self.dump()
        sp = {"ver": 2, "pool": {k: (None if v is None else repr(float(v))) for k, v in self.pool.items()},
              "cfg": {k: repr(float(v)) for k, v in self.cfg.items()}, "wallet": [[k, str(v)] for k, v in d["wallet"]],
              "amount": repr(d["amount"]), "series": self.series}
        if self.allow_negative:
            sp["allow_negative"] = True
        return sp

    def spec_bars(self):
        sp = self.spec()
        sp["pools"] = [{k: (None if v is None else repr(float(v))) for k, v in q.items()} for q in self.pools]
        return sp

    @staticmethod
    def from_spec(sp):
        de = lambda q: {k: (None if v is None else float(v)) for k, v in q.items()}
        return V2World([de(q) for q in sp["pools"]] if "pools" in sp else de(sp["pool"]), {k: float(v) for k, v in sp["cfg"].items()},
                       [(k.lower(), Decimal(v)) for k, v in sp["wallet"]], float(sp["amount"]), sp.get("series", False),
                       allow_negative=sp.get("allow_negative", False))

    def apply(self, op):
        m = self.market
        n0 = len(self.acts)
        try:
            if op["kind"] == "deposit":
                res = m.deposit(op["long"], op["short"])
            elif op["kind"] == "withdraw":
                res = m.withdraw(op["amount"])
            else:
                raise ValueError(op["kind"])
            out = "ok"
        except Exception as e:  # noqa: BLE001
            out, res = type(e).__name__, None
        return out, res, self.acts[n0:]

    def events_request(self, state, pool0, events, mode="float"):
        return {"fn": "gmx2.events", "mode": mode, "config": self.cfg_json(), "pool0": pool0, "state": state,
                "longKey": self.long.name, "shortKey": self.short.name, "events": events, "allowNeg": bool(self.allow_negative)}

    def request(self, op, mode="float"):
        d = self.dump()
        oj = {"kind": op["kind"]}
        if op["kind"] == "deposit":
            oj["long"], oj["short"] = fl(float(op["long"])), fl(float(op["short"]))
        elif op["kind"] == "withdraw":
            oj["amount"] = None if op["amount"] is None else fl(float(op["amount"]))
        return {"fn": "gmx2.step", "mode": mode, "config": self.cfg_json(), "pool": self.pool_json(),
                "state": {"amount": fl(d["amount"]), "wallet": d["wallet"]}, "longKey": self.long.name, "shortKey": self.short.name, "op": oj,
                "allowNeg": bool(self.allow_negative)}


def lp_dict(r):
    return {k: float(getattr(r, k)) for k in LP_FIELDS}


def action_v2_dict(a):
    n = type(a).__name__
    g = lambda x: float(x)  # UnitDecimal(float) -> Decimal(float): exact, so float() gives the float back
    if n == "Gmx2DepositAction":
        return ("deposit", {"long_amount": g(a.long_amount), "short_amount": g(a.short_amount), "total_usd": g(a.deposit_usd), "gm_amount": g(a.gm_amount),
                            "gm_usd": g(a.gm_usd), "long_fee": g(a.long_fee), "short_fee": g(a.short_fee), "fee_usd": g(a.fee_usd),
                            "price_impact_usd": g(a.price_impact_usd)})
    return ("withdraw", {"long_amount": g(a.long_amount), "short_amount": g(a.short_amount), "total_usd": g(a.withdraw_usd), "gm_amount": g(a.gm_amount),
                         "gm_usd": g(a.gm_usd), "long_fee": g(a.long_fee), "short_fee": g(a.short_fee), "fee_usd": g(a.fee_usd)})


FTOL = F(1, 10 ** 12)


def fclose(a: float, model: str, tol=FTOL) -> bool:
    """implementation float vs the model's answer (exact n/d of a double, or nan/inf)"""
    if model in ("nan", "inf", "-inf"):
        return (math.isnan(a) and model == "nan") or (math.isinf(a) and ((a > 0) == (model == "inf")))
    if not math.isfinite(a):
        return False
    x, y = F(a), F(model)
    return x == y or abs(x - y) <= tol * max(abs(x), abs(y))


def gen_v2_pool(rng):
    """(pool dict, class)"""
    lp = rng.choice([3000.0, 65000.0, 1.0, max(0.01, round(_logu(rng, -2, 5), rng.randint(0, 6)))])
    sp = rng.choice([1.0, 1.0, 0.9993, round(rng.uniform(0.9, 1.1), 6)])
    long_usd = _logu(rng, 3, 9)
    skew = rng.choice([0.01, 0.5, 0.9, 1.0, 1.0, 1.1, 2.0, 50.0])
    short_usd = long_usd * skew
    la, sa = long_usd / lp, short_usd / sp
    pv = (long_usd + short_usd) * rng.uniform(0.8, 1.2)
    supply = pv / rng.uniform(0.5, 3)
    kind = rng.random()
    vl = vs = None
    if kind < 0.75:
        vl, vs = la * rng.choice([1.0, 0.5, 2.0, 10.0]), sa * rng.choice([1.0, 0.5, 2.0, 10.0])
    elif kind < 0.8:
        vl = la
    ip = rng.choice([0.0, 1e-6, 0.5, 3.0, 1e3, 1e9])
    pool = {"longAmount": la, "shortAmount": sa, "virtualSwapInventoryLong": vl, "virtualSwapInventoryShort": vs, "poolValue": pv,
            "marketTokensSupply": supply, "impactPoolAmount": ip, "longPrice": lp, "shortPrice": sp, "indexPrice": lp}
    cls = f"skew{skew}"
    z = rng.random()
    if z < 0.04:
        k = rng.choice(["poolValue", "marketTokensSupply", "longPrice", "shortPrice", "longAmount", "shortAmount"])
        pool[k] = 0.0
        if k in ("longAmount", "shortAmount") and rng.random() < 0.5:
            pool["longAmount"] = pool["shortAmount"] = 0.0
        cls = "zero-" + k
    return pool, cls


V2_GROUPS = ("amounts", "virtual", "poolValue", "supply", "impactPool", "prices")


def mutate_v2_pool(rng, pool, group):
    """the next bar's row with ONE group of fields changed"""
    q = dict(pool)
    f = lambda: rng.choice([0.3, 0.7, 0.95, 1.05, 1.5, 4.0])
    if group == "amounts":
        q["longAmount"], q["shortAmount"] = pool["longAmount"] * f(), pool["shortAmount"] * f()
    elif group == "virtual":
        if pool["virtualSwapInventoryLong"] is not None:
            q["virtualSwapInventoryLong"] = pool["virtualSwapInventoryLong"] * f()
        if pool["virtualSwapInventoryShort"] is not None:
            q["virtualSwapInventoryShort"] = pool["virtualSwapInventoryShort"] * f()
    elif group == "poolValue":
        q["poolValue"] = pool["poolValue"] * f()
    elif group == "supply":
        q["marketTokensSupply"] = pool["marketTokensSupply"] * f()
    elif group == "impactPool":
        q["impactPoolAmount"] = rng.choice([0.0, 1e-6, 0.5, 3.0, 1e3, 1e9, pool["impactPoolAmount"] * 2 + 1])
    elif group == "prices":
        q["longPrice"], q["shortPrice"] = pool["longPrice"] * f(), round(pool["shortPrice"] * rng.uniform(0.97, 1.03), 6)
        q["indexPrice"] = q["longPrice"]
    return q


def gen_v2_frame(rng, nbars=None, series=True):
    """(pools, per-bar change class): every later bar changes everything ("all"), one group of fields, or nothing"""
    while True:
        pool, pcls = gen_v2_pool(rng)
        if pcls.startswith("zero"):
            continue
        if series and (pool["virtualSwapInventoryLong"] is None or pool["virtualSwapInventoryShort"] is None):
            continue
        break
    nbars = nbars or rng.randint(2, 5)
    pools, classes = [pool], [pcls]
    for _ in range(nbars - 1):
        c = rng.random()
        if c < 0.3:
            while True:
                q, qc = gen_v2_pool(rng)
                if not qc.startswith("zero") and all((q[k] is None) == (pool[k] is None) for k in ("virtualSwapInventoryLong", "virtualSwapInventoryShort")):
                    break
            pools.append(q)
            classes.append("all")
        elif c < 0.92:
            g = rng.choice(V2_GROUPS)
            pools.append(mutate_v2_pool(rng, pools[-1], g))
            classes.append(g)
        else:
            pools.append(dict(pools[-1]))
            classes.append("same")
    return pools, classes


def gen_v2_cfg(rng):
    if rng.random() < 0.6:
        return {}
    c = {}
    if rng.random() < 0.5:
        c["swapImpactFactorPositive"] = rng.choice([0.0, 2e-10, 4e-10, 8e-10, 1e-7])     # > negative: gets clamped
    if rng.random() < 0.5:
        c["swapImpactFactorNegative"] = rng.choice([0.0, 4e-10, 1e-9, 1e-7])
    if rng.random() < 0.3:
        c["swapImpactExponentFactor"] = rng.choice([2.0, 2, 1.0, 3.0, 2.2, 1.5])
    if rng.random() < 0.3:
        c["depositFeeFactorForPositiveImpact"] = rng.choice([0.0, 0.0005, 0.01])
        c["depositFeeFactorForNegativeImpact"] = rng.choice([0.0, 0.0007, 0.02])
        c["withdrawFeeFactorForNegativeImpact"] = rng.choice([0.0, 0.0007, 0.02])
    return c


def gen_v2_op(rng, w: V2World):
    m = w.market
    bl = w.broker.assets[w.long].balance if w.long in w.broker.assets else None
    bs = w.broker.assets[w.short].balance if w.short in w.broker.assets else None
    if rng.random() < 0.55:
        def amt(b, scale):
            c = rng.random()
            if c < 0.25:
                return 0.0, "0"
            if b is None:
                return round(_logu(rng, -4, 3), 6), "nowallet"
            if c < 0.35:
                return float(b), "bal"
            if c < 0.42:
                return float(b) * 10 + 1, "over"
            if c < 0.47:
                return -round(_logu(rng, -4, 2), 6), "neg"
            if c < 0.55:
                return float(b) * (1 + rng.choice([1e-6, -1e-6, 9e-6, 1.1e-5])), "bal~"
            if c < 0.62:
                return _logu(rng, -12, -7), "tiny"
            return float(b) * rng.uniform(0.001, 0.9) if b else round(_logu(rng, -4, 3), 6), "mid"
        la, lc = amt(bl, 1)
        sa, sc = amt(bs, 1)
        if rng.random() < 0.3:
            la, sa = Decimal(str(la)), Decimal(str(sa))
        return {"kind": "deposit", "long": la, "short": sa}, f"{lc}/{sc}"
    g = float(m.amount)
    c = rng.random()
    if c < 0.2:
        return {"kind": "withdraw", "amount": None}, "all(None)"
    if c < 0.35:
        return {"kind": "withdraw", "amount": g}, "exact"
    if c < 0.47:
        return {"kind": "withdraw", "amount": math.nextafter(g, math.inf) if rng.random() < 0.5 else g * 1.000001 + 1e-9}, "holding+eps"
    if c < 0.57:
        return {"kind": "withdraw", "amount": g * 10 + 1}, "oversized"
    if c < 0.65:
        return {"kind": "withdraw", "amount": -round(_logu(rng, -3, 3), 6)}, "negative"
    if c < 0.7:
        return {"kind": "withdraw", "amount": 0.0}, "zero"
    return {"kind": "withdraw", "amount": g * rng.uniform(0.01, 0.99) if g > 0 else round(_logu(rng, -3, 3), 6)}, "fraction" if g > 0 else "unheld"


def gen_v2_wallet(rng):
    w = []
    for n in ("weth", "usdc"):
        if rng.random() < 0.93:
            w.append((n, rng.choice([Decimal(0), Decimal(str(round(_logu(rng, -3, 7), rng.randint(0, 9))))])))
    return w


def state_eq_v2(ans_state, dump, new_actions, tol=FTOL):
    diffs = []
    if not fclose(dump["amount"], ans_state["amount"], tol):
        diffs.append(f"amount impl {dump['amount']!r} model {ans_state['amount']}")
    mw = [(k, F(v)) for k, v in ans_state["wallet"]]
    iw = [(k, F(v)) for k, v in dump["wallet"]]
    if [k for k, _ in mw] != [k for k, _ in iw] or any(not (a == b or abs(a - b) <= tol * max(abs(a), abs(b))) for (_, a), (_, b) in zip(mw, iw)):
        diffs.append(f"wallet impl {dump['wallet']} model {ans_state['wallet']}")
    ia = [action_v2_dict(a) for a in new_actions]
    ma = ans_state["actions"]
    if len(ia) != len(ma):
        diffs.append(f"actions: impl {len(ia)} model {len(ma)}")
    else:
        for (ik, iv), m_ in zip(ia, ma):
            if ik != m_["kind"] or any(not fclose(iv[k], m_["r"][k], tol) for k in iv):
                diffs.append(f"action impl {ik} {iv} model {m_}")
    return diffs


# ---------------------------------------------------------------------------------------------------- invalid-number arguments
# NaN compares false with everything (float) or raises on ordering (Decimal): a guard written as `if amount < 0` / `if amount > held`
# lets it through, and every balance it touches becomes NaN.  This stream feeds every entry point that takes an amount with
# numbers that are not ordinary finite numbers, in both wallet modes, and looks at the state with predicates that cannot pass on NaN.
SPECIAL_FLOATS = [float("nan"), float("inf"), float("-inf"), -0.0, 1e90, -1e90, 1e200, 1e308, 1.7976931348623157e308, -1e308]
# 1e200: `diffUsd ** exponent` raises OverflowError (modelled: Err.overflow); 1e308: amount x price is already inf, pricing answers inf/nan (035b95e)
SPECIAL_DECIMALS = [Decimal("NaN"), Decimal("-NaN"), Decimal("sNaN"), Decimal("Infinity"), Decimal("-Infinity"), Decimal("1E+400"), Decimal("-1E+400"),
                    Decimal("-0"), Decimal("1E-400")]


def special_class(x):
    if isinstance(x, Decimal):
        if x.is_snan():
            return "D:sNaN"
        if x.is_nan():
            return "D:NaN"
        if x.is_infinite():
            return "D:+Inf" if x > 0 else "D:-Inf"
        if x == 0:
            return "D:-0"
        return "D:huge" if abs(x) > 1 else "D:tiny"
    if x != x:
        return "f:nan"
    if math.isinf(x):
        return "f:+inf" if x > 0 else "f:-inf"
    if x == 0:
        return "f:-0"
    return ("f:" if x > 0 else "f:-") + ("huge" if abs(x) < 1e100 else ("1e200" if abs(x) < 1e300 else "max"))


def ser_num(x):
    return ["D", str(x)] if isinstance(x, Decimal) else ["F", repr(float(x))]


def special_cases(rng, n):
    """yields (version, world, op, class): a real market in a random state (0-2 accepted ordinary operations first), wallet mode strict or
    allow_negative_balance, and ONE call whose amount argument is special"""
    for i in range(n):
        an = rng.random() < 0.5
        if rng.random() < 0.4:
            for _ in range(50):
                row, names, kind = gen_v1_row(rng)
                if F(row["aum"]) >= 10 ** 24 and F(row["glp"]) > 10 ** 12 and row["usdg"] > 0:
                    break
            wallet = [(x, rand_dec(rng, -2, 5, 6)) for x in names if rng.random() < 0.9]
            w = V1World(row, names, wallet, glp=rng.choice([None, rand_dec(rng, -2, 5, 18)]), allow_negative=an)
            for _ in range(rng.choice([0, 0, 1, 2])):
                o, _ = gen_v1_op(rng, w)
                w.apply(o)
            x = rng.choice(SPECIAL_DECIMALS + SPECIAL_FLOATS[:3]) if rng.random() < 0.85 else rng.choice(SPECIAL_FLOATS)
            kind = rng.choice(["buy", "sell"])
            yield 1, w, {"kind": kind, "tok": rng.choice(names), "amount": x}, f"{kind}:{special_class(x)}"
        else:
            for _ in range(50):
                pool, pcls = gen_v2_pool(rng)
                if not pcls.startswith("zero"):
                    break
            wallet = [(t, b) for t, b in (("weth", Decimal(str(round(_logu(rng, -2, 4), 6)))), ("usdc", Decimal(str(round(_logu(rng, 0, 7), 4))))) if rng.random() < 0.9]
            x = rng.choice(SPECIAL_FLOATS) if rng.random() < 0.6 else rng.choice(SPECIAL_DECIMALS)
            y = rng.choice(SPECIAL_FLOATS)                      # second special, used by "deposit.both"
            huge = any(isinstance(z, float) and math.isfinite(z) and abs(z) > 1e100 for z in (x, y))
            # pandas rows hold numpy doubles, whose `**` and `/` answer inf/nan where Python floats raise: huge amounts go to dataclass rows only
            w = V2World(pool, gen_v2_cfg(rng), wallet, amount=rng.choice([0.0, round(_logu(rng, -2, 6), 4)]),
                        series=(not huge) and rng.random() < 0.2 and all(v is not None for v in pool.values()), allow_negative=an)
            for _ in range(rng.choice([0, 0, 1, 2])):
                o, _ = gen_v2_op(rng, w)
                w.apply(o)
            c = rng.random()
            other = rng.choice([0.0, 0.0, round(_logu(rng, -3, 1), 6)])
            if i % 9 == 4 and not w.series:
                # an ORDINARY amount on a row whose pool value is at the edge of the double range: poolValue x amount overflows, the token
                # amounts of a withdrawal come out as inf - inf = nan (2f5f4ac: rejected like the deposit whose minted amount is not finite)
                pv = rng.choice([1e308, 1.7e308, 1e305, 1e300])
                w.pools[0]["poolValue"] = pv
                w.market.amount = rng.choice([5e7, 1e4, 2.5, float(w.market.amount) or 1.0])
                w.set_bar(0)
                g = float(w.market.amount)
                if rng.random() < 0.75:
                    yield 2, w, {"kind": "withdraw", "amount": rng.choice([None, g, g * 0.9, g * 1e-3])}, f"withdraw:row-poolValue{pv:g}"
                else:
                    yield 2, w, {"kind": "deposit", "long": other, "short": round(_logu(rng, -3, 3), 6)}, f"deposit:row-poolValue{pv:g}"
                continue
            if c < 0.3:
                op, k = {"kind": "deposit", "long": x, "short": other}, "deposit.long"
            elif c < 0.6:
                op, k = {"kind": "deposit", "long": other, "short": x}, "deposit.short"
            elif c < 0.7:
                op, k = {"kind": "deposit", "long": x, "short": y}, "deposit.both"
            else:
                op, k = {"kind": "withdraw", "amount": x}, "withdraw"
            yield 2, w, op, f"{k}:{special_class(x)}"


def special_ser_op(op):
    return {k: (ser_num(v) if k in ("amount", "long", "short") and v is not None else v) for k, v in op.items()}


def special_de_op(o):
    return {k: ((Decimal(v[1]) if v[0] == "D" else float(v[1])) if k in ("amount", "long", "short") and v is not None else v) for k, v in o.items()}


def special_check(ctx, ver, w, op, pfx, reject_intact=False, rep=None):
    """apply `op` to the live world and evaluate, NaN-safely: (a) no number of the state (share holding, reward, wallet balance) may be NaN or
    infinite afterwards, (b) [reject_intact] a call that raised left the state as it was.  Returns (outcome, result, actions, pre-dump, bad?)."""
    spec = w.spec()
    rep = rep or {"world": spec, "special": [special_ser_op(op)]}
    pre = w.dump()
    s0 = w.safe_snapshot()
    out, res, acts = w.apply(op)
    s1 = w.safe_snapshot()
    bad = w.nonfinite()
    name = {"buy": "buy_glp", "sell": "sell_glp"}.get(op["kind"], op["kind"])
    args = ", ".join(repr(op[k]) for k in ("tok", "amount", "long", "short") if k in op)
    if bad:
        ctx.violate(f"{pfx}v{ver}.{name}.nonfinite_state", f"{name}({args}) [allow_negative_balance={w.allow_negative}] -> {out}: {', '.join(bad)} is no longer a finite number "
                    f"(state {s0} -> {s1})"[:700], rep)
    if reject_intact and out != "ok" and s0 != s1:
        ctx.violate(f"{pfx}v{ver}.{op['kind']}.{out}", f"{name}({args}) rejected with {out} but state changed: {s0} -> {s1}"[:700], rep)
    return out, res, acts, pre, bool(bad)


def special_stream(ctx, n, pfx, reject_intact=False):
    """the whole stream + correspondence with the model where the model can take the argument (v2: IEEE doubles incl. NaN/inf; v1: finite
    Decimals).  `pfx` prefixes the violation keys ("" for C17, "gmx." for C03/C04)."""
    import warnings
    warnings.filterwarnings("ignore", category=RuntimeWarning)        # numpy scalars (pandas rows) warn where Python floats overflow silently
    pend = []
    for ver, w, op, cls in special_cases(ctx.rng, n):
        req = None
        try:
            if ver == 2:
                req = w.request(op)
            elif isinstance(op["amount"], Decimal) and op["amount"].is_finite():
                req = w.step_request(w.dump(), w.env_json(), op)
        except (ValueError, OverflowError):
            req = None                                       # float(Decimal('sNaN')) raises: the call itself will raise the same way
        out, res, acts, pre, bad = special_check(ctx, ver, w, op, pfx, reject_intact)
        ctx.impl_traces += 1
        ctx.case(f"v{ver}:special:{cls}:{out}:{'allow-negative' if w.allow_negative else 'strict'}{':NONFINITE-STATE' if bad else ''}",
                 {"op": special_ser_op(op), "outcome": out})
        if req is not None:
            pend.append((ver, op, cls, out, acts, None if bad else w.dump(), {"world": w.spec() if not bad else None, "special": [special_ser_op(op)]}, req))
    if not ctx.driver_ok or not pend:
        return
    for (ver, op, cls, out, acts, post, rep, req), a in zip(pend, driver_json([p[-1] for p in pend], exe="driver_gmx")):
        if "error" in a:
            ctx.disagree(f"special {cls}: driver error {a['error']}"[:300], rep)
        elif a["outcome"] != out:
            ctx.disagree(f"v{ver} special {cls}: outcome impl {out} model {a['outcome']}", rep)
        elif post is None:
            ctx.disagree(f"v{ver} special {cls}: the implementation's state holds NaN/inf, the model's does not", rep)
        else:
            d = state_eq_v1(a["state"], post, acts) if ver == 1 else state_eq_v2(a["state"], post, acts)
            if d:
                ctx.disagree(f"v{ver} special {cls} ({out}): " + "; ".join(d)[:500], rep)


def special_replay(case, pfx="", reject_intact=False):
    """re-run a stored `special` case; True = holds"""
    from common import Ctx
    sub = Ctx("C17", "quick", 0, False)
    sp = case["world"]
    w = V1World.from_spec(sp) if sp["ver"] == 1 else V2World.from_spec(sp)
    for o in case["special"]:
        op = special_de_op(o)
        out, *_ = special_check(sub, sp["ver"], w, op, pfx, reject_intact, rep={})
        print(f"   {op} -> {out}; state {w.safe_snapshot()}")
    for v in sub.violations:
        print("  ", v["key"], v["what"][:300])
    return not sub.violations
