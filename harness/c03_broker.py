"""C03, wallet/broker part — broker swaps at fixed prices lose exactly the reported fee (up to the 1e-5 snap-to-zero dust of
Asset.sub), never leave a negative balance, and never pay out more than is held.  Account funding calls (set_balance /
add_to_balance / subtract_from_balance) move value in and out of the account by design and are not 'operations' here."""
from __future__ import annotations

from decimal import Decimal
from fractions import Fraction

from common import Ctx, driver_json, fmt
import broker_h as H

PROPERTY = "C03"
LEAN_MODULES = ["Proofs.C03.Broker"]
DRIVERS = [H.DRIVER]
RULE = ("broker: sequences of swap_by_from/swap_by_to over 2-4 tokens at fixed prices; amounts log-uniform, zero, exactly the balance, balance×(1±1e-6), "
        "oversized, negative; bucket = (swap kind, amount class, outcome)")
TRUSTED = ["wallet part: theorems for exact arithmetic (C03_wallet_sub_nonneg for every rounding context); Decimal rounding is covered by bit-exact "
           "comparison with the model under prec-35 semantics"]
ASSUMPTIONS = []


def gen_seq(rng):
    toks = rng.sample(H.TOKS, rng.randint(2, 4))
    wallet = [(t, H.rnd_dec(rng, -3, 7)) for t in toks]
    prices = {t: H.rnd_dec(rng, -3, 5, allow_zero=False) for t in toks}
    ops = []
    for _ in range(rng.randint(1, 8)):
        kind = rng.choice(("from", "to"))
        f, t = rng.sample(toks, 2) if rng.random() < 0.93 else (toks[0], toks[0])
        cls = rng.choice(("mid", "mid", "mid", "zero", "all", "all+", "all-", "over", "neg"))
        fee = rng.choice((Decimal("0.003"), Decimal("0.0005"), Decimal("0.01"), Decimal(0)))
        ops.append((kind, f, t, cls, fee, rng.random()))
    return wallet, prices, ops


def amount_for(cls, bal, u, kind, price_f, price_t, fee):
    """amount argument (from-amount for swap_by_from, to-amount for swap_by_to) for an intended from-side class"""
    if cls == "zero":
        a = Decimal(0)
    elif cls == "all":
        a = bal
    elif cls == "all+":
        a = bal * (1 + Decimal("0.000001"))
    elif cls == "all-":
        a = bal * (1 - Decimal("0.000001"))
    elif cls == "over":
        a = bal * 10 + 1
    elif cls == "neg":
        a = -(bal * Decimal(str(round(u, 6))) + Decimal("0.5"))
    else:
        a = bal * Decimal(str(round(u, 9)))
    if kind == "to":   # convert the from-side target into the to-amount that needs it
        a = a * price_f * (1 - fee) / price_t
    return a


def run_seq(ctx, seq, reqs, metas):
    from demeter import TokenInfo
    wallet, prices, ops = seq
    actions = []
    b, toks = H.mk_broker(wallet, None, actions)
    ok_all = True
    for kind, f, t, cls, fee, u in ops:
        before = H.wallet_dump(b)
        bal = b.get_token_balance(toks[f])
        amt = amount_for(cls, bal, u, kind, prices[f], prices[t], fee)
        nact = len(actions)
        err = None
        try:
            (b.swap_by_from if kind == "from" else b.swap_by_to)(toks[f], toks[t], amt, prices, fee)
        except Exception as e:  # noqa
            err = H.exc_class(e)
        after = H.wallet_dump(b)
        rep = {"part": "c03_broker", "wallet": before, "prices": list(prices.items()), "kind": kind, "from": f, "to": t, "amount": amt, "fee_rate": fee}
        tag = f"broker:swap_{kind}:{cls}:{'same' if f == t else 'diff'}:{err or 'ok'}"
        ctx.case(tag, rep)
        site = f"broker:swap_by_{kind}"
        v0, v1 = H.value(before, prices), H.value(after, prices)
        nviol = len(ctx.violations)
        # no negative balances
        for k, v in after:
            if v < 0:
                ok_all = False
                ctx.violate(f"{site}:negative-balance:{cls}", f"{k} balance {v} < 0 after swap_by_{kind}({f}->{t}, {amt})", rep)
        if err is None:
            act = actions[-1] if len(actions) == nact + 1 else None
            fee_amt = Fraction(act.fee) if act is not None else None
            touched = Fraction(bal)
            dust = H.DUST * abs(touched) * Fraction(prices[f]) + Fraction(1, 10 ** 25) * (abs(v0) + 1)
            if v1 - v0 > dust:
                ok_all = False
                ctx.violate(f"{site}:value-created:{cls}", f"net value rose by {fmt(v1 - v0)} (> dust {fmt(dust)}) in swap_by_{kind}({f}->{t}, {amt})", rep)
            elif fee_amt is not None and abs((v1 - v0) + fee_amt * Fraction(prices[f])) > dust:
                ok_all = False
                ctx.violate(f"{site}:fee-mismatch:{cls}", f"value change {fmt(v1 - v0)} is not minus the reported fee {fmt(fee_amt * Fraction(prices[f]))}", rep)
            if act is None:
                ok_all = False
                ctx.violate(f"{site}:action-missing", "accepted swap recorded no (or several) action(s)", rep)
            elif Fraction(act.from_amount) > Fraction(bal) * (1 + H.DUST) and Fraction(act.from_amount) > 0:
                ok_all = False
                ctx.violate(f"{site}:over-redemption:{cls}", f"paid {act.from_amount} {f} out of a balance of {bal}", rep)
        else:
            if after != before:
                ok_all = False
                ctx.violate(f"{site}:rejected-changed-wallet:{err}", f"rejected swap changed the wallet {before} -> {after}", rep)
        reqs.append({"fn": "swapByFrom" if kind == "from" else "swapByTo", "wallet": before, "allow_neg": False, "from": f, "to": t,
                     "amount": amt, "prices": [[k, v] for k, v in prices.items()], "fee_rate": fee})
        metas.append((err, after, rep))
        if len(ctx.violations) > nviol:
            break   # the state is corrupted from here on: later steps would only repeat the same finding
    return ok_all


def foreign_quote_case(ctx, case):
    """moving tokens between the wallet and a market quoted in a token OTHER than the account's quote token (a pool quoted in a stable coin inside a
    USD account, a pool quoted in ETH inside a USDC account) at fixed prices: the account's reported net value — wallet at the price table plus
    the market's value converted at the price of the market's quote token — does not rise, and deposits / withdrawals conserve it"""
    from demeter import TokenInfo, MarketInfo, Broker
    from demeter.uniswap import UniLpMarket, UniV3Pool
    import uni_common as U
    qn, bn, an = case["quote"], case["base"], case["account"]
    quote, base, acct = TokenInfo(qn, case["dq"]), TokenInfo(bn, case["db"]), TokenInfo(an, 6)
    pool = UniV3Pool(base, quote, 0.05, quote) if case["base_is_0"] else UniV3Pool(quote, base, 0.05, quote)
    b = Broker()
    m = UniLpMarket(MarketInfo("uni"), pool)
    b.add_market(m)
    b.quote_token = acct
    tick = case["tick"]
    price = m.tick_to_price(tick)                                   # base in units of the market's quote token
    qp = Decimal(case["quote_price"])                               # the market's quote token in units of the account's quote token
    prices = {bn: price * qp, qn: qp, an: Decimal(1)}
    m.set_market_status(U.imports()[5](timestamp=None, data=U.mk_series(tick, Decimal(10 ** 18), Decimal(0), Decimal(0), price)), price=None)
    b.set_balance(base, Decimal(case["base_balance"]))
    b.set_balance(quote, Decimal(case["quote_balance"]))
    sp = pool.tick_spacing
    nv = lambda: Fraction(b.get_account_status(prices).net_value)   # noqa: E731
    for i, (op, lo, up, frac) in enumerate(case["ops"]):
        v0 = nv()
        try:
            if op == "add":
                m.add_liquidity_by_tick(tick + lo * sp, tick + up * sp, b.get_token_balance(base) * Decimal(frac), b.get_token_balance(quote) * Decimal(frac))
            elif op == "remove" and m.positions:
                m.remove_liquidity(list(m.positions.keys())[0])
            elif op == "swap":
                m.sell(b.get_token_balance(base) * Decimal(frac))
            err = None
        except Exception as e:  # noqa: BLE001
            err = type(e).__name__
        v1 = nv()
        dust = Fraction(1, 10 ** 5) * max(abs(v0), 1) * Fraction(1, 10)
        tag = f"foreign-quote:{an}<-{qn}:{op}:{err or 'ok'}"
        if v1 - v0 > dust:
            ctx.violate(f"broker.foreign-quote.value_created.{op}", f"account quoted in {an}, pool quoted in {qn} priced {qp} {an}: {op} (step {i + 1}, {err or 'accepted'}) "
                        f"raised the account's net value from {float(v0):.12g} to {float(v1):.12g}", case)
            break
        if err is None and op in ("add", "remove") and abs(v1 - v0) > dust:
            ctx.violate(f"broker.foreign-quote.not_conserved.{op}", f"account quoted in {an}, pool quoted in {qn} priced {qp} {an}: {op} changed the account's net value "
                        f"from {float(v0):.12g} to {float(v1):.12g}", case)
            break
        ctx.case(tag + (":peg" if qp == 1 else ":off-peg"), case if i == 0 else None)
    return not [v for v in ctx.violations if v.get("key", "").startswith("broker.foreign-quote")]


def gen_foreign_quote(rng):
    acct, quote = rng.choice((("USD", "USDC"), ("USD", "USDT"), ("USDC", "DAI"), ("USDC", "WETH"), ("USD", "WETH"), ("USDT", "USDC")))
    stable = quote in ("USDC", "USDT", "DAI")
    qp = rng.choice(("1", "0.995", "1.004", "0.92", "0.9991")) if stable else rng.choice(("1600", "2345.5"))
    base = "WETH" if stable else "OSQTH"
    ops = [("add", -rng.randint(1, 20), rng.randint(1, 20), rng.choice(("0.3", "0.5", "0.9")))]
    for _ in range(rng.randint(1, 4)):
        ops.append((rng.choice(("add", "remove", "swap")), -rng.randint(1, 20), rng.randint(1, 20), rng.choice(("0.1", "0.5"))))
    return {"kind": "foreign-quote", "account": acct, "quote": quote, "base": base, "dq": 6 if stable and quote != "DAI" else 18, "db": 18, "base_is_0": rng.random() < 0.5,
            "tick": rng.randint(-300, 300) * 10, "quote_price": qp, "base_balance": str(rng.randint(1, 50)), "quote_balance": str(rng.randint(1000, 100000)), "ops": ops}


def run(ctx: Ctx):
    n = ctx.scale(500, 12000)
    reqs, metas = [], []
    for _ in range(n):
        run_seq(ctx, gen_seq(ctx.rng), reqs, metas)
    for _ in range(ctx.scale(60, 1500)):
        foreign_quote_case(ctx, gen_foreign_quote(ctx.rng))
    ctx.impl_traces += n
    if not ctx.driver_ok:
        return
    for (err, after, rep), ans in zip(metas, driver_json(reqs, exe=H.DRIVER)):
        merr = ans.get("error")
        if (err or None) != (merr or None):
            ctx.disagree(f"swap outcome: impl {err} vs model {merr}", rep)
            continue
        mw = [(k, Fraction(v)) for k, v in ans["wallet"]]
        iw = [(k, Fraction(v)) for k, v in after]
        if mw != iw:
            ctx.disagree(f"swap wallet: impl {after} vs model {ans['wallet']}", rep)


def replay(ctx, case):
    if case.get("kind") == "foreign-quote":
        sub = Ctx(ctx.prop, ctx.tier, ctx.seed, False)
        foreign_quote_case(sub, case)
        for v in sub.violations:
            print("  ", v["key"], v["what"][:300])
        return not sub.violations
    wallet = [(k, Decimal(v)) for k, v in case["wallet"]]
    prices = {k: Decimal(v) for k, v in case["prices"]}
    from demeter import TokenInfo
    b, toks = H.mk_broker(wallet, None, [])
    before = H.wallet_dump(b)
    f, t = case["from"], case["to"]
    try:
        (b.swap_by_from if case["kind"] == "from" else b.swap_by_to)(toks[f], toks[t], Decimal(case["amount"]), prices, Decimal(case["fee_rate"]))
        err = None
    except Exception as e:  # noqa
        err = e
    after = H.wallet_dump(b)
    if any(v < 0 for _, v in after):
        return False
    if err is not None:
        return after == before
    v0, v1 = H.value(before, prices), H.value(after, prices)
    bal = dict(before)[f]
    return v1 - v0 <= H.DUST * abs(Fraction(bal)) * Fraction(prices[f]) + Fraction(1, 10 ** 25) * (abs(v0) + 1)
