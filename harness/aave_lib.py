"""Shared plumbing of the `aave` component's harness modules (c13, c10, c04_aave, c03_aave, c01_aave):
building a real AaveV3Market + Broker, installing a bar (`set_market_status`), dumping / loading the raw
state (positions, the five DictCaches, wallet, action log), applying one operation, canonical JSON of
results, the talk to `driver_aave`, and the generators."""
from __future__ import annotations

import copy
import os
from datetime import datetime, timedelta
from decimal import Decimal as D
from fractions import Fraction

import pandas as pd

from common import REPO, fmt, driver_json

EXE = "driver_aave"
TOKENS = ["WETH", "USDC", "DAI", "WBTC", "LINK"]
UNKNOWN = "ZZZ"          # never in the bar's data, prices or risk table
T0 = datetime(2023, 8, 1)
STATUS_COLS = ["liquidity_rate", "stable_borrow_rate", "variable_borrow_rate", "liquidity_index", "variable_borrow_index"]
VIEWS0 = ["suppliesValue", "totalSupplyValue", "collateralValue", "totalCollateralValue", "borrowsValue",
          "totalBorrowsValue", "supplies", "borrows", "liquidationThreshold", "maxLtv", "ltv", "healthFactor",
          "supplyApy", "borrowApy", "totalApy", "marketBalance"]
VIEWS1 = ["getSupply", "getBorrow", "maxBorrowAmount"]
# read-only helpers the Lean state machine has no operation for: executed on the implementation only (oracle: they return the same on
# warm and on cold caches, and leave every view equal to its from-scratch recomputation)
HELPERS1 = ["maxWithdrawAmount", "maxRepayAmount"]


# ------------------------------------------------------------------------------------------ objects
TOKEN_DECIMALS = {"USDC": 6, "USDT": 6, "WBTC": 8, "EURS": 2, "GUSD": 2}     # as on chain; everything else 18


def token(name):
    """TokenInfo with the token's real number of decimals (the Aave code must not depend on it: balances are Decimals
    scaled by the indices, dust is MIN_TOKEN_VALUE for every token)"""
    from demeter import TokenInfo
    return TokenInfo(name, TOKEN_DECIMALS.get(name.upper(), 18))


_RISK_TEMPLATE = None


def new_market(env, wallet=None):
    """a fresh AaveV3Market attached to a fresh Broker, bar `env` installed; returns (market, broker, actions)"""
    global _RISK_TEMPLATE
    from demeter import MarketInfo, MarketTypeEnum, Broker
    from demeter.aave import AaveV3Market
    if _RISK_TEMPLATE is None:
        m0 = AaveV3Market(MarketInfo("aave", MarketTypeEnum.aave_v3),
                          os.path.join(REPO, "tests", "aave_risk_parameters", "demo.csv"), tokens=[])
        _RISK_TEMPLATE = m0
    # the constructor (csv parsing) runs once; afterwards the body of __init__ is redone by hand
    from demeter.aave._typing import DictCache
    m = AaveV3Market.__new__(AaveV3Market)
    m.__dict__.update(copy.copy(_RISK_TEMPLATE.__dict__))
    m._supplies, m._borrows = {}, {}
    m._collaterals_amount_cache, m._supplies_amount_cache, m._supplies_cache = DictCache(), DictCache(), DictCache()
    m._borrows_amount_cache, m._borrows_cache = DictCache(), DictCache()
    m._tokens = set(token(t) for t in env["tokens"])
    b = Broker()
    b.add_market(m)
    actions = []
    m._record_action_callback = actions.append
    install_env(m, env)
    for k, v in (wallet or []):
        b.set_balance(token(k), D(v))
    return m, b, actions


def install_env(m, env):
    """`set_market_status` with the bar described by env (plus the risk table, which is per chain)"""
    from demeter.aave._typing import AaveMarketStatus
    toks = env["tokens"]
    if env.get("pandas_status"):
        # the shape a real backtest has: one row of the data frame, a Series with a (token, column) MultiIndex
        rows = {}
        for t in toks:
            st = env["status"][t]
            rows[(t, "liquidity_rate")] = st["liqRate"]
            rows[(t, "stable_borrow_rate")] = D(0)
            rows[(t, "variable_borrow_rate")] = st["varRate"]
            rows[(t, "liquidity_index")] = st["liqIdx"]
            rows[(t, "variable_borrow_index")] = st["varIdx"]
        data = pd.Series(list(rows.values()), index=pd.MultiIndex.from_tuples(list(rows.keys())), dtype=object)
    else:
        # same interface (`data[name].liquidity_index`, KeyError when absent) without pandas' per-lookup cost
        from demeter.aave._typing import AaveTokenStatus
        data = {t: AaveTokenStatus(liquidity_rate=env["status"][t]["liqRate"], stable_borrow_rate=D(0),
                                   variable_borrow_rate=env["status"][t]["varRate"], liquidity_index=env["status"][t]["liqIdx"],
                                   variable_borrow_index=env["status"][t]["varIdx"]) for t in toks}
    price = pd.Series({t: env["price"][t] for t in env["price"]}, dtype=object)
    rk = env["risk"]
    m._risk_parameters = pd.DataFrame(
        {"usageAsCollateralEnabled": [rk[t]["canColl"] for t in rk],
         "baseLTVasCollateral": [rk[t]["ltv"] for t in rk],
         "reserveLiquidationThreshold": [rk[t]["lt"] for t in rk],
         "reserveLiquidationBonus": [rk[t]["bonus"] for t in rk],
         "borrowingEnabled": [rk[t]["canBorrow"] for t in rk]},
        index=pd.Index(list(rk.keys()), name="symbol"))
    m._risk_parameters["usageAsCollateralEnabled"] = m._risk_parameters["usageAsCollateralEnabled"].astype(bool)
    m._risk_parameters["borrowingEnabled"] = m._risk_parameters["borrowingEnabled"].astype(bool)
    for c in ("baseLTVasCollateral", "reserveLiquidationThreshold", "reserveLiquidationBonus"):
        m._risk_parameters[c] = m._risk_parameters[c].astype(object)
    ts = T0 + timedelta(minutes=env.get("minute", 0))
    if env.get("refresh"):
        # the Actuator's second call of a bar (after a write, before update()): the same timestamp and NO row handed over — the market
        # looks the row up in its own data frame; the price Series is whatever the caller passes (a re-pricing inside the bar)
        rows = {}
        for t in toks:
            st = env["status"][t]
            rows[(t, "liquidity_rate")] = st["liqRate"]
            rows[(t, "stable_borrow_rate")] = D(0)
            rows[(t, "variable_borrow_rate")] = st["varRate"]
            rows[(t, "liquidity_index")] = st["liqIdx"]
            rows[(t, "variable_borrow_index")] = st["varIdx"]
        frame = pd.DataFrame([list(rows.values())], index=[ts], columns=pd.MultiIndex.from_tuples(list(rows.keys())), dtype=object)
        m._data = frame
        m.set_market_status(AaveMarketStatus(ts, None), price)
        m._data = None      # the one-row frame was only the source of that lookup
    else:
        m.set_market_status(AaveMarketStatus(ts, data), price)
    m.is_open = bool(env.get("isOpen", True))


def env_json(env):
    return {"status": [[t, {k: fmt(v) for k, v in env["status"][t].items()}] for t in env["tokens"]],
            "price": [[t, fmt(p)] for t, p in env["price"].items()],
            "risk": [[t, {"canColl": bool(r["canColl"]), "ltv": fmt(r["ltv"]), "lt": fmt(r["lt"]), "bonus": fmt(r["bonus"]),
                          "canBorrow": bool(r["canBorrow"])}] for t, r in env["risk"].items()],
            "isOpen": bool(env.get("isOpen", True))}


def env_from_json(j):
    toks = [t for t, _ in j["status"]]
    return {"tokens": toks, "status": {t: {k: D(v) for k, v in st.items()} for t, st in j["status"]},
            "price": {t: D(p) for t, p in j["price"]},
            "risk": {t: {"canColl": r["canColl"], "ltv": D(r["ltv"]), "lt": D(r["lt"]), "bonus": D(r["bonus"]),
                         "canBorrow": r["canBorrow"]} for t, r in j["risk"]},
            "isOpen": j.get("isOpen", True)}


# ------------------------------------------------------------------------------------------ canonical values
def num(x):
    if isinstance(x, D):
        if x.is_infinite():
            return "inf"
        if x.is_nan():
            return "nan"
        return fmt(D(x))
    if isinstance(x, bool):
        return x
    if isinstance(x, int):
        return str(x)
    raise TypeError(f"num: {type(x)} {x!r}")


def supply_info_j(v):
    return {"base": num(v.base_amount), "coll": bool(v.collateral), "beginIdx": num(v.begin_supply_index)}


def borrow_info_j(v):
    return {"base": num(v.base_amount), "beginIdx": num(v.begin_borrow_index)}


def supply_v_j(v):
    return {"base": num(v.base_amount), "coll": bool(v.collateral), "amount": num(v.amount), "apy": num(v.apy),
            "value": num(v.value), "beginIdx": num(v.begin_supply_index)}


def borrow_v_j(v):
    return {"base": num(v.base_amount), "amount": num(v.amount), "apy": num(v.apy), "value": num(v.value),
            "beginIdx": num(v.begin_borrow_index)}


def cache_j(c, f):
    return {"empty": bool(c.empty), "val": [[k.name, f(v)] for k, v in c.value.items()]}


def action_j(a):
    n = type(a).__name__
    if n == "SupplyAction":
        return {"kind": "supply", "token": a.token, "amount": num(a.amount), "coll": bool(a.collateral), "after": num(a.deposit_after)}
    if n == "WithdrawAction":
        return {"kind": "withdraw", "token": a.token, "amount": num(a.amount), "after": num(a.deposit_after)}
    if n == "BorrowAction":
        return {"kind": "borrow", "token": a.token, "amount": num(a.amount), "after": num(a.debt_after)}
    if n == "RepayAction":
        return {"kind": "repay", "token": a.token, "amount": num(a.amount), "after": num(a.debt_after)}
    if n == "LiquidationAction":
        return {"kind": "liquidation", "collTok": a.collateral_token, "debtTok": a.debt_token, "toCover": num(a.delt_to_cover),
                "collUsed": num(a.collateral_used), "debtLiq": num(a.variable_delt_liquidated),
                "hfBefore": num(a.health_factor_before), "hfAfter": num(a.health_factor_after),
                "collAfter": num(a.collateral_after), "debtAfter": num(a.variable_debt_after)}
    raise TypeError(n)


def dump_state(m, b, actions, from_action=0):
    """the raw state in the driver's JSON shape; `actions` = records appended since `from_action`"""
    return {"supplies": [[k.name, supply_info_j(v)] for k, v in m._supplies.items()],
            "borrows": [[k.name, borrow_info_j(v)] for k, v in m._borrows.items()],
            "collC": cache_j(m._collaterals_amount_cache, num), "supAmtC": cache_j(m._supplies_amount_cache, num),
            "supC": cache_j(m._supplies_cache, supply_v_j), "borAmtC": cache_j(m._borrows_amount_cache, num),
            "borC": cache_j(m._borrows_cache, borrow_v_j),
            "wallet": [[k.name, num(a.balance)] for k, a in b._assets.items()],
            "actions": [action_j(a) for a in actions[from_action:]],
            "hasUpdate": bool(m.has_update)}


def load_state(m, b, st):
    """install a dumped state on real objects (used by boundary generators and replays)"""
    from demeter.aave import SupplyInfo, BorrowInfo
    from demeter.aave._typing import Supply, Borrow, DictCache
    m._supplies = {token(k): SupplyInfo(D(v["base"]), bool(v["coll"]), D(v["beginIdx"])) for k, v in st["supplies"]}
    m._borrows = {token(k): BorrowInfo(D(v["base"]), D(v["beginIdx"])) for k, v in st["borrows"]}

    def mk(c, f):
        dc = DictCache()
        for k, v in c["val"]:
            dc.set(token(k), f(k, v))
        dc.empty = bool(c["empty"])
        return dc
    dec = lambda k, v: D(v)
    m._collaterals_amount_cache = mk(st["collC"], dec)
    m._supplies_amount_cache = mk(st["supAmtC"], dec)
    m._borrows_amount_cache = mk(st["borAmtC"], dec)
    m._supplies_cache = mk(st["supC"], lambda k, v: Supply(token=token(k), base_amount=D(v["base"]), collateral=bool(v["coll"]),
                                                          amount=D(v["amount"]), apy=D(v["apy"]), value=D(v["value"]),
                                                          begin_supply_index=D(v["beginIdx"])))
    m._borrows_cache = mk(st["borC"], lambda k, v: Borrow(token=token(k), base_amount=D(v["base"]), amount=D(v["amount"]),
                                                          apy=D(v["apy"]), value=D(v["value"]), begin_borrow_index=D(v["beginIdx"])))
    from demeter.broker._typing import AssetDict
    b._assets = AssetDict()
    for k, v in st["wallet"]:
        b.set_balance(token(k), D(v))
    m.has_update = bool(st.get("hasUpdate", False))


def val_j(x):
    """canonical JSON of a returned value (same shape as the driver's `valJ`)"""
    if x is None:
        return None
    if isinstance(x, (D, int)) and not isinstance(x, bool):
        return num(x)
    if isinstance(x, dict):
        out = []
        for k, v in x.items():
            out.append([k.name, val_j(v)])
        return out
    n = type(x).__name__
    if n == "Supply":
        return supply_v_j(x)
    if n == "Borrow":
        return borrow_v_j(x)
    if n == "AaveBalance":
        return {"netValue": num(x.net_value), "suppliesCount": str(x.supplies_count), "borrowsCount": str(x.borrows_count),
                "liqThreshold": num(x.liquidation_threshold), "healthFactor": num(x.health_factor),
                "borrowsValue": num(x.borrows_value), "suppliesValue": num(x.supplies_value),
                "collateralsValue": num(x.collaterals_value), "maxLtv": num(x.max_ltv), "ltv": num(x.ltv),
                "supplyApy": num(x.supply_apy), "borrowApy": num(x.borrow_apy), "netApy": num(x.net_apy)}
    raise TypeError(f"val_j: {n}")


def same(a, b) -> bool:
    """structural equality of two canonical JSON values; numeric strings compare by value"""
    if isinstance(a, dict) and isinstance(b, dict):
        return a.keys() == b.keys() and all(same(a[k], b[k]) for k in a)
    if isinstance(a, list) and isinstance(b, list):
        return len(a) == len(b) and all(same(x, y) for x, y in zip(a, b))
    if isinstance(a, str) and isinstance(b, str):
        if a == b:
            return True
        try:
            return Fraction(a) == Fraction(b)
        except (ValueError, ZeroDivisionError):
            return False
    return a == b and type(a) == type(b)


def diff(a, b, path=""):
    """first difference between two canonical values (for messages)"""
    if isinstance(a, dict) and isinstance(b, dict):
        for k in sorted(set(a) | set(b)):
            if k not in a or k not in b:
                return f"{path}.{k}: {'missing' if k not in a else a[k]} vs {'missing' if k not in b else b[k]}"
            d = diff(a[k], b[k], f"{path}.{k}")
            if d:
                return d
        return None
    if isinstance(a, list) and isinstance(b, list):
        if len(a) != len(b):
            return f"{path}: length {len(a)} vs {len(b)}: {a} vs {b}"
        for i, (x, y) in enumerate(zip(a, b)):
            d = diff(x, y, f"{path}[{i}]")
            if d:
                return d
        return None
    return None if same(a, b) else f"{path}: {a} vs {b}"


# ------------------------------------------------------------------------------------------ operations
def exc_class(e) -> str:
    return "ArithmeticError" if isinstance(e, ArithmeticError) else type(e).__name__


def read_view(m, view, tok=None):
    if view == "suppliesValue": return m.supplies_value
    if view == "totalSupplyValue": return m.total_supply_value
    if view == "collateralValue": return m.collateral_value
    if view == "totalCollateralValue": return m.total_collateral_value
    if view == "borrowsValue": return m.borrows_value
    if view == "totalBorrowsValue": return m.total_borrows_value
    if view == "supplies": return m.supplies
    if view == "borrows": return m.borrows
    if view == "liquidationThreshold": return m.liquidation_threshold
    if view == "maxLtv": return m.max_ltv
    if view == "ltv": return m.ltv
    if view == "healthFactor": return m.health_factor
    if view == "supplyApy": return m.supply_apy
    if view == "borrowApy": return m.borrow_apy
    if view == "totalApy": return m.total_apy
    if view == "marketBalance": return m.get_market_balance()
    if view == "getSupply": return m.get_supply(token(tok))
    if view == "getBorrow": return m.get_borrow(token(tok))
    if view == "maxBorrowAmount": return m.get_max_borrow_amount(token(tok))
    if view == "maxWithdrawAmount": return m.get_max_withdraw_amount(token(tok))
    if view == "maxRepayAmount": return m.get_max_repay_amount(token(tok))
    raise ValueError(view)


def apply_op(m, op, env_next=None):
    """run one operation on the real market; returns (outcome class | "ok", canonical result)"""
    k = op["kind"]
    amt = lambda: None if op.get("amount") is None else D(op["amount"])
    try:
        if k == "supply":
            r = m.supply(token(op["tok"]), amt(), op["coll"])
        elif k == "withdraw":
            r = m.withdraw(token(op["tok"]), amt())
        elif k == "borrow":
            r = m.borrow(token(op["tok"]), amt())
        elif k == "repay":
            ct = op.get("collTok")
            r = m.repay(token(op["tok"]), amt(), op["withColl"], None if ct is None else token(ct))
        elif k == "changeCollateral":
            r = m.change_collateral(token(op["tok"]), op["coll"])
        elif k == "update":
            r = m.update()
        elif k in ("read", "helper"):
            r = read_view(m, op["view"], op.get("tok"))
        elif k == "newBar":
            install_env(m, env_next)
            r = None
        else:
            raise ValueError(k)
        return "ok", val_j(r)
    except Exception as e:  # noqa: BLE001 — the class of whatever the code raises is the observation
        return exc_class(e), None


def clone_market(m, keep_caches: bool):
    """a second market object over copies of the raw positions (and, if asked, of the cache contents):
    reading views on it does not disturb the original"""
    from demeter.aave._typing import DictCache
    c = copy.copy(m)
    c._supplies = {k: copy.copy(v) for k, v in m._supplies.items()}
    c._borrows = {k: copy.copy(v) for k, v in m._borrows.items()}
    for name in ("_collaterals_amount_cache", "_supplies_amount_cache", "_supplies_cache", "_borrows_amount_cache", "_borrows_cache"):
        dc = DictCache()
        if keep_caches:
            src = getattr(m, name)
            dc._value = {k: copy.copy(v) for k, v in src.value.items()}
            dc.empty = src.empty
        setattr(c, name, dc)
    c._record_action_callback = None
    return c


def observe_view(m, view, tok=None):
    try:
        return ["ok", val_j(read_view(m, view, tok))]
    except Exception as e:  # noqa: BLE001
        return [exc_class(e), None]


def step_request(env, state, op, ctx="py"):
    st = dict(state)
    st["actions"] = []
    return {"fn": "aave_step", "ctx": ctx, "env": env_json(env), "state": st, "op": op}


def spec_request(env, state, view, tok=None, ctx="py"):
    r = {"fn": "aave_spec", "ctx": ctx, "env": env_json(env), "supplies": state["supplies"], "borrows": state["borrows"], "view": view}
    if tok is not None:
        r["tok"] = tok
    return r


def upd_wf(env, st) -> bool:
    """`Aave.updWF env state` (lean/Demeter/Aave/WF.lean) evaluated on the bar and the implementation's dumped state — the
    computable hypothesis of `C04_aave_update_completes` / `C13_liquidate_never_raises_debt_exceeds_wf`: every token the bar lists
    has a price, a risk row and non-zero indices; every held token has positive indices and price and non-negative LTV / LT /
    bonus; no scaled balance is negative; a supply used as collateral has a positive liquidation threshold.  The driver answers the
    same predicate (`wf`) for every step; the harness compares the two and requires `update()` not to raise when it holds."""
    status, price, risk = env["status"], env["price"], env["risk"]
    for t in env["tokens"]:
        if t not in price or t not in risk or status[t]["liqIdx"] == 0 or status[t]["varIdx"] == 0:
            return False

    def row_ok(k):
        if k not in status or k not in price or k not in risk:
            return False
        return (status[k]["liqIdx"] > 0 and status[k]["varIdx"] > 0 and price[k] > 0 and risk[k]["ltv"] >= 0 and risk[k]["lt"] >= 0
                and risk[k]["bonus"] >= 0)
    for k, v in st["supplies"]:
        if Fraction(v["base"]) < 0 or not row_ok(k) or (v["coll"] and not risk[k]["lt"] > 0):
            return False
    for k, v in st["borrows"]:
        if Fraction(v["base"]) < 0 or not row_ok(k):
            return False
    return True


# ------------------------------------------------------------------------------------------ generators
def dec_digits(rng, lo: float, hi: float, digits: int) -> D:
    """uniform in [lo, hi] with `digits` decimal places"""
    q = 10 ** digits
    return D(rng.randint(int(lo * q), int(hi * q))) / D(q)


def log_uniform(rng, lo_exp: int, hi_exp: int, sig: int = 6) -> D:
    e = rng.randint(lo_exp, hi_exp)
    mant = D(rng.randint(10 ** (sig - 1), 10 ** sig - 1)) / D(10 ** (sig - 1))
    return mant.scaleb(e)


def gen_env(rng, ntok=None, exact=False, minute=0):
    """one bar: indices ≥ 1 (27 digits like the ray values in the data files, or short exact decimals),
    per-second rates, prices over 9 decades, a risk table with the shapes that occur in the csv files
    (LTV ≤ LT, zero LTV, not usable as collateral, borrowing disabled)"""
    n = ntok or rng.randint(2, 4)
    toks = rng.sample(TOKENS, n)
    status, price, risk = {}, {}, {}
    for t in toks:
        if exact:
            li, vi = D(rng.choice(["1", "1.25", "1.5", "2", "1.1"])), D(rng.choice(["1", "1.25", "1.5", "2", "1.2"]))
            p = D(rng.choice(["1", "0.5", "2", "1000", "1600", "0.25", "30000"]))
        else:
            li, vi = dec_digits(rng, 1.0, 3.0, 27), dec_digits(rng, 1.0, 3.0, 27)
            p = log_uniform(rng, -4, 5, rng.choice((3, 8, 18)))
        status[t] = {"liqRate": dec_digits(rng, 0, 0.3, 27), "varRate": dec_digits(rng, 0, 0.5, 27), "liqIdx": li, "varIdx": vi}
        price[t] = p
        r = rng.random()
        ltv = D(0) if r < 0.1 else D(rng.randint(3000, 8500)) / D(10000)
        lt = D(0) if r < 0.03 else min(D("0.95"), ltv + D(rng.randint(0, 1500)) / D(10000))
        risk[t] = {"canColl": rng.random() < 0.88, "ltv": ltv, "lt": lt, "bonus": D(rng.randint(100, 1500)) / D(10000),
                   "canBorrow": rng.random() < 0.88}
    return {"tokens": toks, "status": status, "price": price, "risk": risk, "isOpen": True, "minute": minute}


def next_env(rng, env, shock=None):
    """the next bar: indices never decrease, prices move (a `shock` multiplies the prices of supplied tokens to
    drive the health factor below 1)"""
    e = copy.deepcopy(env)
    e.pop("refresh", None)
    e["minute"] = env.get("minute", 0) + 1
    # a quiet bar: part of the row repeats the previous bar's (minute data: prices unchanged, or only the borrow side accrues, or nothing moves
    # at all); every part that does move must still show in every view
    still = set()
    one_price = None
    if shock is None and rng.random() < 0.3:
        still = set(rng.choice((("price",), ("price", "liq"), ("price", "liq", "rates"), ("price", "var", "rates"), ("liq", "var"),
                                ("price", "liq", "var", "rates"), ("liq",), ("var",), ("price", "liq", "var", "rates", "but-one"),
                                ("price", "liq", "var", "rates", "but-one"))))
        if "but-one" in still:
            one_price = rng.choice(e["tokens"])         # the row repeats the previous bar's except for ONE price
    e["quiet"] = "+".join(sorted(still)) if still else ""
    for t in e["tokens"]:
        st = e["status"][t]
        if "liq" not in still:
            st["liqIdx"] = (st["liqIdx"] * (1 + dec_digits(rng, 0, 0.02, 12))).quantize(D(10) ** -27)
        if "var" not in still:
            st["varIdx"] = (st["varIdx"] * (1 + dec_digits(rng, 0, 0.03, 12))).quantize(D(10) ** -27)
        if "rates" not in still:
            st["liqRate"] = dec_digits(rng, 0, 0.3, 27)
            st["varRate"] = dec_digits(rng, 0, 0.5, 27)
        f = dec_digits(rng, 0.9, 1.1, 6) if ("price" not in still or t == one_price) else D(1)
        if shock and t in shock:
            f = shock[t]
        if t not in e["price"]:
            e["price"][t] = log_uniform(rng, -4, 5, 6)     # a price missing from the previous (malformed) bar is back
        else:
            e["price"][t] = (e["price"][t] * f).normalize() if e["price"][t] * f != 0 else e["price"][t]
    return e


def refresh_env(rng, env, held, kind=None):
    """the same bar set again (`set_market_status(MarketStatus(same timestamp, None), price)`, what the Actuator does after a write):
    the row is the same; the price Series is the same, or carries a changed price for a held token, or for every token"""
    e = copy.deepcopy(env)
    e["refresh"] = True
    e["quiet"] = ""
    kind = kind or rng.choice(("same", "held", "held", "held", "all"))
    movers = []
    if kind == "held" and held:
        movers = [rng.choice(held)]
    elif kind == "all":
        movers = list(e["price"])
    for t in movers:
        if t in e["price"] and e["price"][t] != 0:
            e["price"][t] = (e["price"][t] * dec_digits(rng, 0.5, 1.3, 4)).normalize()
    e["refresh_kind"] = kind if movers or kind == "same" else "same"
    return e


def features(m, env) -> list:
    """what the current state / bar exhibits, for the evidence distribution (`feature:*` counters)"""
    out = []
    sup = {k.name: v for k, v in m._supplies.items()}
    bor = {k.name for k in m._borrows}
    if set(sup) & bor:
        out.append("same-token-supplied-and-borrowed")
    if any(v.collateral and t in env["risk"] and env["risk"][t]["ltv"] == 0 for t, v in sup.items()):
        out.append("zero-ltv-collateral-held")
    if any(TOKEN_DECIMALS.get(t) == 6 for t in list(sup) + list(bor)):
        out.append("six-decimal-token-held")
    if env.get("quiet"):
        out.append("quiet-bar:" + env["quiet"])
    if env.get("refresh"):
        out.append("same-bar-refresh:" + env.get("refresh_kind", "?"))
    return out


def amount_like(rng, ref: D, exactish=False) -> D:
    """an amount related to a reference balance: fraction, all, just above, tiny, huge"""
    r = rng.random()
    if ref <= 0:
        return log_uniform(rng, -6, 6)
    if r < 0.5:
        return (ref * dec_digits(rng, 0.01, 0.99, 4)).normalize()
    if r < 0.65:
        return ref
    if r < 0.75:
        return ref * (1 + D(10) ** -rng.choice((6, 9, 20)))
    if r < 0.85:
        return ref * (1 - D(10) ** -rng.choice((6, 9, 20)))
    if r < 0.93:
        return ref * 10
    return log_uniform(rng, -18, -9)


def gen_op(rng, m, b, env, malformed=0.12):
    """one operation, mostly valid for the current state; returns the op dict"""
    toks = env["tokens"]
    sup = list(m._supplies.keys())
    bor = list(m._borrows.keys())
    r = rng.random()
    if rng.random() < malformed:
        k = rng.choice(["supply", "withdraw", "borrow", "repay", "changeCollateral", "read"])
        tok = rng.choice(toks + [UNKNOWN])
        bad = rng.choice(["zero", "negative", "huge", "unknown", "plain"])
        if bad == "unknown":
            tok = UNKNOWN if rng.random() < 0.5 else rng.choice(TOKENS)
        a = {"zero": D(0), "negative": -log_uniform(rng, -3, 3), "huge": log_uniform(rng, 9, 14), "unknown": log_uniform(rng, -2, 2),
             "plain": log_uniform(rng, -3, 3)}[bad]
        if k == "supply":
            return {"kind": k, "tok": tok, "amount": fmt(a), "coll": rng.random() < 0.6}
        if k in ("withdraw", "borrow"):
            return {"kind": k, "tok": tok, "amount": fmt(a)}
        if k == "repay":
            wc = rng.random() < 0.4
            return {"kind": k, "tok": tok, "amount": fmt(a), "withColl": wc, "collTok": rng.choice(toks + [UNKNOWN, None]) if wc else None}
        if k == "changeCollateral":
            return {"kind": k, "tok": tok, "coll": rng.random() < 0.5}
        return {"kind": "read", "view": rng.choice(VIEWS1), "tok": tok}
    has_coll = any(v.collateral and env["risk"][k.name]["lt"] > 0 for k, v in m._supplies.items())
    if has_coll and len(bor) < 2 and rng.random() < 0.3:
        # steer towards portfolios with debt: borrow a sizeable part of what the collateral allows
        cands = [t for t in toks if env["risk"][t]["canBorrow"]] or toks
        both = [t for t in cands if token(t) in m._supplies]
        tok = rng.choice(both) if both and rng.random() < 0.35 else rng.choice(cands)      # the same token supplied and borrowed
        try:
            ref = clone_market(m, False).get_max_borrow_amount(token(tok))
        except Exception:  # noqa: BLE001
            ref = D(1)
        if ref.is_finite() and ref > 0:
            return {"kind": "borrow", "tok": tok, "amount": fmt((ref * dec_digits(rng, 0.3, 0.98, 4)).normalize())}
    if r < 0.22 or not sup:
        cands = [t for t in toks if env["risk"][t]["canColl"] and env["risk"][t]["lt"] > 0] if rng.random() < 0.7 else toks
        tok = rng.choice(cands or toks)
        bal = b._assets[token(tok)].balance if token(tok) in b._assets else D(0)
        coll = m._supplies[token(tok)].collateral if token(tok) in m._supplies and rng.random() < 0.85 else rng.random() < 0.75
        return {"kind": "supply", "tok": tok, "amount": fmt(amount_like(rng, bal)), "coll": coll}
    if r < 0.36:
        t = rng.choice(sup)
        ref = m._supplies[t].base_amount * env["status"][t.name]["liqIdx"]
        return {"kind": "withdraw", "tok": t.name, "amount": None if rng.random() < 0.25 else fmt(amount_like(rng, ref))}
    if r < 0.52:
        tok = rng.choice(toks)
        try:
            ref = clone_market(m, False).get_max_borrow_amount(token(tok))
        except Exception:  # noqa: BLE001
            ref = D(1)
        if not ref.is_finite():
            ref = D(1)
        return {"kind": "borrow", "tok": tok, "amount": None if rng.random() < 0.12 else fmt(amount_like(rng, ref))}
    if r < 0.66 and bor:
        t = rng.choice(bor)
        ref = m._borrows[t].base_amount * env["status"][t.name]["varIdx"]
        wc = rng.random() < 0.35
        ct = None
        if wc:
            ct = rng.choice([None] + [s.name for s in sup])
        return {"kind": "repay", "tok": t.name, "amount": None if rng.random() < 0.25 else fmt(amount_like(rng, ref)),
                "withColl": wc, "collTok": ct}
    if r < 0.74:
        t = rng.choice(sup)
        return {"kind": "changeCollateral", "tok": t.name, "coll": (not m._supplies[t].collateral) if rng.random() < 0.85 else m._supplies[t].collateral}
    if r < 0.80:
        return {"kind": "update"}
    v = rng.choice(VIEWS0 + VIEWS0 + VIEWS1)
    if v in VIEWS1:
        return {"kind": "read", "view": v, "tok": rng.choice(toks)}
    return {"kind": "read", "view": v}


# ------------------------------------------------------------------------------------------ liquidation ties
def capped_tie(rng, bonus: D, tries=6000):
    """a one-collateral / one-debt portfolio at an exact liquidation tie: the collateral is worth the debt x (1 + bonus) up to the
    last of 35 digits, so whether the seizure is capped by the balance, and the repayment "scaled down accordingly", are decided by
    the rounding of `price_d * debt / price_c * (1 + bonus)` against `price_c * balance / (price_d * (1 + bonus))`.
    Returns (price_d, price_c, debt_amount, collateral_amount, kind): kind == "over" when `_do_liquidate`'s scaled-down repayment
    (computed the way the code computes it) comes out ABOVE the debt although the seizure is capped — the inputs of
    DemeterError("variable_delt < actual_debt_to_liquidate"); otherwise "near" (a tie without that inversion).
    Uses the process-wide Decimal context (prec 35, set by `import demeter`) like the code."""
    import demeter  # noqa: F401  (sets getcontext().prec = 35)
    near = None
    one_b = 1 + D(bonus)
    for _ in range(tries):
        pd_ = log_uniform(rng, 0, 1, rng.choice((1, 3, 6)))            # debt price >= 1: the value to cover is not below the debt
        pc = log_uniform(rng, 0, 4, rng.choice((3, 6, 12)))
        var = log_uniform(rng, 0, 5, rng.choice((5, 12, 35)))
        ex = Fraction(var) * Fraction(pd_) * Fraction(one_b) / Fraction(pc)
        approx = D(ex.numerator) / D(ex.denominator)
        for k in (-2, -1, 0, 1):
            ub = approx + D(k).scaleb(approx.adjusted() - 34)
            if ub <= 0:
                continue
            maxc = pd_ * var / pc * one_b
            if maxc > ub:
                if (pc * ub) / (pd_ * one_b) > var:
                    return pd_, pc, var, ub, "over"
                near = (pd_, pc, var, ub, "near")
    return near


def tie_market(rng):
    """a real market holding the `capped_tie` portfolio (one collateral, one debt, indices 1, LT x (1 + bonus) < 0.95 so that the
    close factor is 100 %): returns (env, market, broker, actions, kind)"""
    env = gen_env(rng, ntok=2, exact=True)
    ct, dt = env["tokens"]
    bonus = D(rng.choice(["0.05", "0.075", "0.1", "0.045", "0.125"]))
    env["risk"][ct] = {"canColl": True, "ltv": D("0.7"), "lt": D(rng.choice(["0.75", "0.8", "0.825"])), "bonus": bonus, "canBorrow": True}
    pd_, pc, var, ub, kind = capped_tie(rng, bonus)
    env["price"][ct], env["price"][dt] = pc, pd_
    env["status"][ct]["liqIdx"] = D(1)
    env["status"][dt]["varIdx"] = D(1)
    m, b, actions = new_market(env, [[ct, "3"], [dt, "5"]])
    from demeter.aave import SupplyInfo, BorrowInfo
    m._supplies[token(ct)] = SupplyInfo(ub, True, D(1))
    m._borrows[token(dt)] = BorrowInfo(var, D(1))
    return env, m, b, actions, kind


def arg_class(op):
    a = op.get("amount", "-")
    if a is None:
        return "None"
    if a == "-":
        return "-"
    x = Fraction(a)
    return "zero" if x == 0 else "neg" if x < 0 else "tiny" if x < Fraction(1, 10 ** 9) else "big" if x > 10 ** 9 else "mid"


def initial_wallet(rng, env):
    w = []
    for t in env["tokens"]:
        if rng.random() < 0.9:
            # enough to make positions worth 1e2 … 1e6 USD
            usd = log_uniform(rng, 2, 6)
            w.append([t, fmt((usd / env["price"][t]).quantize(D(10) ** -18))])
    return w
