"""C06 — tick <-> sqrt-price conversions (demeter/uniswap/liquitidy_math.py, helper.py)."""
from __future__ import annotations

import math
from decimal import Decimal, localcontext
from fractions import Fraction

from common import Ctx, driver_batch, fmt

PROPERTY = "C06"
LEAN_MODULES = ["Proofs.C06", "Proofs.C06.Full", "Proofs.C06.Close", "Proofs.C06.CloseRel", "Proofs.C06.CloseReal",
                "Proofs.C06.Inverse", "Proofs.C06.InverseLog", "Proofs.C06.InversePy", "Proofs.C06.Strengthen", "Proofs.C06.Converse", "Proofs.C06.ConverseLog",
                "Proofs.Numerics"]
DRIVERS = ["driver", "driver_tick"]
EXTRA_THEOREM_PREFIXES = ["Num_"]   # Proofs/Numerics.lean: proved error bounds of the model's round35/dsqrt35, used by C06_inverse_x96_round35
RULE = ("ticks: stride sample + boundaries + random (thorough: all 1 774 545); sqrt prices on, just above, in the middle of and just "
        "below tick boundaries; buckets = (function, sign of tick, position inside the tick interval, decimals pair, orientation)")
TRUSTED = ["math.log is an oracle: the repaired conversion corrects any estimate by integer comparisons (theorem C06_floor holds for every estimate)",
           "base_unit_price_to_tick ends in math.floor(math.log(Decimal, float)) (libm): C06_inverse_log(_round35) is proved under the single libm hypothesis "
           "LgSound (this is the floor logarithm up to a relative perturbation 1e-9 of its argument); the hypothesis is evaluated on every observed call (60-digit reference)",
           "Decimal(10 ** negative) goes through libm pow; the driver calls the same libm and the value is compared bit-exactly; the 35-digit inverse theorems "
           "(C06_inverse_x96_round35_fac/_facPy, C06_inverse_converse_round35) hold for every positive value of it",
           "the epsilon-robust inverse theorems assume |rnd x - x| <= eps|x| and the analogous bound for Decimal.sqrt / ** 2 (eps <= 1e-9; CPython: 5e-35)"]
ASSUMPTIONS = ["Decimal arithmetic = exact result rounded half-even to 35 digits (validated against CPython)"]

MIN_TICK, MAX_TICK = -887272, 887272
B_MIN, B_MAX = 4295128739, 1461446703485210103287273052203988822378723970342


def ideal_sqrt_x96(t: int) -> Decimal:
    """sqrt(1.0001^t) * 2^96 with 70 significant digits"""
    with localcontext() as c:
        c.prec = 70
        return (Decimal("1.0001") ** t).sqrt() * (Decimal(2) ** 96)


def close_ok(t: int, v: int) -> bool:
    with localcontext() as c:
        c.prec = 70
        ideal = ideal_sqrt_x96(t)
        err = abs(Decimal(v) - ideal)
        if t <= 0:
            return err < 1
        bound = 1 + ideal * 8 * (Decimal("1.0001") ** t).sqrt() / (Decimal(2) ** 128)
        return err < bound


def run(ctx: Ctx):
    from demeter.uniswap import liquitidy_math as lm
    from demeter.uniswap import helper as hp

    rng = ctx.rng
    g = lm.get_sqrt_ratio_at_tick
    ctx0 = _context_fingerprint()     # the decimal context `import demeter` sets up; no conversion may change it
    # ---------------------------------------------------------------- tick -> sqrt
    if ctx.thorough:
        ticks = list(range(MIN_TICK, MAX_TICK + 1))
    else:
        ticks = sorted(set(list(range(MIN_TICK, MAX_TICK + 1, 97)) + [MIN_TICK, MIN_TICK + 1, -1, 0, 1, MAX_TICK - 1, MAX_TICK]
                           + [s * (1 << k) + d for k in range(20) for s in (-1, 1) for d in (-1, 0, 1) if abs(s * (1 << k) + d) <= MAX_TICK]
                           + [rng.randint(MIN_TICK, MAX_TICK) for _ in range(ctx.scale(4000, 0))]))
    impl = {}
    for t in ticks:
        impl[t] = g(t)
    ctx.impl_traces += len(ticks)
    # boundaries and rejection outside the range
    for t, want in ((0, 2 ** 96), (MIN_TICK, B_MIN), (MAX_TICK, B_MAX)):
        if g(t) != want:
            ctx.violate("tick2sqrt.boundary", f"get_sqrt_ratio_at_tick({t}) = {g(t)}, protocol value {want}", {"fn": "get_sqrt_ratio_at_tick", "tick": t})
        ctx.case(f"boundary:{t}", {"fn": "get_sqrt_ratio_at_tick", "tick": t, "value": str(g(t))})
    for t in (MIN_TICK - 1, MAX_TICK + 1):
        try:
            g(t)
            ctx.violate("tick2sqrt.range", f"tick {t} outside the valid range accepted", {"fn": "get_sqrt_ratio_at_tick", "tick": t})
        except AssertionError:
            ctx.case("out-of-range-rejected")
    # strict monotonicity on neighbours
    for t in ticks:
        if t < MAX_TICK:
            nxt = impl.get(t + 1)
            if nxt is None:
                nxt = g(t + 1)
            if not impl[t] < nxt:
                ctx.violate("tick2sqrt.mono", f"not strictly increasing at tick {t}: {impl[t]} !< {nxt}", {"fn": "get_sqrt_ratio_at_tick", "tick": t})
    # closeness (measured): sample in quick, stride in thorough (70-digit pow per tick is ~40 µs)
    close_ticks = ticks if not ctx.thorough else ticks[::1]
    if ctx.thorough:
        # incremental product at 90 digits: r(t+1) = r(t) * sqrt(1.0001)
        with localcontext() as c:
            c.prec = 90
            rt = Decimal("1.0001").sqrt()
            q96 = Decimal(2) ** 96
            two128 = Decimal(2) ** 128
            r = Decimal(1)
            for t in range(0, MAX_TICK + 1):
                ideal = r * q96
                err = abs(Decimal(impl[t]) - ideal)
                bound = 1 + ideal * 8 * r / two128 if t > 0 else 1
                if not err < bound:
                    ctx.violate("tick2sqrt.close", f"tick {t}: |value - ideal| = {err:.6} exceeds bound {bound:.6}", {"fn": "get_sqrt_ratio_at_tick", "tick": t})
                r = r * rt
            r = Decimal(1)
            for t in range(0, MIN_TICK - 1, -1):
                ideal = r * q96
                err = abs(Decimal(impl[t]) - ideal)
                if not err < 1:
                    ctx.violate("tick2sqrt.close", f"tick {t}: |value - ideal| = {err:.6} exceeds 1", {"fn": "get_sqrt_ratio_at_tick", "tick": t})
                r = r / rt
        ctx.note("closeness_checked_ticks", len(ticks))
    else:
        n = 0
        for t in close_ticks[:: max(1, len(close_ticks) // 6000)]:
            n += 1
            if not close_ok(t, impl[t]):
                ctx.violate("tick2sqrt.close", f"tick {t}: value {impl[t]} not within the property's bound of sqrt(1.0001^t)*2^96", {"fn": "get_sqrt_ratio_at_tick", "tick": t})
        ctx.note("closeness_checked_ticks", n)
    # correspondence with the model
    if ctx.driver_ok:
        out = driver_batch([f"sqrtAt {t}" for t in ticks])
        for t, o in zip(ticks, out):
            if o != str(impl[t]):
                ctx.disagree(f"get_sqrt_ratio_at_tick({t}): impl {impl[t]} model {o}", {"fn": "get_sqrt_ratio_at_tick", "tick": t})
    for t in ticks:
        ctx.case(f"tick2sqrt:{'neg' if t < 0 else 'pos' if t > 0 else 'zero'}:bits{bin(abs(t)).count('1')}", None)
    ctx.samples.append({"fn": "get_sqrt_ratio_at_tick", "tick": ticks[len(ticks) // 3], "value": str(impl[ticks[len(ticks) // 3]])})

    # ---------------------------------------------------------------- sqrt -> tick (floor)
    stride = 7 if ctx.thorough else 389
    pts = []
    base = list(range(MIN_TICK, MAX_TICK, stride)) + [MIN_TICK, -3, -2, -1, 0, 1, 2, MAX_TICK - 1] + \
        [rng.randint(MIN_TICK, MAX_TICK - 1) for _ in range(ctx.scale(1500, 20000))]
    for t in base:
        lo, hi = g(t), g(t + 1)
        for pos, x in (("on", lo), ("lo+1", lo + 1), ("mid", (lo + hi) // 2), ("hi-1", hi - 1)):
            if lo <= x < hi:
                pts.append((t, pos, x))
    pts.append((MAX_TICK, "on", g(MAX_TICK)))
    reqs = []
    for t, pos, x in pts:
        try:
            r = hp.sqrt_price_x96_to_tick(x)
        except Exception as e:  # noqa
            ctx.violate("sqrt2tick.raises", f"sqrt_price_x96_to_tick({x}) raised {type(e).__name__}", {"fn": "sqrt_price_x96_to_tick", "x": str(x)})
            continue
        ctx.case(f"sqrt2tick:{'neg' if t < 0 else 'pos' if t > 0 else 'zero'}:{pos}", {"fn": "sqrt_price_x96_to_tick", "x": str(x), "floor_tick": t, "impl": r})
        if r != t:
            ctx.violate(f"sqrt2tick.floor.{'neg' if t < 0 else 'nonneg'}.{pos if pos == 'on' else 'between'}",
                        f"sqrt_price_x96_to_tick({x}) = {r}, greatest tick with sqrt price <= input is {t}",
                        {"fn": "sqrt_price_x96_to_tick", "x": str(x), "floor_tick": t})
        est = math.floor(math.log(hp._from_x96(x), hp.SQRT_1p0001))
        reqs.append((t, x, r, f"tickOfSqrt {est} {x}"))
    if ctx.driver_ok and reqs:
        out = driver_batch([q[3] for q in reqs])
        for (t, x, r, _), o in zip(reqs, out):
            if o != str(r):
                ctx.disagree(f"sqrt_price_x96_to_tick({x}): impl {r} model {o}", {"fn": "sqrt_price_x96_to_tick", "x": str(x), "floor_tick": t})
    ctx.impl_traces += len(pts)

    # ---------------------------------------------------------------- price <-> tick helpers, both orientations
    n_inv = ctx.scale(1200, 40000)
    for _ in range(n_inv):
        d0, d1 = rng.choice((6, 8, 18)), rng.choice((6, 8, 18))
        q0 = rng.random() < 0.5
        # keep prices inside Decimal's comfortable range: all ticks are fine for 35 digits
        t = rng.randint(MIN_TICK + 2, MAX_TICK - 2) if rng.random() < 0.7 else rng.choice((-5, -4, -1, 0, 1, 4, 5, MIN_TICK + 2, MAX_TICK - 2))
        price = hp.tick_to_base_unit_price(t, d0, d1, q0)
        back = hp.base_unit_price_to_tick(price, d0, d1, q0)
        ctx.case(f"inverse:{d0},{d1}:{'q0' if q0 else 'q1'}:{'neg' if t < 0 else 'pos'}",
                 {"fn": "price_tick_roundtrip", "tick": t, "d0": d0, "d1": d1, "is_token0_quote": q0, "price": fmt(price), "back": back})
        if abs(back - t) > 1:
            ctx.violate("helpers.inverse", f"base_unit_price_to_tick(tick_to_base_unit_price({t})) = {back} (decimals {d0},{d1}, token0_quote={q0})",
                        {"fn": "price_tick_roundtrip", "tick": t, "d0": d0, "d1": d1, "q0": q0})
        # sqrt-price helpers
        sx = g(t)
        p2 = hp.sqrt_price_x96_to_base_unit_price(sx, d0, d1, q0)
        sx2 = hp.base_unit_price_to_sqrt_price_x96(p2, d0, d1, q0)
        # inverse to within one tick: sx2 lies within the neighbouring ticks' sqrt prices
        if not (g(t - 1) <= sx2 <= g(t + 1)):
            ctx.violate("helpers.inverse.sqrt", f"base_unit_price_to_sqrt_price_x96(sqrt_price_x96_to_base_unit_price(sqrtAt {t})) = {sx2}, more than one tick away",
                        {"fn": "price_sqrt_roundtrip", "tick": t, "d0": d0, "d1": d1, "q0": q0})
        # the two orientations describe the same pool price: p(q0) * p(not q0) = 1 (to Decimal rounding)
        p3 = hp.tick_to_base_unit_price(t, d0, d1, not q0)
        if abs(Fraction(price) * Fraction(p3) - 1) > Fraction(1, 10 ** 30):
            ctx.violate("helpers.orientation", f"tick_to_base_unit_price({t}) orientations are not reciprocal", {"fn": "orientation", "tick": t, "d0": d0, "d1": d1})

    if _context_fingerprint() != ctx0:
        ctx.violate("helpers.process-state.decimal-context.run", f"the conversions above left the process-wide decimal context changed: {ctx0} -> {_context_fingerprint()}",
                    {"fn": "helpers_price"})
    # ---------------------------------------------------------------- price <-> tick helpers: model correspondence (bit-exact)
    helpers_correspondence(ctx, hp, g)

    # ---------------------------------------------------------------- nearest usable tick
    reqs = []
    for _ in range(ctx.scale(4000, 200000)):
        sp = rng.choice((1, 10, 60, 200, rng.randint(1, 500)))
        t = rng.choice((rng.randint(MIN_TICK, MAX_TICK), rng.randint(-3 * sp, 3 * sp), MIN_TICK + rng.randint(0, sp), MAX_TICK - rng.randint(0, sp)))
        t = max(MIN_TICK, min(MAX_TICK, t))
        r = hp.nearest_usable_tick(t, sp)
        tie = (2 * (t % sp) == sp)
        ctx.case(f"usable:{'tie' if tie else 'plain'}:{'end' if abs(t) > MAX_TICK - sp else 'mid'}:{'neg' if t < 0 else 'pos'}",
                 {"fn": "nearest_usable_tick", "tick": t, "spacing": sp, "impl": r})
        ok = (r % sp == 0) and MIN_TICK <= r <= MAX_TICK
        if ok:
            # nearest multiple inside the valid range
            cands = [m for m in ((t // sp) * sp, (t // sp + 1) * sp, (t // sp - 1) * sp) if MIN_TICK <= m <= MAX_TICK]
            best = min(abs(m - t) for m in cands)
            ok = abs(r - t) == best
        if not ok:
            ctx.violate("usable.nearest", f"nearest_usable_tick({t}, {sp}) = {r} is not the nearest in-range multiple", {"fn": "nearest_usable_tick", "tick": t, "spacing": sp})
        reqs.append((t, sp, r))
    if ctx.driver_ok:
        out = driver_batch([f"nearestUsable {t} {sp}" for t, sp, _ in reqs])
        for (t, sp, r), o in zip(reqs, out):
            if o != str(r):
                ctx.disagree(f"nearest_usable_tick({t},{sp}): impl {r} model {o}", {"fn": "nearest_usable_tick", "tick": t, "spacing": sp})



DEC_CHOICES = (0, 1, 2, 6, 8, 9, 12, 18, 24, 27)
LG_DELTA_TICKS = Decimal("2e-5")   # ln(1 + 1e-9) / ln(sqrt(1.0001)): the oracle hypothesis `LgSound (1e-9)` of Proofs/C06/Inverse.lean


CONTEXT_LEAKS = []   # (helper name, {field: (before, after)}, args) — a conversion helper must leave the process-wide decimal context alone


def _context_fingerprint():
    import decimal
    c = decimal.getcontext()
    return {"prec": c.prec, "rounding": c.rounding, "Emin": c.Emin, "Emax": c.Emax, "capitals": c.capitals, "clamp": c.clamp,
            "traps": sorted(k.__name__ for k, v in c.traps.items() if v)}


def _exc_name(f, *a):
    """("ok", value) | ("err", ExceptionClass) of one helper call; a change of the process-wide decimal context by the call is recorded and undone
    (the conversions are pure functions: everything computed afterwards in the process would be rounded differently)"""
    import decimal
    saved, before = decimal.getcontext().copy(), _context_fingerprint()
    try:
        return ("ok", f(*a))
    except Exception as e:  # noqa
        return ("err", type(e).__name__)
    finally:
        after = _context_fingerprint()
        if after != before:
            CONTEXT_LEAKS.append((getattr(f, "__name__", "?"), {k: (before[k], after[k]) for k in after if after[k] != before[k]}, [str(x) for x in a]))
            saved.clear_flags()
            decimal.setcontext(saved)


def _same(impl, line, as_int=False) -> bool:
    """impl = ("ok", value) | ("err", ExceptionClass); line = the driver's answer"""
    if impl[0] == "err":
        return line == "ERR " + impl[1]
    if line.startswith("ERR"):
        return False
    if as_int:
        return line == str(impl[1])
    return Fraction(line) == Fraction(impl[1])


def lg_oracle_ok(sp: Decimal, e: int) -> bool:
    """the hypothesis on the float logarithm under which C06_inverse_log is proved, evaluated on one observed call:
    e = floor(log(sp, sqrt(1.0001))) up to a relative perturbation 1e-9 of the argument (60-digit reference)"""
    with localcontext() as c:
        c.prec = 60
        L = sp.ln() / (Decimal("1.0001").ln() / 2)
        return math.floor(L - LG_DELTA_TICKS) <= e <= math.floor(L + LG_DELTA_TICKS)


def helpers_correspondence(ctx: Ctx, hp, g):
    """run the real helpers and the Lean model (`driver_tick`, CPython arithmetic) on the same inputs; every Decimal is
    compared exactly, every int exactly, every exception by class"""
    rng = ctx.rng
    reqs = []   # (what, impl outcome, request line, as_int, replay)

    def add(what, impl, line, as_int, replay):
        reqs.append((what, impl, line, as_int, replay))

    n = ctx.scale(1500, 40000)
    specials = [MIN_TICK, MIN_TICK + 1, -2, -1, 0, 1, 2, MAX_TICK - 1, MAX_TICK]
    for i in range(n):
        d0, d1 = rng.choice(DEC_CHOICES), rng.choice(DEC_CHOICES)
        if rng.random() < 0.5:
            d0, d1 = rng.choice((6, 8, 18)), rng.choice((6, 8, 18))
        q0 = rng.random() < 0.5
        t = rng.choice(specials) if rng.random() < 0.1 else rng.randint(MIN_TICK, MAX_TICK)
        rp = {"fn": "helpers_roundtrip", "tick": t, "d0": d0, "d1": d1, "q0": q0}
        # tick -> price
        pr = _exc_name(hp.tick_to_base_unit_price, t, d0, d1, q0)
        add("tick_to_base_unit_price", pr, f"tickToPrice {t} {d0} {d1} {fmt(q0)}", False, rp)
        sx = g(t)
        if rng.random() < 0.5 and t < MAX_TICK:
            sx = rng.randint(sx, g(t + 1) - 1)      # a sqrt price strictly inside the tick interval
        p2 = _exc_name(hp.sqrt_price_x96_to_base_unit_price, sx, d0, d1, q0)
        add("sqrt_price_x96_to_base_unit_price", p2, f"sqrtToPrice {sx} {d0} {d1} {fmt(q0)}", False, rp)
        if pr[0] != "ok":
            ctx.violate("helpers.tick2price.raises", f"tick_to_base_unit_price({t},{d0},{d1},{q0}) raised {pr[1]}", rp)
            continue
        price = pr[1]
        if rng.random() < 0.3 and p2[0] == "ok":
            price = p2[1]
        # price -> sqrt price x96 -> tick (oracle-free route) and price -> tick (float log)
        bx = _exc_name(hp.base_unit_price_to_sqrt_price_x96, price, d0, d1, q0)
        add("base_unit_price_to_sqrt_price_x96", bx, f"priceToSqrtX96 {fmt(price)} {d0} {d1} {fmt(q0)}", True, rp)
        bt = _exc_name(hp.base_unit_price_to_tick, price, d0, d1, q0)
        add("base_unit_price_to_tick", bt, f"priceToTick {fmt(price)} {d0} {d1} {fmt(q0)}", True, rp)
        ctx.case(f"helpers:{'ge' if d0 >= d1 else 'lt'}:{'q0' if q0 else 'q1'}:{'neg' if t < 0 else 'pos' if t > 0 else 'zero'}:"
                 f"{'on' if price is pr[1] and sx == g(t) else 'in'}", None)
        if bx[0] == "ok" and bx[1] > 0:
            x = bx[1]
            est = math.floor(math.log(hp._from_x96(x), hp.SQRT_1p0001))
            tx = _exc_name(hp.sqrt_price_x96_to_tick, x)
            add("sqrt_price_x96_to_tick∘base_unit_price_to_sqrt_price_x96", tx, f"priceToTickX96 {est} {fmt(price)} {d0} {d1} {fmt(q0)}", True, rp)
            if price is pr[1]:
                # property (e), oracle: the round trip through the integer-corrected conversion is within one tick (theorem: in {t-1, t})
                if tx[0] != "ok" or not (t - 1 <= tx[1] <= t):
                    ctx.violate("helpers.inverse.x96", f"sqrt_price_x96_to_tick(base_unit_price_to_sqrt_price_x96(tick_to_base_unit_price({t}))) = {tx[1]} "
                                f"(decimals {d0},{d1}, token0_quote={q0})", rp)
        if price is not pr[1] and t < MAX_TICK:
            # the converse direction (price -> tick -> price) for a price that is NOT on a tick: the pool's sqrt price lies in
            # [sqrtAt t, sqrtAt (t+1)), so both routes must answer within one tick of t, and the price of the answered tick is within
            # one tick (a factor 1.0001) of the price asked
            ctx.count("converse_inverse_checked")
            for route, r in (("log", bt), ("x96", tx if bx[0] == "ok" and bx[1] > 0 else ("skip", None))):
                if r[0] == "skip":
                    continue
                if r[0] != "ok" or abs(r[1] - t) > 1:
                    ctx.violate(f"helpers.inverse.converse.{route}", f"price {price} (sqrt price {sx} in [sqrtAt {t}, sqrtAt {t + 1})) -> tick {r[1]} by the {route} route "
                                f"(decimals {d0},{d1}, token0_quote={q0})", dict(rp, sx=str(sx)))
                    continue
                back = _exc_name(hp.tick_to_base_unit_price, max(MIN_TICK, min(MAX_TICK, r[1])), d0, d1, q0)
                if route == "log" and back[0] == "ok" and price > 0 and MIN_TICK <= r[1] < MAX_TICK:
                    # theorem C06_inverse_converse_log: the float-log route's tick brackets the price to 2e-8 relative (LgSound + 2^-30 closeness)
                    nxt = _exc_name(hp.tick_to_base_unit_price, r[1] + 1, d0, d1, q0)
                    ctx.count("converse_log_bracket_checked")
                    if nxt[0] == "ok":
                        dl, P, lo_p, hi_p = Fraction(2, 10 ** 8), Fraction(price), Fraction(back[1]), Fraction(nxt[1])
                        okb = ((lo_p <= P * (1 + dl) and P * (1 - dl) <= hi_p) if not q0 else (P * (1 - dl) <= lo_p and hi_p <= P * (1 + dl)))
                        if not okb:
                            ctx.violate("helpers.inverse.converse.log.bracket", f"price {price} -> tick {r[1]} (float log) but the prices of ticks {r[1]}, {r[1] + 1} "
                                        f"({back[1]}, {nxt[1]}) do not bracket it to 2e-8 (decimals {d0},{d1}, token0_quote={q0})", dict(rp, sx=str(sx)))
                if route == "x96" and back[0] == "ok" and price > 0 and g(MIN_TICK) <= bx[1] < g(MAX_TICK) and MIN_TICK <= r[1] < MAX_TICK:
                    # theorem C06_inverse_converse(_round35): the answered tick brackets the price up to eleven 35-digit roundings
                    nxt = _exc_name(hp.tick_to_base_unit_price, r[1] + 1, d0, d1, q0)
                    ctx.count("converse_bracket_checked")
                    if nxt[0] == "ok":
                        dl, P, lo_p, hi_p = Fraction(1, 10 ** 33), Fraction(price), Fraction(back[1]), Fraction(nxt[1])
                        okb = ((lo_p <= P * (1 + dl) and P * (1 - dl) <= hi_p) if not q0
                               else (P * (1 - dl) <= lo_p * (1 + dl) and hi_p * (1 - dl) <= P * (1 + dl)))
                        if not okb:
                            ctx.violate("helpers.inverse.converse.x96.bracket", f"price {price} -> tick {r[1]} but the prices of ticks {r[1]}, {r[1] + 1} "
                                        f"({back[1]}, {nxt[1]}) do not bracket it (decimals {d0},{d1}, token0_quote={q0})", dict(rp, sx=str(sx)))
                if back[0] == "ok" and price > 0:
                    ratio = Fraction(back[1]) / Fraction(price)
                    lim = Fraction(10001, 10000) * (1 + Fraction(1, 10 ** 9))
                    if not (1 / lim <= ratio <= lim):
                        ctx.violate(f"helpers.inverse.converse.{route}.price", f"tick_to_base_unit_price(price_to_tick({price})) = {back[1]}: more than one tick away "
                                    f"(ratio {float(ratio):.9f}; decimals {d0},{d1}, token0_quote={q0})", dict(rp, sx=str(sx)))
        if price is pr[1]:
            if bt[0] != "ok" or abs(bt[1] - t) > 1:
                ctx.violate("helpers.inverse", f"base_unit_price_to_tick(tick_to_base_unit_price({t})) = {bt[1]} (decimals {d0},{d1}, token0_quote={q0})", rp)
        # the un-rounded tick of a price (estimate helpers take the token ratio there): its floor is the log route's tick, up to the libm allowance
        real = getattr(hp, "base_unit_price_to_real_tick", None)
        if real is not None:
            rt = _exc_name(real, price, d0, d1, q0)
            ctx.count("real_tick_calls_checked")
            if rt[0] != bt[0] or (rt[0] == "err" and rt[1] != bt[1]):
                ctx.violate("helpers.real_tick.outcome", f"base_unit_price_to_real_tick({price},{d0},{d1},{q0}) -> {rt}, base_unit_price_to_tick -> {bt}", rp)
            elif rt[0] == "ok":
                with localcontext() as c:
                    c.prec = 60
                    L = Decimal.sqrt((1 / price if q0 else price) / Decimal(10 ** (d0 - d1))).ln() / (Decimal("1.0001").ln() / 2)
                    if abs(Decimal(rt[1]) - L) > LG_DELTA_TICKS:
                        ctx.violate("helpers.real_tick.value", f"base_unit_price_to_real_tick({price},{d0},{d1},{q0}) = {rt[1]!r}, the tick of that price is {L:.12f}", rp)
        # the hypothesis on libm under which the log route is proved, on this very call
        if bt[0] == "ok":
            sp = _exc_name(lambda: Decimal.sqrt((1 / price if q0 else price) / Decimal(10 ** (d0 - d1))))
            ctx.count("lg_oracle_calls_checked")
            if sp[0] == "ok" and not lg_oracle_ok(sp[1], bt[1]):
                ctx.violate("helpers.lg_oracle", f"math.floor(math.log({sp[1]}, SQRT_1p0001)) = {bt[1]} is not the floor logarithm up to 1e-9 relative",
                            {"fn": "lg_oracle", "sp": fmt(sp[1])})
    # malformed / boundary stream: exceptions must agree by class
    for price in (Decimal(0), Decimal(-1), Decimal("-0.5"), Decimal("1e-60"), Decimal("1e60"), Decimal(1), Decimal("1.0001")):
        for d0, d1, q0 in ((6, 18, True), (6, 18, False), (18, 6, True), (18, 18, False)):
            rp = {"fn": "helpers_price", "price": fmt(price), "d0": d0, "d1": d1, "q0": q0}
            bx = _exc_name(hp.base_unit_price_to_sqrt_price_x96, price, d0, d1, q0)
            add("base_unit_price_to_sqrt_price_x96", bx, f"priceToSqrtX96 {fmt(price)} {d0} {d1} {fmt(q0)}", True, rp)
            bt = _exc_name(hp.base_unit_price_to_tick, price, d0, d1, q0)
            add("base_unit_price_to_tick", bt, f"priceToTick {fmt(price)} {d0} {d1} {fmt(q0)}", True, rp)
            ctx.case(f"helpers:malformed:{bx[0]}:{bx[1] if bx[0] == 'err' else ''}:{bt[0]}:{bt[1] if bt[0] == 'err' else ''}", rp)
    for t in (MIN_TICK - 1, MAX_TICK + 1):
        pr = _exc_name(hp.tick_to_base_unit_price, t, 6, 18, True)
        add("tick_to_base_unit_price", pr, f"tickToPrice {t} 6 18 1", False, {"fn": "helpers_roundtrip", "tick": t, "d0": 6, "d1": 18, "q0": True})
    for e in range(-30, 31):
        add("Decimal(10 ** e)", ("ok", Decimal(10 ** e)), f"fac {e}", False, {"fn": "fac", "e": e})
    ctx.impl_traces += len(reqs)
    ctx.note("helpers_requests", len(reqs))
    seen = {}
    for name, diff, args in CONTEXT_LEAKS:
        seen[name] = seen.get(name, 0) + 1
        if seen[name] <= 2:
            ctx.violate(f"helpers.process-state.decimal-context.{name}",
                        f"{name}({', '.join(args)}) changed the process-wide decimal context and did not restore it: " +
                        ", ".join(f"{k} {a!r} -> {b!r}" for k, (a, b) in sorted(diff.items())) + " (every conversion afterwards is rounded differently)",
                        {"fn": "context_leak", "helper": name, "args": args})
    ctx.note("helper_calls_leaving_the_decimal_context_changed", len(CONTEXT_LEAKS))
    CONTEXT_LEAKS.clear()
    if ctx.driver_ok and reqs:
        out = driver_batch([q[2] for q in reqs], exe="driver_tick")
        for (what, impl, line, as_int, rp), o in zip(reqs, out):
            if not _same(impl, o, as_int):
                ctx.disagree(f"{what} [{line}]: impl {impl[1]} model {o}", rp)


def replay(ctx: Ctx, case) -> bool:
    from demeter.uniswap import liquitidy_math as lm
    from demeter.uniswap import helper as hp
    fn = case["fn"]
    g = lm.get_sqrt_ratio_at_tick
    if fn == "get_sqrt_ratio_at_tick":
        t = case["tick"]
        v = g(t)
        ok = close_ok(t, v) and (t >= MAX_TICK or v < g(t + 1))
        if t in (0, MIN_TICK, MAX_TICK):
            ok = ok and v == {0: 2 ** 96, MIN_TICK: B_MIN, MAX_TICK: B_MAX}[t]
        print(f"get_sqrt_ratio_at_tick({t}) = {v}")
        return ok
    if fn == "sqrt_price_x96_to_tick":
        x = int(case["x"])
        r = hp.sqrt_price_x96_to_tick(x)
        print(f"sqrt_price_x96_to_tick({x}) = {r}; floor tick {case['floor_tick']}")
        return r == case["floor_tick"]
    if fn == "nearest_usable_tick":
        t, sp = case["tick"], case["spacing"]
        r = hp.nearest_usable_tick(t, sp)
        print(f"nearest_usable_tick({t},{sp}) = {r}")
        cands = [m for m in ((t // sp) * sp, (t // sp + 1) * sp, (t // sp - 1) * sp) if MIN_TICK <= m <= MAX_TICK]
        return r % sp == 0 and MIN_TICK <= r <= MAX_TICK and abs(r - t) == min(abs(m - t) for m in cands)
    if fn == "price_tick_roundtrip":
        t = case["tick"]
        q0 = case.get("q0", case.get("is_token0_quote"))
        back = hp.base_unit_price_to_tick(hp.tick_to_base_unit_price(t, case["d0"], case["d1"], q0), case["d0"], case["d1"], q0)
        print(f"roundtrip {t} -> {back}")
        return abs(back - t) <= 1
    if fn == "helpers_roundtrip":
        t, d0, d1, q0 = case["tick"], case["d0"], case["d1"], case["q0"]
        if not MIN_TICK <= t <= MAX_TICK:
            return _exc_name(hp.tick_to_base_unit_price, t, d0, d1, q0) == ("err", "AssertionError")
        price = hp.tick_to_base_unit_price(t, d0, d1, q0)
        back = hp.base_unit_price_to_tick(price, d0, d1, q0)
        bx = hp.sqrt_price_x96_to_tick(hp.base_unit_price_to_sqrt_price_x96(price, d0, d1, q0))
        print(f"roundtrip {t} -> log route {back}, x96 route {bx}")
        return abs(back - t) <= 1 and t - 1 <= bx <= t
    if fn == "lg_oracle":
        sp = Decimal(case["sp"])
        e = math.floor(math.log(sp, hp.SQRT_1p0001))
        print(f"floor(log({sp})) = {e}")
        return lg_oracle_ok(sp, e)
    if fn == "context_leak":
        f = getattr(hp, case["helper"], None)
        if f is None:
            return True
        a = case["args"]
        args = (Decimal(a[0]) if "." in a[0] or "E" in a[0].upper() or case["helper"].startswith("base_unit_price") else int(a[0]), int(a[1]), int(a[2]), a[3] == "True")
        CONTEXT_LEAKS.clear()
        _exc_name(f, *args)
        bad = list(CONTEXT_LEAKS)
        CONTEXT_LEAKS.clear()
        for name, diff, _ in bad:
            print(f"   {name} changed the decimal context: {diff}")
        return not bad
    if fn in ("helpers_price", "fac"):
        return True
    print("replay: unknown case kind", fn)
    return True
