"""C06 — tick <-> sqrt-price conversions (demeter/uniswap/liquitidy_math.py, helper.py)."""
from __future__ import annotations

import math
from decimal import Decimal, localcontext
from fractions import Fraction

from common import Ctx, driver_batch, fmt

PROPERTY = "C06"
LEAN_MODULES = ["Proofs.C06", "Proofs.C06.Full"]
RULE = ("ticks: stride sample + boundaries + random (thorough: all 1 774 545); sqrt prices on, just above, in the middle of and just "
        "below tick boundaries; buckets = (function, sign of tick, position inside the tick interval, decimals pair, orientation)")
TRUSTED = ["math.log is an oracle: the repaired conversion corrects any estimate by integer comparisons (theorem C06_floor holds for every estimate)",
           "closeness to sqrt(1.0001^t)*2^96 within the property's bound is MEASURED with 60-digit arithmetic (C06_close is partial: no theorem)",
           "price<->tick inverse within one tick (Decimal sqrt/rounding path) is measured, not proved"]
ASSUMPTIONS = ["Decimal arithmetic = exact result rounded half-even to 35 digits (validated against CPython)"]

MIN_TICK, MAX_TICK = -887272, 887272
B_MIN, B_MAX = 4295128739, 1461446703485210103287273052203988822378723970342


def ideal_sqrt_x96(t: int) -> Decimal:
    """sqrt(1.0001^t) * 2^96 with 70 significant digits"""
    with localcontext() as c:
        c.prec = 70
        return (Decimal("1.0001") ** t).sqrt() * (Decimal(2) ** 96)


def close_ok(t: int, v: int) -> bool:
    with localcontext() as c:
        c.prec = 70
        ideal = ideal_sqrt_x96(t)
        err = abs(Decimal(v) - ideal)
        if t <= 0:
            return err < 1
        bound = 1 + ideal * 8 * (Decimal("1.0001") ** t).sqrt() / (Decimal(2) ** 128)
        return err < bound


def run(ctx: Ctx):
    from demeter.uniswap import liquitidy_math as lm
    from demeter.uniswap import helper as hp

    rng = ctx.rng
    g = lm.get_sqrt_ratio_at_tick
    # ---------------------------------------------------------------- tick -> sqrt
    if ctx.thorough:
        ticks = list(range(MIN_TICK, MAX_TICK + 1))
    else:
        ticks = sorted(set(list(range(MIN_TICK, MAX_TICK + 1, 97)) + [MIN_TICK, MIN_TICK + 1, -1, 0, 1, MAX_TICK - 1, MAX_TICK]
                           + [s * (1 << k) + d for k in range(20) for s in (-1, 1) for d in (-1, 0, 1) if abs(s * (1 << k) + d) <= MAX_TICK]
                           + [rng.randint(MIN_TICK, MAX_TICK) for _ in range(ctx.scale(4000, 0))]))
    impl = {}
    for t in ticks:
        impl[t] = g(t)
    ctx.impl_traces += len(ticks)
    # boundaries and rejection outside the range
    for t, want in ((0, 2 ** 96), (MIN_TICK, B_MIN), (MAX_TICK, B_MAX)):
        if g(t) != want:
            ctx.violate("tick2sqrt.boundary", f"get_sqrt_ratio_at_tick({t}) = {g(t)}, protocol value {want}", {"fn": "get_sqrt_ratio_at_tick", "tick": t})
        ctx.case(f"boundary:{t}", {"fn": "get_sqrt_ratio_at_tick", "tick": t, "value": str(g(t))})
    for t in (MIN_TICK - 1, MAX_TICK + 1):
        try:
            g(t)
            ctx.violate("tick2sqrt.range", f"tick {t} outside the valid range accepted", {"fn": "get_sqrt_ratio_at_tick", "tick": t})
        except AssertionError:
            ctx.case("out-of-range-rejected")
    # strict monotonicity on neighbours
    for t in ticks:
        if t < MAX_TICK:
            nxt = impl.get(t + 1)
            if nxt is None:
                nxt = g(t + 1)
            if not impl[t] < nxt:
                ctx.violate("tick2sqrt.mono", f"not strictly increasing at tick {t}: {impl[t]} !< {nxt}", {"fn": "get_sqrt_ratio_at_tick", "tick": t})
    # closeness (measured): sample in quick, stride in thorough (70-digit pow per tick is ~40 µs)
    close_ticks = ticks if not ctx.thorough else ticks[::1]
    if ctx.thorough:
        # incremental product at 90 digits: r(t+1) = r(t) * sqrt(1.0001)
        with localcontext() as c:
            c.prec = 90
            rt = Decimal("1.0001").sqrt()
            q96 = Decimal(2) ** 96
            two128 = Decimal(2) ** 128
            r = Decimal(1)
            for t in range(0, MAX_TICK + 1):
                ideal = r * q96
                err = abs(Decimal(impl[t]) - ideal)
                bound = 1 + ideal * 8 * r / two128 if t > 0 else 1
                if not err < bound:
                    ctx.violate("tick2sqrt.close", f"tick {t}: |value - ideal| = {err:.6} exceeds bound {bound:.6}", {"fn": "get_sqrt_ratio_at_tick", "tick": t})
                r = r * rt
            r = Decimal(1)
            for t in range(0, MIN_TICK - 1, -1):
                ideal = r * q96
                err = abs(Decimal(impl[t]) - ideal)
                if not err < 1:
                    ctx.violate("tick2sqrt.close", f"tick {t}: |value - ideal| = {err:.6} exceeds 1", {"fn": "get_sqrt_ratio_at_tick", "tick": t})
                r = r / rt
        ctx.note("closeness_checked_ticks", len(ticks))
    else:
        n = 0
        for t in close_ticks[:: max(1, len(close_ticks) // 6000)]:
            n += 1
            if not close_ok(t, impl[t]):
                ctx.violate("tick2sqrt.close", f"tick {t}: value {impl[t]} not within the property's bound of sqrt(1.0001^t)*2^96", {"fn": "get_sqrt_ratio_at_tick", "tick": t})
        ctx.note("closeness_checked_ticks", n)
    # correspondence with the model
    if ctx.driver_ok:
        out = driver_batch([f"sqrtAt {t}" for t in ticks])
        for t, o in zip(ticks, out):
            if o != str(impl[t]):
                ctx.disagree(f"get_sqrt_ratio_at_tick({t}): impl {impl[t]} model {o}", {"fn": "get_sqrt_ratio_at_tick", "tick": t})
    for t in ticks:
        ctx.case(f"tick2sqrt:{'neg' if t < 0 else 'pos' if t > 0 else 'zero'}:bits{bin(abs(t)).count('1')}", None)
    ctx.samples.append({"fn": "get_sqrt_ratio_at_tick", "tick": ticks[len(ticks) // 3], "value": str(impl[ticks[len(ticks) // 3]])})

    # ---------------------------------------------------------------- sqrt -> tick (floor)
    stride = 7 if ctx.thorough else 389
    pts = []
    base = list(range(MIN_TICK, MAX_TICK, stride)) + [MIN_TICK, -3, -2, -1, 0, 1, 2, MAX_TICK - 1] + \
        [rng.randint(MIN_TICK, MAX_TICK - 1) for _ in range(ctx.scale(1500, 20000))]
    for t in base:
        lo, hi = g(t), g(t + 1)
        for pos, x in (("on", lo), ("lo+1", lo + 1), ("mid", (lo + hi) // 2), ("hi-1", hi - 1)):
            if lo <= x < hi:
                pts.append((t, pos, x))
    pts.append((MAX_TICK, "on", g(MAX_TICK)))
    reqs = []
    for t, pos, x in pts:
        try:
            r = hp.sqrt_price_x96_to_tick(x)
        except Exception as e:  # noqa
            ctx.violate("sqrt2tick.raises", f"sqrt_price_x96_to_tick({x}) raised {type(e).__name__}", {"fn": "sqrt_price_x96_to_tick", "x": str(x)})
            continue
        ctx.case(f"sqrt2tick:{'neg' if t < 0 else 'pos' if t > 0 else 'zero'}:{pos}", {"fn": "sqrt_price_x96_to_tick", "x": str(x), "floor_tick": t, "impl": r})
        if r != t:
            ctx.violate(f"sqrt2tick.floor.{'neg' if t < 0 else 'nonneg'}.{pos if pos == 'on' else 'between'}",
                        f"sqrt_price_x96_to_tick({x}) = {r}, greatest tick with sqrt price <= input is {t}",
                        {"fn": "sqrt_price_x96_to_tick", "x": str(x), "floor_tick": t})
        est = math.floor(math.log(hp._from_x96(x), hp.SQRT_1p0001))
        reqs.append((t, x, r, f"tickOfSqrt {est} {x}"))
    if ctx.driver_ok and reqs:
        out = driver_batch([q[3] for q in reqs])
        for (t, x, r, _), o in zip(reqs, out):
            if o != str(r):
                ctx.disagree(f"sqrt_price_x96_to_tick({x}): impl {r} model {o}", {"fn": "sqrt_price_x96_to_tick", "x": str(x), "floor_tick": t})
    ctx.impl_traces += len(pts)

    # ---------------------------------------------------------------- price <-> tick helpers, both orientations
    n_inv = ctx.scale(1200, 40000)
    for _ in range(n_inv):
        d0, d1 = rng.choice((6, 8, 18)), rng.choice((6, 8, 18))
        q0 = rng.random() < 0.5
        # keep prices inside Decimal's comfortable range: all ticks are fine for 35 digits
        t = rng.randint(MIN_TICK + 2, MAX_TICK - 2) if rng.random() < 0.7 else rng.choice((-5, -4, -1, 0, 1, 4, 5, MIN_TICK + 2, MAX_TICK - 2))
        price = hp.tick_to_base_unit_price(t, d0, d1, q0)
        back = hp.base_unit_price_to_tick(price, d0, d1, q0)
        ctx.case(f"inverse:{d0},{d1}:{'q0' if q0 else 'q1'}:{'neg' if t < 0 else 'pos'}",
                 {"fn": "price_tick_roundtrip", "tick": t, "d0": d0, "d1": d1, "is_token0_quote": q0, "price": fmt(price), "back": back})
        if abs(back - t) > 1:
            ctx.violate("helpers.inverse", f"base_unit_price_to_tick(tick_to_base_unit_price({t})) = {back} (decimals {d0},{d1}, token0_quote={q0})",
                        {"fn": "price_tick_roundtrip", "tick": t, "d0": d0, "d1": d1, "q0": q0})
        # sqrt-price helpers
        sx = g(t)
        p2 = hp.sqrt_price_x96_to_base_unit_price(sx, d0, d1, q0)
        sx2 = hp.base_unit_price_to_sqrt_price_x96(p2, d0, d1, q0)
        # inverse to within one tick: sx2 lies within the neighbouring ticks' sqrt prices
        if not (g(t - 1) <= sx2 <= g(t + 1)):
            ctx.violate("helpers.inverse.sqrt", f"base_unit_price_to_sqrt_price_x96(sqrt_price_x96_to_base_unit_price(sqrtAt {t})) = {sx2}, more than one tick away",
                        {"fn": "price_sqrt_roundtrip", "tick": t, "d0": d0, "d1": d1, "q0": q0})
        # the two orientations describe the same pool price: p(q0) * p(not q0) = 1 (to Decimal rounding)
        p3 = hp.tick_to_base_unit_price(t, d0, d1, not q0)
        if abs(Fraction(price) * Fraction(p3) - 1) > Fraction(1, 10 ** 30):
            ctx.violate("helpers.orientation", f"tick_to_base_unit_price({t}) orientations are not reciprocal", {"fn": "orientation", "tick": t, "d0": d0, "d1": d1})

    # ---------------------------------------------------------------- nearest usable tick
    reqs = []
    for _ in range(ctx.scale(4000, 200000)):
        sp = rng.choice((1, 10, 60, 200, rng.randint(1, 500)))
        t = rng.choice((rng.randint(MIN_TICK, MAX_TICK), rng.randint(-3 * sp, 3 * sp), MIN_TICK + rng.randint(0, sp), MAX_TICK - rng.randint(0, sp)))
        t = max(MIN_TICK, min(MAX_TICK, t))
        r = hp.nearest_usable_tick(t, sp)
        tie = (2 * (t % sp) == sp)
        ctx.case(f"usable:{'tie' if tie else 'plain'}:{'end' if abs(t) > MAX_TICK - sp else 'mid'}:{'neg' if t < 0 else 'pos'}",
                 {"fn": "nearest_usable_tick", "tick": t, "spacing": sp, "impl": r})
        ok = (r % sp == 0) and MIN_TICK <= r <= MAX_TICK
        if ok:
            # nearest multiple inside the valid range
            cands = [m for m in ((t // sp) * sp, (t // sp + 1) * sp, (t // sp - 1) * sp) if MIN_TICK <= m <= MAX_TICK]
            best = min(abs(m - t) for m in cands)
            ok = abs(r - t) == best
        if not ok:
            ctx.violate("usable.nearest", f"nearest_usable_tick({t}, {sp}) = {r} is not the nearest in-range multiple", {"fn": "nearest_usable_tick", "tick": t, "spacing": sp})
        reqs.append((t, sp, r))
    if ctx.driver_ok:
        out = driver_batch([f"nearestUsable {t} {sp}" for t, sp, _ in reqs])
        for (t, sp, r), o in zip(reqs, out):
            if o != str(r):
                ctx.disagree(f"nearest_usable_tick({t},{sp}): impl {r} model {o}", {"fn": "nearest_usable_tick", "tick": t, "spacing": sp})


def replay(ctx: Ctx, case) -> bool:
    from demeter.uniswap import liquitidy_math as lm
    from demeter.uniswap import helper as hp
    fn = case["fn"]
    g = lm.get_sqrt_ratio_at_tick
    if fn == "get_sqrt_ratio_at_tick":
        t = case["tick"]
        v = g(t)
        ok = close_ok(t, v) and (t >= MAX_TICK or v < g(t + 1))
        if t in (0, MIN_TICK, MAX_TICK):
            ok = ok and v == {0: 2 ** 96, MIN_TICK: B_MIN, MAX_TICK: B_MAX}[t]
        print(f"get_sqrt_ratio_at_tick({t}) = {v}")
        return ok
    if fn == "sqrt_price_x96_to_tick":
        x = int(case["x"])
        r = hp.sqrt_price_x96_to_tick(x)
        print(f"sqrt_price_x96_to_tick({x}) = {r}; floor tick {case['floor_tick']}")
        return r == case["floor_tick"]
    if fn == "nearest_usable_tick":
        t, sp = case["tick"], case["spacing"]
        r = hp.nearest_usable_tick(t, sp)
        print(f"nearest_usable_tick({t},{sp}) = {r}")
        cands = [m for m in ((t // sp) * sp, (t // sp + 1) * sp, (t // sp - 1) * sp) if MIN_TICK <= m <= MAX_TICK]
        return r % sp == 0 and MIN_TICK <= r <= MAX_TICK and abs(r - t) == min(abs(m - t) for m in cands)
    if fn == "price_tick_roundtrip":
        t = case["tick"]
        q0 = case.get("q0", case.get("is_token0_quote"))
        back = hp.base_unit_price_to_tick(hp.tick_to_base_unit_price(t, case["d0"], case["d1"], q0), case["d0"], case["d1"], q0)
        print(f"roundtrip {t} -> {back}")
        return abs(back - t) <= 1
    print("replay: unknown case kind", fn)
    return True
