"""C04, Squeeth part — a rejected vault operation leaves wallet, vaults, pool positions and the action log intact
(demeter/squeeth/market.py: open_deposit_mint, deposit, deposit/withdraw_uni_position, burn_and_withdraw, liquidate, update, buy_squeeth, sell_squeeth)."""
from __future__ import annotations

from decimal import Decimal as D

from common import Ctx
import squeeth_lib as L
import squeeth_gen as G

PROPERTY = "C04"
LEAN_MODULES = ["Proofs.C04.Squeeth"]
DRIVERS = ["driver_squeeth"]
RULE = ("rejection-directed: for every vault operation × every cause the model knows (unsafe vault, dust vault, unknown vault, vault already has "
        "an LP, LP already lent / unknown / empty, wrong LP, insufficient WETH / oSQTH, token missing from the wallet, safe vault, closed pool, "
        "dust vault left; buy_squeeth / sell_squeeth: more than the wallet holds by far / by 1e-6 / by one wei, negative, no amount, token missing from the wallet, "
        "zero row price under an ETH amount, closed pool — in the oSQTH form, the ETH form and both) a state in which exactly that precondition fails is built from random prefixes of accepted operations and from the "
        "exact boundary stream; plus every amount slot of open_deposit_mint(_by_collat_rate) / deposit / burn_and_withdraw fed with NaN, sNaN, +-Infinity, 1E+-400, -0 "
        "and float nan/inf (a raising call must leave the state intact, no number of the state may become non-finite); "
        "bucket = (operation, model rejection cause, argument class, path kind)")
TRUSTED = ["the TWAP geometric mean is an oracle value captured from the real calc_twap_price"]
ASSUMPTIONS = ["the model knows the pool orientation token0 = WETH = quote (pools with token0 = oSQTH, 1 world in 6, are judged by the snapshot oracle only); Broker.allow_negative_balance = False",
               "`has_update` is excluded by the property; the deep snapshot covers Broker assets, SqueethMarket.vault/_max_vault_id, "
               "UniLpMarket positions and the recorded actions"]


def oracle(ctx, o):
    if o.err is None:
        return
    d = L.state_diff(o.before, o.after)
    k = o.op["k"]
    cause = o.msg[:40] if o.err == "DemeterError" else o.err
    if d:
        ctx.violate(f"squeeth.{k}:{cause}", f"{k} {o.op} raised {o.err}({o.msg[:60]}) but changed the state: {d[:400]}", o.replay())
    elif o.actions:
        ctx.violate(f"squeeth.{k}:{cause}:actions", f"{k} {o.op} raised {o.err}({o.msg[:60]}) but recorded {[a['k'] for a in o.actions]}", o.replay())


def rejection_directed(ctx, runner):
    """from a random reachable state, aim one operation at each precondition"""
    rng = ctx.rng
    env = G.gen_env(rng)
    world = L.World(G.empty_state(rng, with_osqth=rng.random() > 0.1), env)
    for _ in range(rng.choice([1, 2, 2])):
        G.add_position(rng, world, fees=rng.random() < 0.3)
    # prefix of accepted operations
    for _ in range(rng.randint(0, 6)):
        st = world.dump_state()
        op, _ = G.gen_op(rng, world, st)
        if op["k"] in ("update", "liquidate", "reduceDebt", "uniRemove"):
            continue
        keep = copy_world(world)
        err, _, _ = world.apply_op(op)
        if err is not None:       # a rejected prefix step must not leak its partial effects into the next case
            world = L.World(keep[0], keep[1])
    if rng.random() < 0.5:
        env2 = G.shift_env(rng, world.env)
        world.set_env(env2)
    st = world.dump_state()
    vaults = [int(k) for k, _ in st["vaults"]]
    vmap = {int(k): v for k, v in st["vaults"]}
    poss = [[int(a), int(b)] for (a, b), _ in st["positions"]]
    pmap = {(int(a), int(b)): p for (a, b), p in st["positions"]}
    free = [k for k in poss if not pmap[tuple(k)]["transferred"]]
    lent = [k for k in poss if pmap[tuple(k)]["transferred"]]
    idx = G.index_price(world)
    bal_w = D(dict((n, b) for n, b in st["wallet"]).get("WETH", 0))
    cands = []
    big = D(10) ** 6
    cands.append(({"k": "openMint", "deposit": D(1), "mint": D(1) / idx * 5 if idx > 0 else D(1), "vk": None, "pos": None}, "aim:unsafe-new"))
    cands.append(({"k": "openMint", "deposit": D("0.2"), "mint": D("0.01") / idx if idx > 0 else D(1), "vk": None, "pos": None}, "aim:dust-new"))
    cands.append(({"k": "openMint", "deposit": D(bal_w) * 2 + 1, "mint": D(1), "vk": None, "pos": None}, "aim:insufficient-weth-new"))
    cands.append(({"k": "openMint", "deposit": D(1), "mint": D(0), "vk": max(vaults + [0]) + 3, "pos": None}, "aim:unknown-vault"))
    cands.append(({"k": "openMint", "deposit": D(0), "mint": D(2), "vk": max(vaults + [0]) + 3, "pos": None}, "aim:unknown-vault-mint"))
    cands.append(({"k": "openMint", "deposit": D(1), "mint": D(1), "vk": None, "pos": [180, 240]}, "aim:unknown-lp-new"))
    if lent:
        cands.append(({"k": "openMint", "deposit": D(2), "mint": D(1), "vk": None, "pos": rng.choice(lent)}, "aim:lent-lp-new"))
    if free:
        cands.append(({"k": "openMint", "deposit": D(0), "mint": big, "vk": None, "pos": rng.choice(free)}, "aim:unsafe-with-lp-new"))
    for vk in vaults[:3]:
        v = vmap[vk]
        cands.append(({"k": "openMint", "deposit": D(0), "mint": (v["coll"] + 1) / idx * 3 if idx > 0 else big, "vk": vk, "pos": None}, "aim:unsafe-existing"))
        cands.append(({"k": "deposit", "vk": vk, "eth": D(bal_w) * 2 + 1}, "aim:insufficient-weth"))
        cands.append(({"k": "burnWithdraw", "vk": vk, "burn": D(0), "withdraw": v["coll"]}, "aim:withdraw-all"))
        cands.append(({"k": "burnWithdraw", "vk": vk, "burn": v["short"] / 2, "withdraw": v["coll"]}, "aim:burn-half-withdraw-all"))
        cands.append(({"k": "burnWithdraw", "vk": vk, "burn": big, "withdraw": D(0)}, "aim:burn-more-than-wallet"))
        cands.append(({"k": "liquidate", "vk": vk}, "aim:liquidate"))
        if v["nft"]:
            cands.append(({"k": "withdrawUni", "vk": vk, "pos": list(v["nft"])}, "aim:withdraw-lp"))
            cands.append(({"k": "depositUni", "vk": vk, "pos": rng.choice(free) if free else [180, 240]}, "aim:second-lp"))
            cands.append(({"k": "withdrawUni", "vk": vk, "pos": [180, 240]}, "aim:wrong-lp"))
        else:
            if lent:
                cands.append(({"k": "depositUni", "vk": vk, "pos": rng.choice(lent)}, "aim:lent-lp"))
            cands.append(({"k": "depositUni", "vk": vk, "pos": [180, 240]}, "aim:unknown-lp"))
            cands.append(({"k": "withdrawUni", "vk": vk, "pos": rng.choice(poss) if poss else [180, 240]}, "aim:no-lp"))
    cands.append(({"k": "deposit", "vk": max(vaults + [0]) + 2, "eth": D(1)}, "aim:unknown-vault"))
    cands.append(({"k": "burnWithdraw", "vk": max(vaults + [0]) + 2, "burn": D(1), "withdraw": D(1)}, "aim:unknown-vault"))
    cands.append(({"k": "liquidate", "vk": max(vaults + [0]) + 2}, "aim:unknown-vault"))
    cands.append(({"k": "withdrawUni", "vk": max(vaults + [0]) + 2, "pos": [180, 240]}, "aim:unknown-vault"))
    cands.append(({"k": "depositUni", "vk": max(vaults + [0]) + 2, "pos": rng.choice(free) if free else [180, 240]}, "aim:unknown-vault"))
    cands.append(({"k": "update"}, "aim:update"))
    # the long side: every way buy_squeeth / sell_squeeth can be refused, in both parameter forms
    bal_o = D(dict((n, b) for n, b in st["wallet"]).get("OSQTH", 0))
    row_o = world.cur()[2]
    for k in ("buy", "sell"):
        for cls in ("over", "dust-over", "negative"):
            for form in ("osqth", "eth", "both"):
                op, argc = G.gen_trade(rng, world, k, cls, form)
                cands.append((op, "aim:" + argc))
        cands.append(({"k": k, "osqth": None, "eth": None, "call": rng.choice(["kw", "pos", "kw-given"])}, "aim:no-amount"))
    cands.append(({"k": "sell", "osqth": bal_o + D("0.000000000000000001"), "eth": None, "call": "pos"}, "aim:one-wei-more"))
    cands.append(({"k": "sell", "osqth": None, "eth": (bal_o + 1) * row_o, "call": "kw"}, "aim:eth-form-more-than-held"))
    spec, envs = st, world.env
    for op, argc in cands:
        w = L.World(spec, envs)
        o = L.observe(w, op, argc)
        if o.err is not None:
            oracle(ctx, o)
            runner.add(o, "rej:")
        else:
            ctx.count("aimed_but_accepted")


def copy_world(world):
    return world.dump_state(), world.env


def boundary(ctx, runner):
    import c14
    for name, spec, env, op in c14.boundary_cases():
        w = L.World(spec, env)
        o = L.observe(w, op, "boundary:" + name)
        if o.err is not None:
            oracle(ctx, o)
            runner.add(o, "rej:")
    # wallet without the token
    E = G.exact_env
    v = lambda c, s, nft=None: {"coll": D(c), "short": D(s), "nft": nft}  # noqa: E731
    pos = {"liquidity": 10 ** 19, "p0": D(0), "p1": D(0), "transferred": True}
    cases = [
        ("no-osqth-burn", {"wallet": [["WETH", D(5)]], "vaults": [[1, v(3, 10)]], "maxId": 1, "positions": []}, E(), {"k": "burnWithdraw", "vk": 1, "burn": D(1), "withdraw": D(0)}),
        ("no-weth-deposit", {"wallet": [["OSQTH", D(5)]], "vaults": [[1, v(3, 10)]], "maxId": 1, "positions": []}, E(), {"k": "deposit", "vk": 1, "eth": D(1)}),
        ("no-osqth-liquidate-lp", {"wallet": [["WETH", D(5)]], "vaults": [[1, v("0.1", 12, [21000, 25020])]], "maxId": 1, "positions": [[[21000, 25020], pos]]}, E(), {"k": "liquidate", "vk": 1}),
        ("closed-pool-liquidate-lp", {"wallet": [["WETH", D(5)], ["OSQTH", D(1)]], "vaults": [[1, v("0.1", 12, [21000, 25020])]], "maxId": 1, "positions": [[[21000, 25020], pos]]}, E(uni_open=False), {"k": "liquidate", "vk": 1}),
        ("dust-left-liquidate", {"wallet": [["WETH", D(5)], ["OSQTH", D(1)]], "vaults": [[1, v("0.55", 10)]], "maxId": 1, "positions": []}, E(), {"k": "liquidate", "vk": 1}),
        ("burn-insufficient-osqth", {"wallet": [["WETH", D(5)], ["OSQTH", D(1)]], "vaults": [[1, v(3, 10)]], "maxId": 1, "positions": []}, E(), {"k": "burnWithdraw", "vk": 1, "burn": D(5), "withdraw": D(0)}),
        ("burn-then-unsafe-withdraw", {"wallet": [["WETH", D(5)], ["OSQTH", D(20)]], "vaults": [[1, v(3, 10)]], "maxId": 1, "positions": []}, E(), {"k": "burnWithdraw", "vk": 1, "burn": D(2), "withdraw": D(2)}),
        ("withdraw-to-dust", {"wallet": [["WETH", D(5)], ["OSQTH", D(1)]], "vaults": [[1, v("0.6", 1)]], "maxId": 1, "positions": []}, E(), {"k": "burnWithdraw", "vk": 1, "burn": D(0), "withdraw": D("0.2")}),
        ("deposit-negative", {"wallet": [["WETH", D(5)], ["OSQTH", D(1)]], "vaults": [[1, v(3, 10)]], "maxId": 1, "positions": []}, E(), {"k": "deposit", "vk": 1, "eth": D(-1)}),
        ("withdraw-lp-to-dust", {"wallet": [["WETH", D(5)], ["OSQTH", D(1)]], "vaults": [[1, v("0.3", 1, [21000, 25020])]], "maxId": 1, "positions": [[[21000, 25020], pos]]}, E(), {"k": "withdrawUni", "vk": 1, "pos": [21000, 25020]}),
        ("mint-on-existing-unsafe", {"wallet": [["WETH", D(5)], ["OSQTH", D(1)]], "vaults": [[1, v(3, 10)]], "maxId": 1, "positions": []}, E(), {"k": "openMint", "deposit": D(1), "mint": D(40), "vk": 1, "pos": None}),
        ("empty-lp", {"wallet": [["WETH", D(5)], ["OSQTH", D(1)]], "vaults": [[1, v(3, 10)]], "maxId": 1, "positions": [[[21000, 25020], dict(pos, liquidity=0, transferred=False, p0=D(1))]]}, E(), {"k": "depositUni", "vk": 1, "pos": [21000, 25020]}),
    ]
    W2 = [["WETH", D(100)], ["OSQTH", D(5)]]
    one_vault = {"wallet": W2, "vaults": [[1, v(3, 10)]], "maxId": 1, "positions": []}
    T = lambda k, osqth=None, eth=None, call="kw": {"k": k, "osqth": None if osqth is None else D(osqth), "eth": None if eth is None else D(eth), "call": call}  # noqa: E731
    cases += [
        # 997 oSQTH at 0.1 with 0.3 % fee cost exactly the 100 WETH held: accepted (not a rejection, counted); one more is refused
        ("buy-exactly-affordable", one_vault, E(), T("buy", "997")),
        ("buy-one-more", one_vault, E(), T("buy", "998")),
        ("buy-eth-form-one-more", one_vault, E(), T("buy", None, "99.8")),
        ("buy-negative", one_vault, E(), T("buy", "-1", None, "pos")),
        ("buy-negative-eth", one_vault, E(), T("buy", None, "-1")),
        ("buy-none", one_vault, E(), T("buy")),
        ("buy-none-positional", one_vault, E(), T("buy", None, None, "pos")),
        ("sell-more-than-held", one_vault, E(), T("sell", "5.0001")),
        ("sell-eth-form-more-than-held", one_vault, E(), T("sell", None, "0.50001")),
        ("sell-negative", one_vault, E(), T("sell", "-0.5")),
        ("sell-none", one_vault, E(), T("sell")),
        ("buy-closed-pool-more-than-held", one_vault, E(uni_open=False), T("buy", "5000")),
        ("sell-closed-pool-more-than-held", one_vault, E(uni_open=False), T("sell", "50")),
        ("buy-no-weth-in-wallet", {"wallet": [["OSQTH", D(5)]], "vaults": [], "maxId": 0, "positions": []}, E(), T("buy", "1")),
        ("sell-no-osqth-in-wallet", {"wallet": [["WETH", D(5)]], "vaults": [], "maxId": 0, "positions": []}, E(), T("sell", "1")),
        ("buy-eth-form-zero-row-price", one_vault, E(osqth="0", uni_price="0.1"), T("buy", None, "1")),
        ("sell-eth-form-zero-row-price-zero-eth", one_vault, E(osqth="0", uni_price="0.1"), T("sell", None, "0")),
        ("buy-flip-more-than-held", one_vault, E(flip=True), T("buy", "5000")),
        ("sell-flip-more-than-held", one_vault, E(flip=True), T("sell", "50")),
    ]
    for name, spec, env, op in cases:
        w = L.World(spec, env)
        o = L.observe(w, op, "boundary:" + name)
        if o.err is not None:
            oracle(ctx, o)
            runner.add(o, "rej:")
        else:
            ctx.count("aimed_but_accepted")


def run(ctx: Ctx):
    runner = L.Runner(ctx)
    for _ in range(ctx.scale(60, 2500)):
        rejection_directed(ctx, runner)
    boundary(ctx, runner)
    runner.finish()
    L.special_stream(ctx, ctx.scale(150, 3000), "squeeth.", reject_intact=True)


def replay(ctx: Ctx, case) -> bool:
    if case.get("special"):
        return L.special_replay(case, "squeeth.", reject_intact=True)
    world = L.World(G.parse_spec(case["spec"]), G.parse_env(case["env"]))
    o = L.observe(world, G.parse_op(case["op"]), "replay")
    sub = Ctx(ctx.prop, ctx.tier, ctx.seed, False)
    oracle(sub, o)
    for v in sub.violations:
        print("  ", v["key"], "—", v["what"][:300])
    return not sub.violations
