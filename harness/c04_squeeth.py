"""C04, Squeeth part — a rejected vault operation leaves wallet, vaults, pool positions and the action log intact
(demeter/squeeth/market.py: open_deposit_mint, deposit, deposit/withdraw_uni_position, burn_and_withdraw, liquidate, update)."""
from __future__ import annotations

from decimal import Decimal as D

from common import Ctx
import squeeth_lib as L
import squeeth_gen as G

PROPERTY = "C04"
LEAN_MODULES = ["Proofs.C04.Squeeth"]
DRIVERS = ["driver_squeeth"]
RULE = ("rejection-directed: for every vault operation × every cause the model knows (unsafe vault, dust vault, unknown vault, vault already has "
        "an LP, LP already lent / unknown / empty, wrong LP, insufficient WETH / oSQTH, token missing from the wallet, safe vault, closed pool, "
        "dust vault left) a state in which exactly that precondition fails is built from random prefixes of accepted operations and from the "
        "exact boundary stream; plus every amount slot of open_deposit_mint(_by_collat_rate) / deposit / burn_and_withdraw fed with NaN, sNaN, +-Infinity, 1E+-400, -0 "
        "and float nan/inf (a raising call must leave the state intact, no number of the state may become non-finite); "
        "bucket = (operation, model rejection cause, argument class, path kind)")
TRUSTED = ["the TWAP geometric mean is an oracle value captured from the real calc_twap_price"]
ASSUMPTIONS = ["the model knows the pool orientation token0 = WETH = quote (pools with token0 = oSQTH, 1 world in 6, are judged by the snapshot oracle only); Broker.allow_negative_balance = False",
               "`has_update` is excluded by the property; the deep snapshot covers Broker assets, SqueethMarket.vault/_max_vault_id, "
               "UniLpMarket positions and the recorded actions"]


def oracle(ctx, o):
    if o.err is None:
        return
    d = L.state_diff(o.before, o.after)
    k = o.op["k"]
    cause = o.msg[:40] if o.err == "DemeterError" else o.err
    if d:
        ctx.violate(f"squeeth.{k}:{cause}", f"{k} {o.op} raised {o.err}({o.msg[:60]}) but changed the state: {d[:400]}", o.replay())
    elif o.actions:
        ctx.violate(f"squeeth.{k}:{cause}:actions", f"{k} {o.op} raised {o.err}({o.msg[:60]}) but recorded {[a['k'] for a in o.actions]}", o.replay())


def rejection_directed(ctx, runner):
    """from a random reachable state, aim one operation at each precondition"""
    rng = ctx.rng
    env = G.gen_env(rng)
    world = L.World(G.empty_state(rng, with_osqth=rng.random() > 0.1), env)
    for _ in range(rng.choice([1, 2, 2])):
        G.add_position(rng, world, fees=rng.random() < 0.3)
    # prefix of accepted operations
    for _ in range(rng.randint(0, 6)):
        st = world.dump_state()
        op, _ = G.gen_op(rng, world, st)
        if op["k"] in ("update", "liquidate", "reduceDebt", "uniRemove"):
            continue
        keep = copy_world(world)
        err, _, _ = world.apply_op(op)
        if err is not None:       # a rejected prefix step must not leak its partial effects into the next case
            world = L.World(keep[0], keep[1])
    if rng.random() < 0.5:
        env2 = G.shift_env(rng, world.env)
        world.set_env(env2)
    st = world.dump_state()
    vaults = [int(k) for k, _ in st["vaults"]]
    vmap = {int(k): v for k, v in st["vaults"]}
    poss = [[int(a), int(b)] for (a, b), _ in st["positions"]]
    pmap = {(int(a), int(b)): p for (a, b), p in st["positions"]}
    free = [k for k in poss if not pmap[tuple(k)]["transferred"]]
    lent = [k for k in poss if pmap[tuple(k)]["transferred"]]
    idx = G.index_price(world)
    bal_w = D(dict((n, b) for n, b in st["wallet"]).get("WETH", 0))
    cands = []
    big = D(10) ** 6
    cands.append(({"k": "openMint", "deposit": D(1), "mint": D(1) / idx * 5 if idx > 0 else D(1), "vk": None, "pos": None}, "aim:unsafe-new"))
    cands.append(({"k": "openMint", "deposit": D("0.2"), "mint": D("0.01") / idx if idx > 0 else D(1), "vk": None, "pos": None}, "aim:dust-new"))
    cands.append(({"k": "openMint", "deposit": D(bal_w) * 2 + 1, "mint": D(1), "vk": None, "pos": None}, "aim:insufficient-weth-new"))
    cands.append(({"k": "openMint", "deposit": D(1), "mint": D(0), "vk": max(vaults + [0]) + 3, "pos": None}, "aim:unknown-vault"))
    cands.append(({"k": "openMint", "deposit": D(0), "mint": D(2), "vk": max(vaults + [0]) + 3, "pos": None}, "aim:unknown-vault-mint"))
    cands.append(({"k": "openMint", "deposit": D(1), "mint": D(1), "vk": None, "pos": [180, 240]}, "aim:unknown-lp-new"))
    if lent:
        cands.append(({"k": "openMint", "deposit": D(2), "mint": D(1), "vk": None, "pos": rng.choice(lent)}, "aim:lent-lp-new"))
    if free:
        cands.append(({"k": "openMint", "deposit": D(0), "mint": big, "vk": None, "pos": rng.choice(free)}, "aim:unsafe-with-lp-new"))
    for vk in vaults[:3]:
        v = vmap[vk]
        cands.append(({"k": "openMint", "deposit": D(0), "mint": (v["coll"] + 1) / idx * 3 if idx > 0 else big, "vk": vk, "pos": None}, "aim:unsafe-existing"))
        cands.append(({"k": "deposit", "vk": vk, "eth": D(bal_w) * 2 + 1}, "aim:insufficient-weth"))
        cands.append(({"k": "burnWithdraw", "vk": vk, "burn": D(0), "withdraw": v["coll"]}, "aim:withdraw-all"))
        cands.append(({"k": "burnWithdraw", "vk": vk, "burn": v["short"] / 2, "withdraw": v["coll"]}, "aim:burn-half-withdraw-all"))
        cands.append(({"k": "burnWithdraw", "vk": vk, "burn": big, "withdraw": D(0)}, "aim:burn-more-than-wallet"))
        cands.append(({"k": "liquidate", "vk": vk}, "aim:liquidate"))
        if v["nft"]:
            cands.append(({"k": "withdrawUni", "vk": vk, "pos": list(v["nft"])}, "aim:withdraw-lp"))
            cands.append(({"k": "depositUni", "vk": vk, "pos": rng.choice(free) if free else [180, 240]}, "aim:second-lp"))
            cands.append(({"k": "withdrawUni", "vk": vk, "pos": [180, 240]}, "aim:wrong-lp"))
        else:
            if lent:
                cands.append(({"k": "depositUni", "vk": vk, "pos": rng.choice(lent)}, "aim:lent-lp"))
            cands.append(({"k": "depositUni", "vk": vk, "pos": [180, 240]}, "aim:unknown-lp"))
            cands.append(({"k": "withdrawUni", "vk": vk, "pos": rng.choice(poss) if poss else [180, 240]}, "aim:no-lp"))
    cands.append(({"k": "deposit", "vk": max(vaults + [0]) + 2, "eth": D(1)}, "aim:unknown-vault"))
    cands.append(({"k": "burnWithdraw", "vk": max(vaults + [0]) + 2, "burn": D(1), "withdraw": D(1)}, "aim:unknown-vault"))
    cands.append(({"k": "liquidate", "vk": max(vaults + [0]) + 2}, "aim:unknown-vault"))
    cands.append(({"k": "withdrawUni", "vk": max(vaults + [0]) + 2, "pos": [180, 240]}, "aim:unknown-vault"))
    cands.append(({"k": "depositUni", "vk": max(vaults + [0]) + 2, "pos": rng.choice(free) if free else [180, 240]}, "aim:unknown-vault"))
    cands.append(({"k": "update"}, "aim:update"))
    spec, envs = st, world.env
    for op, argc in cands:
        w = L.World(spec, envs)
        o = L.observe(w, op, argc)
        if o.err is not None:
            oracle(ctx, o)
            runner.add(o, "rej:")
        else:
            ctx.count("aimed_but_accepted")


def copy_world(world):
    return world.dump_state(), world.env


def boundary(ctx, runner):
    import c14
    for name, spec, env, op in c14.boundary_cases():
        w = L.World(spec, env)
        o = L.observe(w, op, "boundary:" + name)
        if o.err is not None:
            oracle(ctx, o)
            runner.add(o, "rej:")
    # wallet without the token
    E = G.exact_env
    v = lambda c, s, nft=None: {"coll": D(c), "short": D(s), "nft": nft}  # noqa: E731
    pos = {"liquidity": 10 ** 19, "p0": D(0), "p1": D(0), "transferred": True}
    cases = [
        ("no-osqth-burn", {"wallet": [["WETH", D(5)]], "vaults": [[1, v(3, 10)]], "maxId": 1, "positions": []}, E(), {"k": "burnWithdraw", "vk": 1, "burn": D(1), "withdraw": D(0)}),
        ("no-weth-deposit", {"wallet": [["OSQTH", D(5)]], "vaults": [[1, v(3, 10)]], "maxId": 1, "positions": []}, E(), {"k": "deposit", "vk": 1, "eth": D(1)}),
        ("no-osqth-liquidate-lp", {"wallet": [["WETH", D(5)]], "vaults": [[1, v("0.1", 12, [21000, 25020])]], "maxId": 1, "positions": [[[21000, 25020], pos]]}, E(), {"k": "liquidate", "vk": 1}),
        ("closed-pool-liquidate-lp", {"wallet": [["WETH", D(5)], ["OSQTH", D(1)]], "vaults": [[1, v("0.1", 12, [21000, 25020])]], "maxId": 1, "positions": [[[21000, 25020], pos]]}, E(uni_open=False), {"k": "liquidate", "vk": 1}),
        ("dust-left-liquidate", {"wallet": [["WETH", D(5)], ["OSQTH", D(1)]], "vaults": [[1, v("0.55", 10)]], "maxId": 1, "positions": []}, E(), {"k": "liquidate", "vk": 1}),
        ("burn-insufficient-osqth", {"wallet": [["WETH", D(5)], ["OSQTH", D(1)]], "vaults": [[1, v(3, 10)]], "maxId": 1, "positions": []}, E(), {"k": "burnWithdraw", "vk": 1, "burn": D(5), "withdraw": D(0)}),
        ("burn-then-unsafe-withdraw", {"wallet": [["WETH", D(5)], ["OSQTH", D(20)]], "vaults": [[1, v(3, 10)]], "maxId": 1, "positions": []}, E(), {"k": "burnWithdraw", "vk": 1, "burn": D(2), "withdraw": D(2)}),
        ("withdraw-to-dust", {"wallet": [["WETH", D(5)], ["OSQTH", D(1)]], "vaults": [[1, v("0.6", 1)]], "maxId": 1, "positions": []}, E(), {"k": "burnWithdraw", "vk": 1, "burn": D(0), "withdraw": D("0.2")}),
        ("deposit-negative", {"wallet": [["WETH", D(5)], ["OSQTH", D(1)]], "vaults": [[1, v(3, 10)]], "maxId": 1, "positions": []}, E(), {"k": "deposit", "vk": 1, "eth": D(-1)}),
        ("withdraw-lp-to-dust", {"wallet": [["WETH", D(5)], ["OSQTH", D(1)]], "vaults": [[1, v("0.3", 1, [21000, 25020])]], "maxId": 1, "positions": [[[21000, 25020], pos]]}, E(), {"k": "withdrawUni", "vk": 1, "pos": [21000, 25020]}),
        ("mint-on-existing-unsafe", {"wallet": [["WETH", D(5)], ["OSQTH", D(1)]], "vaults": [[1, v(3, 10)]], "maxId": 1, "positions": []}, E(), {"k": "openMint", "deposit": D(1), "mint": D(40), "vk": 1, "pos": None}),
        ("empty-lp", {"wallet": [["WETH", D(5)], ["OSQTH", D(1)]], "vaults": [[1, v(3, 10)]], "maxId": 1, "positions": [[[21000, 25020], dict(pos, liquidity=0, transferred=False, p0=D(1))]]}, E(), {"k": "depositUni", "vk": 1, "pos": [21000, 25020]}),
    ]
    for name, spec, env, op in cases:
        w = L.World(spec, env)
        o = L.observe(w, op, "boundary:" + name)
        if o.err is not None:
            oracle(ctx, o)
            runner.add(o, "rej:")
        else:
            ctx.count("aimed_but_accepted")


def run(ctx: Ctx):
    runner = L.Runner(ctx)
    for _ in range(ctx.scale(60, 2500)):
        rejection_directed(ctx, runner)
    boundary(ctx, runner)
    runner.finish()
    L.special_stream(ctx, ctx.scale(150, 3000), "squeeth.", reject_intact=True)


def replay(ctx: Ctx, case) -> bool:
    if case.get("special"):
        return L.special_replay(case, "squeeth.", reject_intact=True)
    world = L.World(G.parse_spec(case["spec"]), G.parse_env(case["env"]))
    o = L.observe(world, G.parse_op(case["op"]), "replay")
    sub = Ctx(ctx.prop, ctx.tier, ctx.seed, False)
    oracle(sub, o)
    for v in sub.violations:
        print("  ", v["key"], "—", v["what"][:300])
    return not sub.violations
