"""Uniswap-market helpers shared by the `uni` harness modules (c08, c09, c0x_uni): building real brokers/markets,
dumping their raw state in the driver's JSON form, comparing states."""
from __future__ import annotations

import decimal
import math
from decimal import Decimal
from fractions import Fraction

import numpy as np
import pandas as pd

from common import fmt

MIN_TICK, MAX_TICK = -887272, 887272


# ------------------------------------------------------------------------------------------ protocol reference (independent of /repo)
# Uniswap v3 TickMath.getSqrtRatioAtTick, written from the protocol (v3-core/contracts/libraries/TickMath.sol): generators and oracles take the
# sqrt price of a tick from here, never from the code under test.  `ref_selfcheck` ties this copy to the property text: the protocol's
# boundary values and |value - sqrt(1.0001^t) * 2^96| within the bound C06 states, on every single-bit tick and both ends.
_TICKMATH_FACTORS = (
    0xFFFCB933BD6FAD37AA2D162D1A594001, 0xFFF97272373D413259A46990580E213A, 0xFFF2E50F5F656932EF12357CF3C7FDCC, 0xFFE5CACA7E10E4E61C3624EAA0941CD0,
    0xFFCB9843D60F6159C9DB58835C926644, 0xFF973B41FA98C081472E6896DFB254C0, 0xFF2EA16466C96A3843EC78B326B52861, 0xFE5DEE046A99A2A811C461F1969C3053,
    0xFCBE86C7900A88AEDCFFC83B479AA3A4, 0xF987A7253AC413176F2B074CF7815E54, 0xF3392B0822B70005940C7A398E4B70F3, 0xE7159475A2C29B7443B29C7FA6E889D9,
    0xD097F3BDFD2022B8845AD8F792AA5825, 0xA9F746462D870FDF8A65DC1F90E061E5, 0x70D869A156D2A1B890BB3DF62BAF32F7, 0x31BE135F97D08FD981231505542FCFA6,
    0x9AA508B5B7A84E1C677DE54F3E99BC9, 0x5D6AF8DEDB81196699C329225EE604, 0x2216E584F5FA1EA926041BEDFE98, 0x48A170391F7DC42444E8FA2)
MIN_SQRT_RATIO, MAX_SQRT_RATIO = 4295128739, 1461446703485210103287273052203988822378723970342
_REF_CACHE = {}


def ref_sqrt_ratio_at_tick(tick: int) -> int:
    if tick in _REF_CACHE:
        return _REF_CACHE[tick]
    a = abs(tick)
    if a > MAX_TICK:
        raise ValueError(tick)
    ratio = 1 << 128
    for i, f in enumerate(_TICKMATH_FACTORS):
        if a & (1 << i):
            ratio = (ratio * f) >> 128
    if tick > 0:
        ratio = ((1 << 256) - 1) // ratio
    r = (ratio >> 32) + (1 if ratio % (1 << 32) else 0)
    if len(_REF_CACHE) < 200000:
        _REF_CACHE[tick] = r
    return r


def ref_selfcheck():
    """the reference is the protocol's function: boundary values, and closeness to sqrt(1.0001^t) * 2^96 as C06 states it"""
    if _REF_CACHE.get("checked"):
        return
    assert ref_sqrt_ratio_at_tick(0) == 1 << 96 and ref_sqrt_ratio_at_tick(MIN_TICK) == MIN_SQRT_RATIO and ref_sqrt_ratio_at_tick(MAX_TICK) == MAX_SQRT_RATIO
    with decimal.localcontext() as c:
        c.prec = 120
        root = Decimal("1.0001").sqrt()
        for t in [s * (1 << k) for k in range(20) for s in (1, -1)] + [MIN_TICK, MAX_TICK, 887271, -887271, 524287, -524289]:
            ideal = root ** t * (1 << 96)
            bound = 1 if t <= 0 else 1 + ideal * 8 * root ** t / (1 << 128)
            assert abs(ref_sqrt_ratio_at_tick(t) - ideal) < bound, t
    _REF_CACHE["checked"] = True


def imports():
    import demeter  # noqa: F401  (sets decimal precision)
    from demeter import TokenInfo, Broker, MarketInfo
    from demeter.uniswap import UniLpMarket, UniV3Pool, UniswapMarketStatus
    return TokenInfo, Broker, MarketInfo, UniLpMarket, UniV3Pool, UniswapMarketStatus


def dec_fac(d0: int, d1: int) -> Decimal:
    """Decimal(10 ** (d0 - d1)) exactly as the code evaluates it"""
    return Decimal(10 ** (d0 - d1))


def pool_json(pool) -> dict:
    return {"tok0": pool.token0.name, "tok1": pool.token1.name, "d0": pool.token0.decimal, "d1": pool.token1.decimal,
            "fee_rate": fmt(pool.fee_rate), "spacing": pool.tick_spacing, "q0": bool(pool.is_token0_quote),
            "dec_fac": fmt(Fraction(dec_fac(pool.token0.decimal, pool.token1.decimal)))}


def num(x):
    """canonical exact string of an int / Decimal / float-valued integer"""
    if isinstance(x, Decimal):
        return fmt(Fraction(x))
    if isinstance(x, (int, np.integer)):
        return str(int(x))
    if isinstance(x, (float, np.floating)):
        return fmt(Fraction(float(x)))
    if isinstance(x, Fraction):
        return fmt(x)
    raise TypeError(type(x))


def is_nan(x) -> bool:
    if x is None:
        return True
    try:
        return bool(pd.isna(x))
    except (TypeError, ValueError):
        return False


def pos_json(key, p) -> dict:
    return {"lower": str(int(key.lower_tick)), "upper": str(int(key.upper_tick)), "p0": num(p.pending_amount0), "p1": num(p.pending_amount1),
            "liq": str(int(p.liquidity)), "ld": isinstance(p.liquidity, Decimal), "lp": num(p.lower_price), "up": num(p.upper_price), "ip": num(p.init_price), "tr": bool(p.transferred)}


def row_json(data) -> dict | None:
    if data is None or len(data.index) == 0 or "closeTick" not in data.index:
        return None
    return {"tick": str(int(data.closeTick)), "liq": num(data.currentLiquidity), "in0": num(data.inAmount0), "in1": num(data.inAmount1),
            "price": num(data.price) if "price" in data.index and not is_nan(data.price) else "0"}


def ts_index(market, ts):
    if ts is None:
        return None
    if market.data is not None:
        try:
            return int(market.data.index.get_loc(ts))
        except KeyError:
            return 10 ** 9
    return None


def wallet_json(broker) -> list:
    return [[tok.name, num(a.balance)] for tok, a in broker.assets.items()]


def action_json(a) -> dict:
    """class name + the numbers an action record carries, in field order"""
    nums = []
    for k, v in vars(a).items():
        if isinstance(v, bool) or v is None:
            continue
        if isinstance(v, (Decimal, int)):
            nums.append(num(v))
    return {"kind": type(a).__name__, "nums": nums}


def state_json(market, broker, actions=None) -> dict:
    return {
        "positions": [pos_json(k, p) for k, p in market.positions.items()],
        "last": None if is_nan(market.last_tick) else str(int(market.last_tick)),
        "row": row_json(market.market_status.data),
        "ts": ts_index(market, market.market_status.timestamp),
        "open": bool(market.is_open), "upd": bool(market.has_update),
        "wallet": wallet_json(broker), "neg": bool(broker.allow_negative_balance),
        "actions": [action_json(a) for a in (actions or [])],
    }


def diff_json(a, b, path="") -> str | None:
    """first difference between two canonical JSON values (numbers as strings are compared as exact rationals)"""
    if isinstance(a, dict) and isinstance(b, dict):
        for k in sorted(set(a) | set(b)):
            if k not in a or k not in b:
                return f"{path}.{k}: missing on one side"
            d = diff_json(a[k], b[k], f"{path}.{k}")
            if d:
                return d
        return None
    if isinstance(a, list) and isinstance(b, list):
        if len(a) != len(b):
            return f"{path}: length {len(a)} vs {len(b)}"
        for i, (x, y) in enumerate(zip(a, b)):
            d = diff_json(x, y, f"{path}[{i}]")
            if d:
                return d
        return None
    if isinstance(a, int) and not isinstance(a, bool) and isinstance(b, str):
        a = str(a)
    if isinstance(b, int) and not isinstance(b, bool) and isinstance(a, str):
        b = str(b)
    if isinstance(a, str) and isinstance(b, str):
        if a == b:
            return None
        try:
            if Fraction(a) == Fraction(b):
                return None
        except (ValueError, ZeroDivisionError):
            pass
        return f"{path}: {a} vs {b}"
    if a != b:
        return f"{path}: {a!r} vs {b!r}"
    return None


def mk_series(tick, liq, in0, in1, price):
    return pd.Series(data=[in0, in1, liq, tick, price], index=["inAmount0", "inAmount1", "currentLiquidity", "closeTick", "price"])


def mk_data(pool, ticks, in0s, in1s, liqs, tick_dtype="float64"):
    """a pool data frame shaped like load_uni_v3_data's result (Decimal amounts/liquidity; closeTick float64 after reindexing,
    or int64 for hand-built frames such as tests/utils.get_uni_v3_mock_data)"""
    from demeter.uniswap.helper import _add_statistic_column
    n = len(ticks)
    index = pd.date_range("2023-01-01 00:00:00", periods=n, freq="min")
    df = pd.DataFrame(index=index)
    df["netAmount0"] = [0] * n
    df["netAmount1"] = [0] * n
    t = pd.Series(list(ticks), index=index, dtype=tick_dtype)
    for c in ("closeTick", "openTick", "lowestTick", "highestTick"):
        df[c] = t
    df["inAmount0"] = pd.Series([Decimal(x) for x in in0s], index=index, dtype=object)
    df["inAmount1"] = pd.Series([Decimal(x) for x in in1s], index=index, dtype=object)
    df["currentLiquidity"] = pd.Series([Decimal(x) for x in liqs], index=index, dtype=object)
    _add_statistic_column(df, pool)
    return df


def frac(x) -> Fraction:
    if isinstance(x, Fraction):
        return x
    if isinstance(x, (np.integer,)):
        return Fraction(int(x))
    if isinstance(x, (np.floating,)):
        return Fraction(float(x))
    return Fraction(x)


def path_fraction(prev: int, close: int, lower: int, upper: int) -> Fraction:
    """the property's in-range fraction of the tick path [prev, close] (independent of the code's sort)"""
    if prev == close:
        return Fraction(1 if lower <= close < upper else 0)
    lo, hi = min(prev, close), max(prev, close)
    ov = max(0, min(hi, upper) - max(lo, lower))
    return Fraction(ov, abs(close - prev))


def cap_violations(ctx, per_key=3):
    """keep at most `per_key` violations per key so that one frequent cause cannot crowd out the others"""
    if getattr(ctx, "_uni_capped", False):
        return
    seen, orig = {}, ctx.violate

    def violate(key, what, replay):
        seen[key] = seen.get(key, 0) + 1
        ctx.notes["violations_" + key] = seen[key]
        if seen[key] <= per_key:
            orig(key, what, replay)
    ctx.violate = violate
    ctx._uni_capped = True


class quiet:
    """silence tqdm / logging / print noise of Actuator.run"""
    def __enter__(self):
        import contextlib, io, logging, os
        self._stack = contextlib.ExitStack()
        self._devnull = open(os.devnull, "w")
        self._stack.enter_context(contextlib.redirect_stderr(self._devnull))
        self._stack.enter_context(contextlib.redirect_stdout(self._devnull))
        logging.disable(logging.CRITICAL)
        return self

    def __exit__(self, *a):
        import logging
        logging.disable(logging.NOTSET)
        self._stack.close()
        self._devnull.close()


# ------------------------------------------------------------------------------------------ process-wide state
# A market operation or helper must not leave process-wide state behind: everything computed afterwards (this run, the next
# run in the same process, another strategy's backtest) would silently differ.  The decimal context is the one piece of
# process-wide state the Uniswap code depends on (`import demeter` sets prec = 35); every step runner of the uni harnesses
# executes real code inside `guard(...)`, which compares the context before and after and restores it on a change.
PROCESS_STATE = []


def context_fingerprint():
    c = decimal.getcontext()
    return {"prec": c.prec, "rounding": c.rounding, "Emin": c.Emin, "Emax": c.Emax, "capitals": c.capitals, "clamp": c.clamp,
            "traps": sorted(k.__name__ for k, v in c.traps.items() if v)}


class guard:
    """run real code; record (and undo) any change of the process-wide decimal context"""

    def __init__(self, tag, replay=None):
        self.tag, self.replay = tag, replay

    def __enter__(self):
        self.saved = decimal.getcontext().copy()
        self.before = context_fingerprint()
        return self

    def __exit__(self, *a):
        after = context_fingerprint()
        if after != self.before:
            diff = {k: (self.before[k], after[k]) for k in after if after[k] != self.before[k]}
            PROCESS_STATE.append((self.tag, diff, self.replay() if callable(self.replay) else self.replay))
            self.saved.clear_flags()
            decimal.setcontext(self.saved)
        return False


def report_process_state(ctx):
    """turn the recorded context changes into violations of the property under check (key = the call that left the change)"""
    seen = {}
    for tag, diff, rep in PROCESS_STATE:
        seen[tag] = seen.get(tag, 0) + 1
        if seen[tag] <= 2:
            ctx.violate(f"process-state.decimal-context.{tag}",
                        f"{tag} changed the process-wide decimal context and did not restore it: " +
                        ", ".join(f"{k} {a!r} -> {b!r}" for k, (a, b) in sorted(diff.items())) +
                        " (every Decimal result computed afterwards in this process is rounded differently)",
                        {"kind": "process-state", "tag": tag, "case": rep})
    ctx.notes["process_state_guarded_calls"] = GUARDED[0]
    PROCESS_STATE.clear()


GUARDED = [0]


def world_spec(w):
    return {"pool": pool_json(w.pool), "fee": float(w.pool.fee_rate * 100), "tick": int(w.tick), "price": fmt(Decimal(w.price)),
            "wallet": wallet_json(w.broker)}


def replay_process_state(case) -> bool:
    """re-run the recorded call on a fresh world of the same shape; True = the context is left as it was"""
    import random
    c = case.get("case") or {}
    PROCESS_STATE.clear()
    try:
        ws = c["world"]
        pj = ws["pool"]
        w = World(random.Random(0), pool_spec=(pj["d0"], pj["d1"], pj["q0"]), fee=ws["fee"], tick=ws["tick"], price=Decimal(ws["price"]),
                  balances=(None, None))
        for name, b in ws["wallet"]:
            w.broker.set_balance(w.tok(name), Decimal(Fraction(b).numerator) / Decimal(Fraction(b).denominator))
        for op in c.get("ops", []):
            op = {k: (Decimal(v) if k in DEC_FIELDS and v is not None else v) for k, v in op.items()}
            if op["op"] in ("estimate_amount", "estimate_liquidity"):
                from demeter.uniswap._typing import PositionInfo
                with guard(op["op"]):
                    try:
                        if op["op"] == "estimate_amount":
                            w.market.estimate_amount(op["value"], op["lower"], op["upper"])
                        else:
                            w.market.estimate_liquidity(op["value"], PositionInfo(op["lower"], op["upper"]))
                    except Exception:  # noqa: BLE001
                        pass
                with guard("base_unit_price_to_real_tick/estimate_ratio/base_unit_price_to_sqrt_price_x96"):
                    from demeter.uniswap.helper import base_unit_price_to_real_tick, base_unit_price_to_sqrt_price_x96
                    from demeter.uniswap.liquitidy_math import estimate_ratio
                    pool, price = w.pool, w.market.market_status.data.price
                    try:
                        tr = base_unit_price_to_real_tick(price, pool.token0.decimal, pool.token1.decimal, pool.is_token0_quote)
                        base_unit_price_to_sqrt_price_x96(price, pool.token0.decimal, pool.token1.decimal, pool.is_token0_quote)
                        estimate_ratio(tr, op["lower"], op["upper"])
                    except Exception:  # noqa: BLE001
                        pass
            else:
                apply_op(w, fill_oracles(w, op))
    except Exception as e:  # noqa: BLE001
        print("   process-state replay could not rebuild the call:", type(e).__name__, e)
    bad = list(PROCESS_STATE)
    PROCESS_STATE.clear()
    for tag, diff, _ in bad:
        print("   ", tag, "changed the decimal context:", diff)
    return not bad


DEC_FIELDS = ("a0", "a1", "base", "quote", "amount", "price", "value", "max0", "max1", "lower_price", "upper_price")


# ------------------------------------------------------------------------------------------ real markets and operations
POOLS = [(6, 18, True), (6, 18, False), (18, 6, True), (18, 6, False), (8, 18, True), (18, 18, False), (6, 6, True), (18, 8, False)]
FEES = [0.05, 0.3, 1]


class World:
    """a real Broker + UniLpMarket with a status row and an action log"""

    def __init__(self, rng, pool_spec=None, fee=None, price=None, allow_negative=False, balances=None, tick=None):
        TokenInfo, Broker, MarketInfo, UniLpMarket, UniV3Pool, UniswapMarketStatus = imports()
        d0, d1, q0 = pool_spec or rng.choice(POOLS)
        self.t0, self.t1 = TokenInfo("ta", d0), TokenInfo("tb", d1)
        self.pool = UniV3Pool(self.t0, self.t1, fee or rng.choice(FEES), self.t0 if q0 else self.t1)
        self.actions = []
        self.broker = Broker(allow_negative_balance=allow_negative, record_action_callback=self.actions.append)
        self.market = UniLpMarket(MarketInfo("uni"), self.pool)
        self.broker.add_market(self.market)
        sp = self.pool.tick_spacing
        # a pool price around a tick in the band where both decimals orientations stay printable
        self.tick = tick if tick is not None else rng.randint(-400, 400) * sp * 5
        self.price = price if price is not None else self.market.tick_to_price(self.tick)
        self.set_status(self.tick, self.price, Decimal(rng.randint(10 ** 12, 10 ** 24)),
                        Decimal(rng.randint(0, 10 ** 22)), Decimal(rng.randint(0, 10 ** 22)))
        b = balances if balances is not None else (Decimal(rng.randint(1, 10 ** 6)) / 100, Decimal(rng.randint(1, 10 ** 9)) / 100)
        if b[0] is not None:
            self.broker.set_balance(self.pool.base_token, b[0])
        if b[1] is not None:
            self.broker.set_balance(self.pool.quote_token, b[1] if price is None else b[1])

    def set_status(self, tick, price, liq, in0, in1):
        _, _, _, _, _, UniswapMarketStatus = imports()
        self.market.set_market_status(UniswapMarketStatus(timestamp=None, data=mk_series(tick, liq, in0, in1, price)), price=None)

    def dump(self):
        return state_json(self.market, self.broker, self.actions)

    def tok(self, name):
        from demeter import TokenInfo
        return {"ta": self.t0, "tb": self.t1}.get(name) or TokenInfo(name, 18)


def dec_or_none(x):
    return None if x is None else Decimal(x)


def oracle_tick(pool, price):
    from demeter.uniswap.helper import base_unit_price_to_tick
    return base_unit_price_to_tick(Decimal(price), pool.token0.decimal, pool.token1.decimal, pool.is_token0_quote)


def oracle_ratio(pool, tick, lower, upper):
    """Decimal(estimate_ratio(tick, lower, upper) * 10 ** (d1 - d0)); 0 when estimate_ratio refuses the tick"""
    from demeter.uniswap.liquitidy_math import estimate_ratio
    try:
        r = estimate_ratio(tick, lower, upper)
    except Exception:  # noqa: BLE001
        return Decimal(0)
    return Decimal(r * 10 ** (pool.token1.decimal - pool.token0.decimal))


def fill_oracles(w: World, op: dict) -> dict:
    """add the float-valued helper results the model takes as inputs (computed by calling the real helpers)"""
    with guard("base_unit_price_to_tick/estimate_ratio/nearest_usable_tick"):
        return _fill_oracles(w, op)


def _fill_oracles(w: World, op: dict) -> dict:
    from demeter.uniswap.helper import nearest_usable_tick
    op = dict(op)
    pool = w.pool
    if op["op"] == "add":
        try:
            op["lt"], op["ut"] = oracle_tick(pool, op["lower_price"]), oracle_tick(pool, op["upper_price"])
        except Exception:  # noqa: BLE001
            op["lt"] = op["ut"] = None
    if op["op"] == "add_by_value":
        price = w.market.market_status.data.price
        try:
            te = oracle_tick(pool, price)
        except Exception:  # noqa: BLE001
            te = None
        op["tick_est"] = te
        if te is not None:
            lo, up = op["lower"], op["upper"]
            if op["trim"]:
                lo, up = nearest_usable_tick(lo, pool.tick_spacing), nearest_usable_tick(up, pool.tick_spacing)
            op["ratio_amt"] = oracle_ratio(pool, nearest_usable_tick(te, pool.tick_spacing), lo, up)
        else:
            op["ratio_amt"] = Decimal(0)
    return op


def flat(v):
    """flatten a return value into the list of numbers the model returns"""
    if v is None:
        return []
    out = []
    for x in v:
        if isinstance(x, tuple) and hasattr(x, "lower_tick"):
            out += [str(int(x.lower_tick)), str(int(x.upper_tick))]
        else:
            out.append(num(x))
    return out


def apply_op(w: World, op: dict):
    """run one operation on the real market (inside the process-state guard); returns (exception class name | None, flattened result)"""
    GUARDED[0] += 1
    spec = None
    try:
        spec = {"world": world_spec(w), "ops": [{k: (fmt(v) if isinstance(v, Decimal) else (str(v) if isinstance(v, Fraction) else v)) for k, v in op.items()}]}
    except Exception:  # noqa: BLE001
        pass
    with guard(op["op"], spec):
        return _apply_op(w, op)


def _apply_op(w: World, op: dict):
    from demeter.uniswap._typing import PositionInfo
    m = w.market
    k = op["op"]
    try:
        if k == "add_raw":
            r = m._add_liquidity_by_tick(Decimal(op["a0"]), Decimal(op["a1"]), op["lower"], op["upper"], -1 if op["sqrt"] is None else int(op["sqrt"]))
        elif k == "add_by_tick":
            # `tick` is passed only when given (the "not given" value of the parameter is the code's business)
            r = m.add_liquidity_by_tick(op["lower"], op["upper"], dec_or_none(op["base"]), dec_or_none(op["quote"]),
                                        -1 if op["sqrt"] is None else int(op["sqrt"]), trim_tick=op["trim"],
                                        **({} if op["tick"] is None else {"tick": op["tick"]}))
        elif k == "add":
            r = m.add_liquidity(Decimal(op["lower_price"]), Decimal(op["upper_price"]), dec_or_none(op["quote"]), dec_or_none(op["base"]))
        elif k == "remove":
            r = m.remove_liquidity(PositionInfo(op["lower"], op["upper"]), None if op["liq"] is None else int(op["liq"]), op["collect"],
                                   -1 if op["sqrt"] is None else int(op["sqrt"]), op["remove_dry"])
        elif k == "collect":
            r = m.collect_fee(PositionInfo(op["lower"], op["upper"]), dec_or_none(op["max0"]), dec_or_none(op["max1"]), op["remove_dry"], op["to_user"])
        elif k == "remove_all":
            r = m.remove_all_liquidity()
        elif k == "swap":
            r = m.swap(Decimal(op["amount"]), w.tok(op["from"]), w.tok(op["to"]), dec_or_none(op["price"]), op["log"])
        elif k == "buy":
            r = m.buy(Decimal(op["amount"]), dec_or_none(op["price"]))
        elif k == "sell":
            r = m.sell(Decimal(op["amount"]), dec_or_none(op["price"]))
        elif k == "even_rebalance":
            r = m.even_rebalance(dec_or_none(op["price"]))
        elif k == "add_by_value":
            r = m.add_liquidity_by_value(op["lower"], op["upper"], dec_or_none(op["value"]), op["trim"])
        elif k == "transfer_out":
            r = m.transfer_position_out(PositionInfo(op["lower"], op["upper"]))
        elif k == "transfer_in":
            r = m.transfer_position_in(PositionInfo(op["lower"], op["upper"]))
        else:
            raise KeyError(k)
        return None, flat(r)
    except Exception as e:  # noqa: BLE001
        return type(e).__name__, None


def op_req(w: World, op: dict, before: dict) -> dict:
    """driver request for one step"""
    o = {k: (fmt(v) if isinstance(v, Decimal) else v) for k, v in op.items()}
    for k in ("lower", "upper", "lt", "ut", "tick", "tick_est", "liq"):
        if o.get(k) is not None and k in o:
            o[k] = str(o[k])
    return {"fn": "uni.step", "pool": pool_json(w.pool), "state": before, "op": o}


def obs_equal(a: dict, b: dict):
    """difference between two dumps on everything the "state intact" property covers (has_update is bookkeeping)"""
    return diff_json({k: v for k, v in a.items() if k != "upd"}, {k: v for k, v in b.items() if k != "upd"})


def collect_caps(rng, position, negative=False, exact=True):
    """a (cap0, cap1, class) choice for collect_fee(max_collect_amount0/1): each cap independently None (= all), exactly 0 (= nothing),
    below / exactly at / above the pending amount of ITS token, and a value between the two pending amounts (a cap compared with the other
    token's pending amount is the slip this exposes); negative caps only where the caller judges rejections"""
    from decimal import Decimal
    pend = (Decimal(position.pending_amount0), Decimal(position.pending_amount1))

    def one(i):
        mine, other = pend[i], pend[1 - i]
        opts = [(None, "all"), (None, "all"), (Decimal(0), "zero"), (mine / 2 if mine else Decimal("0.001"), "below"), (mine, "exact"),
                (mine * 3 + 1, "above"), ((mine + other) / 2 if mine != other else mine + Decimal("0.5"), "between")]
        if negative:
            opts.append((Decimal(-1), "negative"))
        if not exact:
            # a cap exactly equal to what is pending decides whether the emptied position is dropped: two pools whose pending amounts agree to
            # 1e-12 (not to the last digit) land on different sides of that tie, which says nothing about either pool
            opts = [o for o in opts if o[1] != "exact"] + [(mine * Decimal("0.999"), "just-below")]
        return rng.choice(opts)
    (c0, k0), (c1, k1) = one(0), one(1)
    return c0, c1, f"{k0}/{k1}"


def offer(rng, balance):
    """an offered amount for an add-liquidity call: mostly a fraction of the wallet balance; sometimes exactly 0 (an explicit zero is an amount,
    not 'not given'), the whole balance, or a hair above it (a running total or a float round trip: within the wallet's 1e-5 'use it all'
    tolerance, which must treat both tokens alike) and a little beyond that tolerance"""
    from decimal import Decimal
    k = rng.random()
    if k < 0.72:
        return balance * Decimal(rng.choice(("0.1", "0.3", "0.6")))
    if k < 0.80:
        return Decimal(0)
    if k < 0.87:
        return balance
    if k < 0.95:
        return balance * (1 + Decimal(rng.choice(("1e-8", "3e-7", "9e-6"))))
    return balance * (1 + Decimal("3e-5"))
