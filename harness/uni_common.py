"""Uniswap-market helpers shared by the `uni` harness modules (c08, c09, c0x_uni): building real brokers/markets,
dumping their raw state in the driver's JSON form, comparing states."""
from __future__ import annotations

import math
from decimal import Decimal
from fractions import Fraction

import numpy as np
import pandas as pd

from common import fmt

MIN_TICK, MAX_TICK = -887272, 887272


def imports():
    import demeter  # noqa: F401  (sets decimal precision)
    from demeter import TokenInfo, Broker, MarketInfo
    from demeter.uniswap import UniLpMarket, UniV3Pool, UniswapMarketStatus
    return TokenInfo, Broker, MarketInfo, UniLpMarket, UniV3Pool, UniswapMarketStatus


def dec_fac(d0: int, d1: int) -> Decimal:
    """Decimal(10 ** (d0 - d1)) exactly as the code evaluates it"""
    return Decimal(10 ** (d0 - d1))


def pool_json(pool) -> dict:
    return {"tok0": pool.token0.name, "tok1": pool.token1.name, "d0": pool.token0.decimal, "d1": pool.token1.decimal,
            "fee_rate": fmt(pool.fee_rate), "spacing": pool.tick_spacing, "q0": bool(pool.is_token0_quote),
            "dec_fac": fmt(Fraction(dec_fac(pool.token0.decimal, pool.token1.decimal)))}


def num(x):
    """canonical exact string of an int / Decimal / float-valued integer"""
    if isinstance(x, Decimal):
        return fmt(Fraction(x))
    if isinstance(x, (int, np.integer)):
        return str(int(x))
    if isinstance(x, (float, np.floating)):
        return fmt(Fraction(float(x)))
    if isinstance(x, Fraction):
        return fmt(x)
    raise TypeError(type(x))


def is_nan(x) -> bool:
    if x is None:
        return True
    try:
        return bool(pd.isna(x))
    except (TypeError, ValueError):
        return False


def pos_json(key, p) -> dict:
    return {"lower": str(int(key.lower_tick)), "upper": str(int(key.upper_tick)), "p0": num(p.pending_amount0), "p1": num(p.pending_amount1),
            "liq": str(int(p.liquidity)), "lp": num(p.lower_price), "up": num(p.upper_price), "ip": num(p.init_price), "tr": bool(p.transferred)}


def row_json(data) -> dict | None:
    if data is None or len(data.index) == 0 or "closeTick" not in data.index:
        return None
    return {"tick": str(int(data.closeTick)), "liq": num(data.currentLiquidity), "in0": num(data.inAmount0), "in1": num(data.inAmount1),
            "price": num(data.price) if "price" in data.index and not is_nan(data.price) else "0"}


def ts_index(market, ts):
    if ts is None:
        return None
    if market.data is not None:
        try:
            return int(market.data.index.get_loc(ts))
        except KeyError:
            return 10 ** 9
    return None


def wallet_json(broker) -> list:
    return [[tok.name, num(a.balance)] for tok, a in broker.assets.items()]


def action_json(a) -> dict:
    """class name + the numbers an action record carries, in field order"""
    nums = []
    for k, v in vars(a).items():
        if isinstance(v, bool) or v is None:
            continue
        if isinstance(v, (Decimal, int)):
            nums.append(num(v))
    return {"kind": type(a).__name__, "nums": nums}


def state_json(market, broker, actions=None) -> dict:
    return {
        "positions": [pos_json(k, p) for k, p in market.positions.items()],
        "last": None if is_nan(market.last_tick) else str(int(market.last_tick)),
        "row": row_json(market.market_status.data),
        "ts": ts_index(market, market.market_status.timestamp),
        "open": bool(market.is_open), "upd": bool(market.has_update),
        "wallet": wallet_json(broker), "neg": bool(broker.allow_negative_balance),
        "actions": [action_json(a) for a in (actions or [])],
    }


def diff_json(a, b, path="") -> str | None:
    """first difference between two canonical JSON values (numbers as strings are compared as exact rationals)"""
    if isinstance(a, dict) and isinstance(b, dict):
        for k in sorted(set(a) | set(b)):
            if k not in a or k not in b:
                return f"{path}.{k}: missing on one side"
            d = diff_json(a[k], b[k], f"{path}.{k}")
            if d:
                return d
        return None
    if isinstance(a, list) and isinstance(b, list):
        if len(a) != len(b):
            return f"{path}: length {len(a)} vs {len(b)}"
        for i, (x, y) in enumerate(zip(a, b)):
            d = diff_json(x, y, f"{path}[{i}]")
            if d:
                return d
        return None
    if isinstance(a, str) and isinstance(b, str):
        if a == b:
            return None
        try:
            if Fraction(a) == Fraction(b):
                return None
        except (ValueError, ZeroDivisionError):
            pass
        return f"{path}: {a} vs {b}"
    if a != b:
        return f"{path}: {a!r} vs {b!r}"
    return None


def mk_series(tick, liq, in0, in1, price):
    return pd.Series(data=[in0, in1, liq, tick, price], index=["inAmount0", "inAmount1", "currentLiquidity", "closeTick", "price"])


def mk_data(pool, ticks, in0s, in1s, liqs, tick_dtype="float64"):
    """a pool data frame shaped like load_uni_v3_data's result (Decimal amounts/liquidity; closeTick float64 after reindexing,
    or int64 for hand-built frames such as tests/utils.get_uni_v3_mock_data)"""
    from demeter.uniswap.helper import _add_statistic_column
    n = len(ticks)
    index = pd.date_range("2023-01-01 00:00:00", periods=n, freq="min")
    df = pd.DataFrame(index=index)
    df["netAmount0"] = [0] * n
    df["netAmount1"] = [0] * n
    t = pd.Series(list(ticks), index=index, dtype=tick_dtype)
    for c in ("closeTick", "openTick", "lowestTick", "highestTick"):
        df[c] = t
    df["inAmount0"] = pd.Series([Decimal(x) for x in in0s], index=index, dtype=object)
    df["inAmount1"] = pd.Series([Decimal(x) for x in in1s], index=index, dtype=object)
    df["currentLiquidity"] = pd.Series([Decimal(x) for x in liqs], index=index, dtype=object)
    _add_statistic_column(df, pool)
    return df


def frac(x) -> Fraction:
    if isinstance(x, Fraction):
        return x
    if isinstance(x, (np.integer,)):
        return Fraction(int(x))
    if isinstance(x, (np.floating,)):
        return Fraction(float(x))
    return Fraction(x)


def path_fraction(prev: int, close: int, lower: int, upper: int) -> Fraction:
    """the property's in-range fraction of the tick path [prev, close] (independent of the code's sort)"""
    if prev == close:
        return Fraction(1 if lower <= close < upper else 0)
    lo, hi = min(prev, close), max(prev, close)
    ov = max(0, min(hi, upper) - max(lo, lower))
    return Fraction(ov, abs(close - prev))


def cap_violations(ctx, per_key=3):
    """keep at most `per_key` violations per key so that one frequent cause cannot crowd out the others"""
    if getattr(ctx, "_uni_capped", False):
        return
    seen, orig = {}, ctx.violate

    def violate(key, what, replay):
        seen[key] = seen.get(key, 0) + 1
        ctx.notes["violations_" + key] = seen[key]
        if seen[key] <= per_key:
            orig(key, what, replay)
    ctx.violate = violate
    ctx._uni_capped = True
