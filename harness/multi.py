"""Cross-market properties (C01, C03, C04) are decided per market by part modules `cXX_<name>.py`
(same interface as a whole-property module); this aggregates them into one check."""
from __future__ import annotations
import glob, importlib, os

HERE = os.path.dirname(os.path.abspath(__file__))


def parts(prop: str):
    mods = []
    for p in sorted(glob.glob(os.path.join(HERE, prop.lower() + "_*.py"))):
        mods.append(importlib.import_module(os.path.basename(p)[:-3]))
    return mods


def install(ns: dict, prop: str, rule: str):
    ps = parts(prop)
    ns["PROPERTY"] = prop
    ns["PARTS"] = ps
    ns["LEAN_MODULES"] = sorted({m for p in ps for m in p.LEAN_MODULES})
    ns["LEAN_MODULES_THOROUGH"] = sorted({m for p in ps for m in getattr(p, "LEAN_MODULES_THOROUGH", [])})
    ns["DRIVERS"] = sorted({d for p in ps for d in getattr(p, "DRIVERS", ["driver"])})
    ns["RULE"] = rule + " Parts: " + "; ".join(f"[{p.__name__}] {getattr(p, 'RULE', '')}" for p in ps)
    ns["TRUSTED"] = [t for p in ps for t in getattr(p, "TRUSTED", [])]
    ns["ASSUMPTIONS"] = [f"[{p.__name__}] {a}" for p in ps for a in getattr(p, "ASSUMPTIONS", [])]

    def run(ctx):
        for p in ps:
            before = ctx.evaluations
            ctx.part = p.__name__
            p.run(ctx)
            ctx.note("cases_" + p.__name__, ctx.evaluations - before)
        # tag replays with the part that produced them
    def replay(ctx, case):
        name = case.get("part") if isinstance(case, dict) else None
        for p in ps:
            if name in (None, p.__name__):
                try:
                    return p.replay(ctx, case)
                except (KeyError, TypeError):
                    if name is not None:
                        raise
        return True
    ns["run"] = run
    ns["replay"] = replay
