"""Generators for the Squeeth harness parts: environments (price / norm-factor paths), states and operations.
Everything is drawn from the rng that is passed in (ctx.rng)."""
from __future__ import annotations

from decimal import Decimal as D
from fractions import Fraction as F

from squeeth_lib import World, fr

SPACING = 60


def q(x, places=6):
    return D(x).quantize(D(1).scaleb(-places))


def dec(rng, lo, hi, places=6):
    return q(D(str(rng.uniform(float(lo), float(hi)))), places)


def gen_rows(rng, n, step=1, shock=None):
    """a price / norm-factor path on a `step`-minute grid; `shock` = (index, eth factor) applies a jump"""
    rows = []
    w = dec(rng, 1200, 3000, 4)
    nf = dec(rng, "0.2", "0.9", 6)
    prem = D(str(rng.uniform(0.9, 1.15)))
    for i in range(n):
        if shock and i == shock[0]:
            w = q(w * D(str(shock[1])), 4)
        w = q(w * D(str(1 + rng.uniform(-0.01, 0.01))), 4)
        nf = q(nf * D(str(1 - rng.uniform(0, 0.0005))), 8)
        prem_i = prem * D(str(1 + rng.uniform(-0.02, 0.02)))
        o = q(nf * w / 10000 * prem_i, 10)
        rows.append([i * step, nf, w, o])
    return rows


def gen_env(rng, kind=None, flip=None):
    """`flip` (default: 1 in 6) builds the pool with token0 = oSQTH"""
    e = _gen_env(rng, kind)
    if (rng.random() < 1 / 6) if flip is None else flip:
        e["flip"] = True
    if rng.random() < 0.25:
        e["fee"] = "0.05"            # another fee tier of the oSQTH/WETH pool (tick spacing 10 divides the generated ticks)
    return e


def _gen_env(rng, kind=None):
    kind = kind or rng.choice(["spot", "spot", "twap", "twap", "twap", "short-history", "coarse-grid", "shock"])
    if kind == "spot":
        rows = gen_rows(rng, 1)
        cur = rows[0][1:]
        now = None
    else:
        if kind == "short-history":
            n, step = rng.randint(1, 6), 1
        elif kind == "coarse-grid":
            n, step = rng.randint(2, 8), rng.choice([2, 5, 7])
        else:
            n, step = rng.randint(7, 14), 1
        shock = (rng.randint(0, n - 1), rng.choice([0.6, 0.8, 1.3, 1.7])) if kind == "shock" else None
        rows = gen_rows(rng, n, step, shock)
        k = rng.choice([0, n - 1, n - 1, rng.randint(0, n - 1), min(6, n - 1), min(7, n - 1)])
        now = rows[k][0]
        cur = rows[k][1:]
    o = cur[2]
    uni_price = q(o * D(str(1 + rng.uniform(-0.05, 0.05))), 10) if rng.random() < 0.7 else o
    return {"rows": rows, "now": now, "cur": cur, "uniPrice": uni_price, "uniOpen": rng.random() > 0.06, "kind": kind}


def exact_env(nf="0.5", weth="2000", osqth="0.1", uni_price=None, uni_open=True, flip=False):
    """the boundary stream: exactly representable numbers (index oSQTH/ETH = nf·weth/10000 = 0.1), spot pricing"""
    cur = [D(nf), D(weth), D(osqth)]
    e = {"rows": [[0] + cur], "now": None, "cur": cur, "uniPrice": D(uni_price or osqth), "uniOpen": uni_open, "kind": "exact"}
    if flip:
        e["flip"] = True
    return e


def shift_env(rng, env):
    """move along / shake the path: what happens between two bars"""
    e = dict(env)
    r = rng.random()
    if e["now"] is None:
        nf, w, o = e["cur"]
        f = rng.choice([0.55, 0.8, 0.95, 1.05, 1.25, 1.6, 2.2])
        w2 = q(w * D(str(f)), 4)
        o2 = q(o * D(str(f)) * D(str(1 + rng.uniform(-0.05, 0.05))), 10)
        e["cur"] = [nf, w2, o2]
        e["rows"] = [[0, nf, w2, o2]]
        e["uniPrice"] = q(o2 * D(str(1 + rng.uniform(-0.03, 0.03))), 10)
    else:
        rows = [list(x) for x in e["rows"]]
        step = rows[1][0] - rows[0][0] if len(rows) > 1 else 1
        last = rows[-1]
        f = rng.choice([0.6, 0.85, 1.0, 1.0, 1.2, 1.5, 2.0])
        for _ in range(rng.randint(1, 8)):
            w = q(last[2] * D(str(f)) * D(str(1 + rng.uniform(-0.01, 0.01))), 4)
            o = q(last[3] * D(str(f)) * D(str(1 + rng.uniform(-0.03, 0.03))), 10)
            last = [last[0] + step, last[1], w, o]
            rows.append(last)
            f = 1.0
        e["rows"] = rows
        k = rng.randint(max(0, len(rows) - 9), len(rows) - 1) if r < 0.8 else len(rows) - 1
        e["now"] = rows[k][0]
        e["cur"] = rows[k][1:]
        e["uniPrice"] = q(rows[k][3] * D(str(1 + rng.uniform(-0.03, 0.03))), 10)
    e["uniOpen"] = rng.random() > 0.06
    return e


def tick_of(world, price):
    t = world.uni.price_to_tick(price)
    return int(round(t / SPACING)) * SPACING


def empty_state(rng, with_osqth=True):
    w = [["WETH", dec(rng, 5, 60, 4)]]
    if with_osqth:
        w.append(["OSQTH", dec(rng, 0, 300, 4) if rng.random() < 0.8 else D(0)])
    if rng.random() < 0.15:
        w.reverse()
    return {"wallet": w, "vaults": [], "maxId": 0, "positions": []}


def add_position(rng, world, fees=False):
    """create an LP position through the real pool (so the state is one the code itself produces)"""
    t = tick_of(world, world.env["uniPrice"])
    kind = rng.choice(["around", "around", "around", "below", "above"])
    wdt = rng.choice([1, 3, 10, 30]) * SPACING
    if kind == "around":
        lo, hi = t - wdt, t + wdt
    elif kind == "below":      # range entirely below the current tick
        lo, hi = t - 2 * wdt - SPACING, t - SPACING
    else:
        lo, hi = t + SPACING, t + 2 * wdt + SPACING
    bal_w = world.broker.get_token_balance(world.weth)
    bal_o = world.broker.get_token_balance(world.osqth) if world.osqth in world.broker.assets else D(0)
    try:
        key, _, _, liq = world.uni.add_liquidity_by_tick(lo, hi, bal_o * D(str(rng.uniform(0.05, 0.5))), bal_w * D(str(rng.uniform(0.05, 0.4))))
    except Exception:  # noqa: BLE001
        return None
    if fees and key in world.uni.positions:
        p = world.uni.positions[key]
        p.pending_amount0 += dec(rng, 0, "0.05", 8)
        p.pending_amount1 += dec(rng, 0, "0.5", 8)
    del world.log[:]
    return [key.lower_tick, key.upper_tick]


def index_price(world):
    """oSQTH/ETH index = nf · twap(ETH) / 10000 as the code sees it now"""
    nf = world.cur()[0]
    return nf * world.sq.get_twap_price(world.weth) / D(10000)


MINT_FRACTIONS = ["0", "0.3", "0.6", "0.9", "0.999999", "1", "1.000001", "1.2", "2"]


def gen_op(rng, world, state):
    """one operation, mostly valid, with the malformed / boundary variants mixed in; returns (op, argument class)"""
    vaults = [int(k) for k, _ in state["vaults"]]
    vmap = {int(k): v for k, v in state["vaults"]}
    poss = [[int(a), int(b)] for (a, b), _ in state["positions"]]
    pmap = {(int(a), int(b)): p for (a, b), p in state["positions"]}
    free = [k for k in poss if not pmap[tuple(k)]["transferred"] and int(pmap[tuple(k)]["liquidity"]) > 0]
    lent = [k for k in poss if pmap[tuple(k)]["transferred"]]
    idx = index_price(world)
    kinds = ["openMint"] * 4 + ["deposit"] * 2 + ["burnWithdraw"] * 4 + ["depositUni"] * 2 + ["withdrawUni"] * 2 + \
            ["liquidate"] * 2 + ["update"] * 4 + ["uniRemove"] + ["reduceDebt"] + ["buy"] * 2 + ["sell"] * 2
    k = rng.choice(kinds)
    if not vaults and k not in ("openMint", "update", "uniRemove", "buy", "sell"):
        k = "openMint"
    if k in ("buy", "sell"):
        return gen_trade(rng, world, k)

    def some_vault():
        r = rng.random()
        if r < 0.06 or not vaults:
            return max(vaults + [0]) + rng.randint(1, 3), "unknown-vault"
        return rng.choice(vaults), "vault"

    if k == "openMint":
        r = rng.random()
        if r < 0.55 or not vaults:
            vk, vc = None, "new"
        elif r < 0.93:
            vk, vc = rng.choice(vaults), "existing"
        else:
            vk, vc = max(vaults) + 2, "unknown-vault"
        dep = rng.choice([D(0), dec(rng, "0.1", "0.49", 4), dec(rng, "0.5", 8, 4), dec(rng, "0.5", 8, 4), dec(rng, 50, 500, 2)])
        base = dep + (vmap[vk]["coll"] if vk in vmap else D(0))
        frac = D(rng.choice(MINT_FRACTIONS))
        have = vmap[vk]["short"] if vk in vmap else D(0)
        mint = (base / D("1.5") / idx) * frac - have if idx > 0 else D(1)
        if mint < 0 or frac == 0:
            mint = D(0) if rng.random() < 0.8 else D(-1)
        mint = q(mint, 12) if rng.random() < 0.5 else mint
        pos, pc = None, ""
        r = rng.random()
        if r < 0.25 and free:
            pos, pc = rng.choice(free), "+lp"
        elif r < 0.3 and lent:
            pos, pc = rng.choice(lent), "+lent-lp"
        elif r < 0.33:
            pos, pc = [60, 120], "+unknown-lp"
        if rng.random() < 0.2 and dep > 0:
            rate = D(rng.choice(["1.2", "1.5", "1.500001", "2", "3"]))
            return {"k": k, "deposit": dep, "mint": D(0), "byRate": rate, "vk": vk, "pos": pos}, f"{vc}:by-rate{rate}{pc}"
        return {"k": k, "deposit": dep, "mint": mint, "vk": vk, "pos": pos}, f"{vc}:dep{'0' if dep == 0 else ('<.5' if dep < D('0.5') else '')}:mint{frac}{pc}"
    if k == "deposit":
        vk, vc = some_vault()
        bal = world.broker.get_token_balance(world.weth) if world.weth in world.broker.assets else D(0)
        r = rng.random()
        if r < 0.5:
            eth, c = dec(rng, 0, max(bal, D(1)) * D("0.5"), 4), "part"
        elif r < 0.6:
            eth, c = bal, "all"
        elif r < 0.7:
            eth, c = bal * D("1.000001"), "dust-over"
        elif r < 0.8:
            eth, c = bal * 2 + 1, "over"
        elif r < 0.9:
            eth, c = D(0), "zero"
        else:
            eth, c = -dec(rng, "0.1", 3, 3), "negative"
        return {"k": k, "vk": vk, "eth": eth}, f"{vc}:{c}"
    if k == "burnWithdraw":
        vk, vc = some_vault()
        v = vmap.get(vk, {"coll": D(1), "short": D(1), "nft": None})
        bal = world.broker.get_token_balance(world.osqth) if world.osqth in world.broker.assets else D(0)
        bc = rng.choice(["zero", "part", "part", "all", "over", "negative", "more-than-wallet"])
        burn = {"zero": D(0), "part": v["short"] * D(str(rng.uniform(0.05, 0.95))), "all": v["short"], "over": v["short"] * D("1.5") + 1,
                "negative": D(-1), "more-than-wallet": bal + D("0.5")}[bc]
        wc = rng.choice(["zero", "part", "part", "tie", "all", "over", "negative"])
        short_after = max(D(0), v["short"] - max(burn, D(0)))
        need = short_after * idx * D("1.5")
        wd = {"zero": D(0), "part": v["coll"] * D(str(rng.uniform(0.02, 0.6))), "tie": v["coll"] - need, "all": v["coll"],
              "over": v["coll"] * 2 + 1, "negative": D(-2)}[wc]
        return {"k": k, "vk": vk, "burn": burn, "withdraw": wd}, f"{vc}:burn-{bc}:wd-{wc}{'+lp' if v['nft'] else ''}"
    if k == "depositUni":
        vk, vc = some_vault()
        r = rng.random()
        if r < 0.6 and free:
            pos, pc = rng.choice(free), "free"
        elif r < 0.8 and lent:
            pos, pc = rng.choice(lent), "lent"
        elif r < 0.9 and poss:
            pos, pc = rng.choice(poss), "any"
        else:
            pos, pc = [120, 180], "unknown"
        has = "+has-nft" if vk in vmap and vmap[vk]["nft"] else ""
        return {"k": k, "vk": vk, "pos": pos}, f"{vc}:{pc}{has}"
    if k == "withdrawUni":
        with_nft = [i for i in vaults if vmap[i]["nft"]]
        r = rng.random()
        if with_nft and r < 0.75:
            vk = rng.choice(with_nft)
            return {"k": k, "vk": vk, "pos": list(vmap[vk]["nft"])}, "vault:own-lp"
        vk, vc = some_vault()
        pos = rng.choice(poss) if poss and rng.random() < 0.7 else [120, 180]
        return {"k": k, "vk": vk, "pos": pos}, f"{vc}:other-lp"
    if k == "liquidate":
        vk, vc = some_vault()
        return {"k": k, "vk": vk}, vc + ("+lp" if vk in vmap and vmap[vk]["nft"] else "")
    if k == "reduceDebt":
        vk, vc = some_vault()
        if vc == "unknown-vault":
            vk = rng.choice(vaults)
        return {"k": k, "vk": vk, "payBounty": rng.random() < 0.7}, "vault" + ("+lp" if vmap[vk]["nft"] else "")
    if k == "uniRemove":
        r = rng.random()
        if lent and r < 0.5:
            return {"k": k, "pos": rng.choice(lent)}, "lent"
        if free and r < 0.9:
            return {"k": k, "pos": rng.choice(free)}, "free"
        return {"k": k, "pos": [120, 180]}, "unknown"
    return {"k": "update"}, f"{len(vaults)}-vaults"


# ---------------------------------------------------------------------------------------------------------------- pool side (C01)
def _pos_classes(state):
    poss = [[int(a), int(b)] for (a, b), _ in state["positions"]]
    pmap = {(int(a), int(b)): p for (a, b), p in state["positions"]}
    free = [k for k in poss if not pmap[tuple(k)]["transferred"]]
    lent = [k for k in poss if pmap[tuple(k)]["transferred"]]
    return poss, pmap, free, lent


def _pick_pos(rng, free, lent, w_free=0.62, w_lent=0.3):
    """(position, class): a free one, a lent one (the pool must refuse to touch it), or one that does not exist"""
    r = rng.random()
    if free and (r < w_free or not lent and r < w_free + w_lent):
        return rng.choice(free), "free"
    if lent and r < w_free + w_lent:
        return rng.choice(lent), "lent"
    return [120, 180], "unknown"


def gen_pool_op(rng, world, state, direct=False):
    """one operation of the oSQTH/WETH UniLpMarket by the strategy: add_liquidity (new range / the range of a free position / the range of a
    LENT position), remove_liquidity (all / part, collecting or not), collect_fee (all / capped), fee accrual; with `direct` also DIRECT calls of
    the public transfer_position_out / transfer_position_in.  Returns (op, argument class)."""
    poss, pmap, free, lent = _pos_classes(state)
    kinds = ["uniAdd"] * 3 + ["uniRemove"] * 3 + ["uniCollect"] * 3 + ["uniAccrue"] * 2
    if direct:
        kinds += ["uniTransferOut"] * 3 + ["uniTransferIn"] * 3
    k = rng.choice(kinds)
    if not poss and k != "uniAdd" and rng.random() < 0.8:
        k = "uniAdd"
    if k == "uniAdd":
        r = rng.random()
        if r < 0.2 and free:
            (lo, hi), pc = rng.choice(free), "free-range"
        elif r < 0.4 and lent:
            (lo, hi), pc = rng.choice(lent), "lent-range"
        else:
            t = tick_of(world, world.env["uniPrice"])
            wdt = rng.choice([1, 2, 5, 20]) * SPACING
            shape = rng.choice(["around", "around", "below", "above"])
            lo, hi = {"around": (t - wdt, t + wdt), "below": (t - 2 * wdt - SPACING, t - SPACING), "above": (t + SPACING, t + 2 * wdt + SPACING)}[shape]
            pc = "new-" + shape if [lo, hi] not in poss else ("free-range" if [lo, hi] in free else "lent-range")
        bal_w = world.broker.get_token_balance(world.weth) if world.weth in world.broker.assets else D(0)
        bal_o = world.broker.get_token_balance(world.osqth) if world.osqth in world.broker.assets else D(0)
        ac = rng.choice(["part", "part", "part", "part", "all", "over", "zero", "negative"])
        f = {"part": D(str(round(rng.uniform(0.03, 0.4), 4))), "all": D(1), "over": D(3), "zero": D(0), "negative": D("-0.1")}[ac]
        base, quote = bal_o * f, bal_w * f
        if ac == "over":
            base, quote = base + 1, quote + 1
        return {"k": k, "lo": int(lo), "hi": int(hi), "base": base, "quote": quote}, f"{pc}:{ac}"
    pos, pc = _pick_pos(rng, free, lent)
    if k == "uniRemove":
        liq = int(pmap[tuple(pos)]["liquidity"]) if tuple(pos) in pmap else 10 ** 12
        lc = rng.choice(["all", "all", "part", "part", "over", "zero", "negative"])
        amount = {"all": None, "part": liq * rng.randint(1, 9) // 10, "over": liq * 2 + 1, "zero": 0, "negative": -5}[lc]
        collect = rng.random() < 0.6
        return {"k": k, "pos": pos, "liquidity": amount, "collect": collect}, f"{pc}:{lc}:{'collect' if collect else 'keep'}"
    if k == "uniCollect":
        p = pmap.get(tuple(pos), {"p0": D(1), "p1": D(1)})
        cc = rng.choice(["all", "all", "capped", "capped", "zero-cap", "over-cap", "negative-cap"])
        m0, m1 = {"all": (None, None), "capped": (D(p["p0"]) / 2, D(p["p1"]) / 3), "zero-cap": (D(0), D(0)), "over-cap": (D(p["p0"]) * 2 + 1, None),
                  "negative-cap": (D(-1), None)}[cc]
        return {"k": k, "pos": pos, "max0": m0, "max1": m1}, f"{pc}:{cc}"
    if k == "uniAccrue":
        if not poss:
            return {"k": "update"}, "0-vaults"
        pos = rng.choice(poss)
        pc = "lent" if pmap[tuple(pos)]["transferred"] else "free"
        return {"k": k, "pos": pos, "a0": dec(rng, 0, "0.05", 8), "a1": dec(rng, 0, "0.5", 8)}, pc
    return {"k": k, "pos": pos}, pc                    # uniTransferOut / uniTransferIn


LP_VAULT_KINDS = ("openMint", "depositUni", "withdrawUni", "liquidate", "update", "reduceDebt", "burnWithdraw", "deposit")


def gen_lp_vault_op(rng, world, state):
    """a vault operation for the interleaved stream: the mix of `gen_op` restricted to the vault side, with an LP position handed in as
    collateral more often (a free one mostly; a lent or unknown one as gen_op already does)"""
    for _ in range(8):
        op, argc = gen_op(rng, world, state)
        if op["k"] in LP_VAULT_KINDS:
            break
    if op["k"] == "openMint" and op.get("pos") is None and rng.random() < 0.5:
        _, _, free, _ = _pos_classes(state)
        if free:
            op = dict(op, pos=rng.choice(free))
            argc += "+lp"
    return op, argc


TRADE_CLASSES = ["part", "part", "part", "part", "all", "dust-over", "over", "zero", "negative", "tiny"]


def gen_trade(rng, world, k, cls=None, form=None):
    """buy_squeeth / sell_squeeth: mostly-valid amounts in both parameter forms (oSQTH amount, ETH amount, both, neither), the exact wallet
    balance, a hair more, far more, zero, negative.  `part/all/over` are relative to what the wallet can pay: for a buy the WETH balance
    (cost = oSQTH · pool price / (1 − fee)), for a sell the oSQTH balance."""
    cls = cls or rng.choice(TRADE_CLASSES)
    form = form or rng.choice(["osqth", "osqth", "eth", "eth", "both", "none"])
    bal_w = world.broker.get_token_balance(world.weth) if world.weth in world.broker.assets else D(0)
    bal_o = world.broker.get_token_balance(world.osqth) if world.osqth in world.broker.assets else D(0)
    price = D(world.env["uniPrice"])
    fee = world.uni.pool_info.fee_rate
    row_o = world.cur()[2]
    if k == "buy":
        full = bal_w * (1 - fee) / price if price > 0 else D(1)         # oSQTH that costs the whole WETH balance
    else:
        full = bal_o
    if full == 0 and cls in ("part", "all", "dust-over"):
        full = D(1)
    amt = {"part": full * D(str(round(rng.uniform(0.02, 0.95), 4))), "all": full, "dust-over": full * D("1.000001"), "over": full * 2 + 1,
           "zero": D(0), "negative": -dec(rng, "0.1", 3, 3), "tiny": D("1E-18")}[cls]
    if rng.random() < 0.5:
        amt = q(amt, 12)
    eth = amt * row_o                                                    # the wrapper divides by the squeeth row's oSQTH price
    op = {"k": k, "osqth": None, "eth": None, "call": rng.choice(["kw", "kw", "pos", "kw-given"])}
    if form == "osqth":
        op["osqth"] = amt
    elif form == "eth":
        op["eth"] = eth
        if op["call"] == "pos":
            op["call"] = "kw"                                            # a lone ETH amount cannot be passed positionally
    elif form == "both":
        op["osqth"], op["eth"] = amt, dec(rng, 0, 50, 4)                 # the oSQTH amount wins, the ETH amount is ignored
    return op, f"{form}:{cls}"


def parse_spec(s):
    return {"wallet": [[n, D(str(b))] for n, b in s["wallet"]],
            "vaults": [[int(k), {"coll": D(str(v["coll"])), "short": D(str(v["short"])), "nft": None if v["nft"] is None else [int(x) for x in v["nft"]]}] for k, v in s["vaults"]],
            "maxId": int(s["maxId"]),
            "positions": [[[int(k[0]), int(k[1])], {"liquidity": int(p["liquidity"]), "p0": D(str(p["p0"])), "p1": D(str(p["p1"])), "transferred": bool(p["transferred"])}] for k, p in s["positions"]]}


def parse_env(e):
    r = {"rows": [[int(r[0]), D(str(r[1])), D(str(r[2])), D(str(r[3]))] for r in e["rows"]], "now": None if e["now"] is None else int(e["now"]),
         "cur": [D(str(x)) for x in e["cur"]], "uniPrice": D(str(e["uniPrice"])), "uniOpen": bool(e["uniOpen"]), "kind": e.get("kind", "")}
    if e.get("flip"):
        r["flip"] = True
    if e.get("fee") is not None:
        r["fee"] = str(e["fee"])
    return r


def parse_op(o):
    r = dict(o)
    for f in ("deposit", "mint", "eth", "burn", "withdraw", "byRate", "osqth", "base", "quote", "max0", "max1", "a0", "a1"):
        if f in r and r[f] is not None:
            r[f] = D(str(r[f]))
    return r
