"""Shared helpers of builder `core` (C02, C05, C18): a small in-memory Market subclass, a real Actuator built around it,
and a call-trace recorder.  Nothing here touches /repo; the progress bar of the bar loop is replaced by a silent stand-in.
"""
from __future__ import annotations

import json
import logging
from datetime import datetime, timedelta
from decimal import Decimal

import pandas as pd

EPOCH = datetime(2023, 5, 1)          # a midnight: model times are seconds since EPOCH


def sec(t) -> int:
    """datetime / Timestamp -> model time"""
    if isinstance(t, pd.Timestamp):
        t = t.to_pydatetime()
    d = t - EPOCH
    return d.days * 86400 + d.seconds


def at(s: int) -> datetime:
    return EPOCH + timedelta(seconds=s)


class _NoBar:
    def __init__(self, *a, **k):
        pass

    def __enter__(self):
        return self

    def __exit__(self, *a):
        return False

    def update(self, *a, **k):
        pass

    def set_description(self, *a, **k):
        pass


_ready = False


def setup():
    """import demeter, silence logging and tqdm (UI only)"""
    global _ready
    if _ready:
        return
    import demeter  # noqa: F401
    import demeter.core.actuator as act
    act.tqdm = _NoBar
    logging.disable(logging.CRITICAL)
    _ready = True


def make_market_class():
    setup()
    from dataclasses import dataclass
    from demeter.broker import Market, MarketBalance, BaseAction, ActionTypeEnum, write_func

    @dataclass
    class ProbeAction(BaseAction):
        """the least a market's action record must be: a BaseAction that names its type"""

        def set_type(self):
            self.action_type = ActionTypeEnum.general_swap

    # Actuator.save_result pickles the action list (the handler of a RuntimeError that leaves the bar loop calls it): the class must be
    # importable by name
    ProbeAction.__qualname__ = "ProbeAction"
    globals()["ProbeAction"] = ProbeAction

    class ProbeMarket(Market):
        """the Market base class with the least a concrete market must add: a data frame with one column `x`
        (= model time of the row, so the row a status was read from is identifiable), one gated operation, an update
        that may record actions"""

        def __init__(self, info, data, rec, mid):
            super().__init__(info, data)
            self.rec = rec
            self.mid = mid
            self.net = Decimal(0)
            self.update_script = {}        # model time of the bar -> [tags] recorded by update()
            self.accrue = False            # C02: the market's value depends on the data of every bar (column v)
            self.sparse = False            # _resample drops the bins without a row, as DeribitOptionMarket._resample does (a hole stays a hole)
            self.strict = False            # set_market_status looks the row up unguarded (`self._data.loc[timestamp]`), as every real market class but
                                           # DeribitOptionMarket does: KeyError on a bar the frame has no row for

        def check_market(self):
            if self._data.index.nlevels > 1:      # a book: DeribitOptionMarket.check_market only asks for a DataFrame
                return
            super().check_market()

        def update(self):
            now = sec(self.rec.actuator._currents.timestamp)
            self.rec.ev(["update", now, self.mid])
            if self.accrue and self.is_open:
                st = self._market_status.data
                if st is not None and len(st) and not pd.isna(st["v"]):
                    self.net += Decimal(int(st["v"])) / 1000
            for tag in self.update_script.get(now, []):
                a = ProbeAction(market=self.market_info)
                a.comment = tag
                self._record_action(a)
                self.rec.ev(["uact", now, self.mid, tag])

        def set_market_status(self, data, price):
            super().set_market_status(data, price)
            src = None
            if data.data is None:
                if self.strict or data.timestamp in self._data.index:
                    row = self._data.loc[data.timestamp]
                    data.data = row
                    x = row["x"].iloc[0] if isinstance(row, pd.DataFrame) else row["x"]      # a book: several rows per timestamp
                    if not pd.isna(x):
                        src = int(x)
                else:
                    data.data = pd.Series(dtype=object)
            self._market_status = data
            stage = 0 if not self.rec.initialized else (2 if self.rec.second else 1)
            self.rec.ev(["set", sec(data.timestamp), self.mid, stage, bool(self.is_open), src])

        def get_market_balance(self):
            return MarketBalance(self.net)

        @property
        def description(self):
            return None

        def formatted_str(self):
            return ""

        def _resample(self, freq):
            if self._data.index.nlevels > 1:     # a book (one row per instrument and timestamp): every instrument resampled like a plain frame
                # (every bin from its first to its last row; DeribitOptionMarket additionally drops the empty bins — its own model's subject)
                r = self._data.groupby(level=1).resample(freq, level=0).first()
                self._data = (r.dropna(how="all") if self.sparse else r).swaplevel(1, 0).sort_index()
            else:
                r = self._data.resample(freq).first()
                self._data = r.dropna(how="all") if self.sparse else r

        @write_func
        def op(self, tag, ok=True, amount=None):
            if not ok:
                raise ValueError("market refuses " + tag)
            if amount is not None:
                self.net += amount
            a = ProbeAction(market=self.market_info)
            a.comment = tag
            self._record_action(a)

        def free_op(self, tag, ok=True):
            """an operation that is not a write_func (like UniLpMarket.buy): not gated by is_open, no has_update"""
            if not ok:
                raise ValueError("market refuses " + tag)
            a = ProbeAction(market=self.market_info)
            a.comment = tag
            self._record_action(a)

    return ProbeMarket


class HookError(Exception):
    """an exception class of the strategy's own, not a RuntimeError"""


class HookRuntimeError(RuntimeError):
    """a RuntimeError subclass raised by a hook (DemeterError is one too)"""


def hook_exception(name):
    """the exception a scripted hook raises: by class name"""
    if name == "DemeterError":
        from demeter._typing import DemeterError
        return DemeterError("raised by a hook")
    return {"HookError": HookError, "HookRuntimeError": HookRuntimeError, "ValueError": ValueError, "KeyError": KeyError,
            "IndexError": IndexError, "TypeError": TypeError}[name]("raised by a hook")


class Recorder:
    def __init__(self):
        self.events = []
        self.actuator = None
        self.second = False
        self.initialized = False      # set by the strategy's initialize(): refreshes before it are stage 0

    def ev(self, e):
        self.events.append(e)


def frame(times, rows=1):
    """data frame of a probe market: index = the given model times, x = the time itself; rows > 1: a book with `rows` rows per timestamp
    under a (time, instrument) index, as a Deribit option frame has"""
    if rows > 1:
        idx = pd.MultiIndex.from_tuples([(at(t), f"I{j:03d}") for t in times for j in range(rows)], names=["time", "instrument_name"])
        return pd.DataFrame({"x": [int(t) for t in times for _ in range(rows)]}, index=idx)
    return pd.DataFrame({"x": [int(t) for t in times]}, index=pd.DatetimeIndex([at(t) for t in times]))


def price_frame(times):
    """price of the quote token: 1 + t/10^9 (exact in Decimal), so the source row of a resampled price is identifiable"""
    return pd.DataFrame({"USDC": [Decimal(1) + Decimal(int(t)) / Decimal(10 ** 9) for t in times]},
                        index=pd.DatetimeIndex([at(t) for t in times]))


def price_src(v):
    """inverse of price_frame's encoding; None for NaN"""
    if v is None or (isinstance(v, float) and v != v):
        return None
    d = (Decimal(v) - 1) * Decimal(10 ** 9)
    return int(d)


def uni_market(name, times, rec, mid):
    """a real UniLpMarket over a synthetic flat pool on the given minutes, its set_market_status / update wrapped so that the
    calls appear in the trace like a probe market's; `op(tag, ok)` = a small real buy (accepted) or an impossible one (refused)"""
    from demeter import MarketInfo, TokenInfo
    from demeter.uniswap import UniV3Pool, UniLpMarket
    usdc, eth = TokenInfo("usdc", 6), TokenInfo("eth", 18)
    pool = UniV3Pool(token0=usdc, token1=eth, fee=0.05, quote_token=usdc)
    n = len(times)
    index = pd.DatetimeIndex([at(t) for t in times])
    df = pd.DataFrame(index=index)
    df["netAmount0"] = [0] * n
    df["netAmount1"] = [0] * n
    for c in ("closeTick", "openTick", "lowestTick", "highestTick"):
        df[c] = pd.Series([200000] * n, index=index, dtype="int64")
    for c in ("inAmount0", "inAmount1"):
        df[c] = pd.Series([Decimal(0)] * n, index=index, dtype=object)
    df["currentLiquidity"] = pd.Series([Decimal(10 ** 18)] * n, index=index, dtype=object)
    m = UniLpMarket(MarketInfo(name), pool)
    m.add_statistic_column(df)
    m.data = df
    real_set, real_update = m.set_market_status, m.update

    def set_market_status(data, price):
        real_set(data, price)
        stage = 0 if not rec.initialized else (2 if rec.second else 1)
        rec.ev(["set", sec(data.timestamp), mid, stage, bool(m.is_open), sec(data.timestamp)])

    def update():
        rec.ev(["update", sec(rec.actuator._currents.timestamp), mid])
        real_update()

    def op(tag, ok=True, amount=None):
        # a write_func: add a little liquidity around the current price (refused: the wallet cannot cover it)
        p = m.market_status.data.price
        amt = Decimal("0.001") if ok else Decimal(10 ** 12)
        m.add_liquidity(p * Decimal("0.9"), p * Decimal("1.1"), amt, amt * p)
        rec.actuator.comment_last_action(tag)

    def free_op(tag, ok=True):
        # not a write_func
        m.buy(Decimal("0.001") if ok else Decimal(10 ** 12))
        rec.actuator.comment_last_action(tag)
    m.set_market_status, m.update, m.op, m.free_op, m.mid = set_market_status, update, op, free_op, mid
    m.update_script = {}
    return m, usdc, eth


def build(markets, price_times, interval="1min", rec=None):
    """real Actuator + Broker.  markets = [(name, [model times], has_open_callback)] (probe markets) or
    (name, times, has_open_callback, "uni") for a real UniLpMarket"""
    setup()
    from demeter import Actuator, MarketInfo, TokenInfo
    PM = make_market_class()
    rec = rec or Recorder()
    usdc = TokenInfo("usdc", 6)
    a = Actuator()
    rec.actuator = a
    ms = []
    eth = None
    for i, spec in enumerate(markets):
        name, times, has_open = spec[0], spec[1], spec[2]
        if len(spec) > 3 and spec[3] == "uni":
            m, usdc_u, eth = uni_market(name, times, rec, i)
            usdc = usdc_u
        else:
            m = PM(MarketInfo(name), frame(times, spec[4] if len(spec) > 4 else 1), rec, i)
            m.quote_token = usdc
            m.sparse = bool(spec[5]) if len(spec) > 5 else False
            m.strict = bool(spec[6]) if len(spec) > 6 else False
        if has_open:
            m.open = (lambda mid: lambda snap: rec.on_open(mid, snap))(i)
        a.broker.add_market(m)
        ms.append(m)
    for m in ms:
        m.quote_token = usdc
    a.broker.set_balance(usdc, 100000)
    pf = price_frame(price_times)
    if eth is not None:
        a.broker.set_balance(eth, 10)
        pf["ETH"] = Decimal(2065)
    a.set_price(pf, usdc)
    a.interval = interval
    # the two refreshes of a bar differ only in the private flag; wrap the method to see which one is running
    inner = a._Actuator__set_market_snapshot

    def wrapped(timestamp, update=False):
        rec.second = bool(update)
        try:
            return inner(timestamp, update)
        finally:
            rec.second = False
    a._Actuator__set_market_snapshot = wrapped
    return a, ms, rec


def kw_str(kw: dict) -> str:
    return json.dumps(kw, sort_keys=True, separators=(",", ":"))
