"""Shared helpers of builder `core` (C02, C05, C18): a small in-memory Market subclass, a real Actuator built around it,
and a call-trace recorder.  Nothing here touches /repo; the progress bar of the bar loop is replaced by a silent stand-in.
"""
from __future__ import annotations

import json
import logging
from datetime import datetime, timedelta
from decimal import Decimal

import pandas as pd

EPOCH = datetime(2023, 5, 1)          # a midnight: model times are seconds since EPOCH


def sec(t) -> int:
    """datetime / Timestamp -> model time"""
    if isinstance(t, pd.Timestamp):
        t = t.to_pydatetime()
    d = t - EPOCH
    return d.days * 86400 + d.seconds


def at(s: int) -> datetime:
    return EPOCH + timedelta(seconds=s)


class _NoBar:
    def __init__(self, *a, **k):
        pass

    def __enter__(self):
        return self

    def __exit__(self, *a):
        return False

    def update(self, *a, **k):
        pass

    def set_description(self, *a, **k):
        pass


_ready = False


def setup():
    """import demeter, silence logging and tqdm (UI only)"""
    global _ready
    if _ready:
        return
    import demeter  # noqa: F401
    import demeter.core.actuator as act
    act.tqdm = _NoBar
    logging.disable(logging.CRITICAL)
    _ready = True


def make_market_class():
    setup()
    from dataclasses import dataclass
    from demeter.broker import Market, MarketBalance, BaseAction, ActionTypeEnum, write_func

    @dataclass
    class ProbeAction(BaseAction):
        """the least a market's action record must be: a BaseAction that names its type"""

        def set_type(self):
            self.action_type = ActionTypeEnum.general_swap

    class ProbeMarket(Market):
        """the Market base class with the least a concrete market must add: a data frame with one column `x`
        (= model time of the row, so the row a status was read from is identifiable), one gated operation, an update
        that may record actions"""

        def __init__(self, info, data, rec, mid):
            super().__init__(info, data)
            self.rec = rec
            self.mid = mid
            self.net = Decimal(0)
            self.update_script = {}        # model time of the bar -> [tags] recorded by update()

        def check_market(self):
            super().check_market()

        def update(self):
            now = sec(self.rec.actuator._currents.timestamp)
            self.rec.ev(["update", now, self.mid])
            for tag in self.update_script.get(now, []):
                a = ProbeAction(market=self.market_info)
                a.comment = tag
                self._record_action(a)
                self.rec.ev(["uact", now, self.mid, tag])

        def set_market_status(self, data, price):
            super().set_market_status(data, price)
            src = None
            if data.data is None:
                if data.timestamp in self._data.index:
                    row = self._data.loc[data.timestamp]
                    data.data = row
                    if not pd.isna(row["x"]):
                        src = int(row["x"])
                else:
                    data.data = pd.Series(dtype=object)
            self._market_status = data
            stage = 0 if not self.rec.initialized else (2 if self.rec.second else 1)
            self.rec.ev(["set", sec(data.timestamp), self.mid, stage, bool(self.is_open), src])

        def get_market_balance(self):
            return MarketBalance(self.net)

        @property
        def description(self):
            return None

        def formatted_str(self):
            return ""

        def _resample(self, freq):
            self._data = self._data.resample(freq).first()

        @write_func
        def op(self, tag, ok=True):
            if not ok:
                raise ValueError("market refuses " + tag)
            a = ProbeAction(market=self.market_info)
            a.comment = tag
            self._record_action(a)

    return ProbeMarket


class Recorder:
    def __init__(self):
        self.events = []
        self.actuator = None
        self.second = False
        self.initialized = False      # set by the strategy's initialize(): refreshes before it are stage 0

    def ev(self, e):
        self.events.append(e)


def frame(times):
    """data frame of a probe market: index = the given model times, x = the time itself"""
    return pd.DataFrame({"x": [int(t) for t in times]}, index=pd.DatetimeIndex([at(t) for t in times]))


def price_frame(times):
    """price of the quote token: 1 + t/10^9 (exact in Decimal), so the source row of a resampled price is identifiable"""
    return pd.DataFrame({"USDC": [Decimal(1) + Decimal(int(t)) / Decimal(10 ** 9) for t in times]},
                        index=pd.DatetimeIndex([at(t) for t in times]))


def price_src(v):
    """inverse of price_frame's encoding; None for NaN"""
    if v is None or (isinstance(v, float) and v != v):
        return None
    d = (Decimal(v) - 1) * Decimal(10 ** 9)
    return int(d)


def build(markets, price_times, interval="1min", rec=None):
    """real Actuator + Broker with probe markets.  markets = [(name, [model times], has_open_callback)]"""
    setup()
    from demeter import Actuator, MarketInfo, TokenInfo
    PM = make_market_class()
    rec = rec or Recorder()
    usdc = TokenInfo("usdc", 6)
    a = Actuator()
    rec.actuator = a
    ms = []
    for i, (name, times, has_open) in enumerate(markets):
        m = PM(MarketInfo(name), frame(times), rec, i)
        m.quote_token = usdc
        if has_open:
            m.open = (lambda mid: lambda snap: rec.on_open(mid, snap))(i)
        a.broker.add_market(m)
        ms.append(m)
    a.broker.set_balance(usdc, 1000)
    a.set_price(price_frame(price_times), usdc)
    a.interval = interval
    # the two refreshes of a bar differ only in the private flag; wrap the method to see which one is running
    inner = a._Actuator__set_market_snapshot

    def wrapped(timestamp, update=False):
        rec.second = bool(update)
        try:
            return inner(timestamp, update)
        finally:
            rec.second = False
    a._Actuator__set_market_snapshot = wrapped
    return a, ms, rec


def kw_str(kw: dict) -> str:
    return json.dumps(kw, sort_keys=True, separators=(",", ":"))
