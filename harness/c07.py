"""C07 — liquidity/amount math (liquitidy_math.get_liquidity/get_amounts, V3CoreLib.new_position/close_position)."""
from __future__ import annotations

from decimal import Decimal
from fractions import Fraction

from common import Ctx, driver_batch, fmt, rel_close
import uni_common as U

PROPERTY = "C07"
LEAN_MODULES = ["Proofs.C07", "Proofs.C07.Round", "Proofs.C07.Wei", "Proofs.C07.Maximal", "Proofs.C07.Token", "Proofs.C07.RoundTrip",
                "Proofs.C07.RoundTripMarket", "Proofs.C07.Ticks"]
RULE = ("random (sqrt price, tick pair, decimals in {6,8,18}^2, offered amounts 0..1e12 tokens) with a boundary stream (price exactly on a "
        "range bound, ranges touching MIN/MAX tick, the full range at every spacing, ranges and prices beyond |tick| = 2^19, equal ticks, reversed "
        "ticks, zero amounts) and a magnitude stream (1e9..1e12 tokens of an 18-decimal token into 1..200-tick ranges, where liquidity has 36..50 "
        "digits); sqrt prices of ticks come from a protocol reference, not from the code; a purity stream re-asks V3CoreLib the same "
        "(range, price, liquidity) with every decimals pair, forwards and backwards, and repeats earlier questions at the end of the run; "
        "buckets = (stream, regime below/inside/above/on-bound, decimals pair, amount class, tick band)")
TRUSTED = ["theorems are stated for the exact rational semantics; the 35-digit Decimal rounding of get_amount0/1 is reproduced bit-exactly by the driver "
           "and bounded by the 1e-30 tolerance the property names",
           "the protocol reference for the sqrt price of a tick (uni_common.ref_sqrt_ratio_at_tick) is a hand copy of TickMath.sol, self-checked against "
           "the protocol's boundary values and C06's closeness bound on every single-bit tick"]
ASSUMPTIONS = ["Decimal arithmetic = exact result rounded half-even to 35 digits"]

MIN_TICK, MAX_TICK = -887272, 887272
TOL = Fraction(1, 10 ** 30)


def gen_case(rng, g, stream="random"):
    """`g` is the protocol reference (never the code under test)"""
    d0, d1 = rng.choice((6, 8, 18)), rng.choice((6, 8, 18))
    kind = rng.random()
    if stream == "magnitude":
        # huge amounts into narrow ranges anywhere in the tick range: liquidity of 36..50 digits, products far beyond 35 digits
        d0, d1 = rng.choice(((18, 18), (18, 18), (18, 6), (6, 18), (18, 8)))
        c = rng.randint(-600000, 600000)
        w = rng.choice((1, 2, 10, 60, 200))
        ta, tb = c - rng.randint(1, w), c + rng.randint(1, w)
    elif kind < 0.06:
        ta, tb = MIN_TICK, rng.randint(MIN_TICK + 1, MAX_TICK)
    elif kind < 0.12:
        ta, tb = rng.randint(MIN_TICK, MAX_TICK - 1), MAX_TICK
    elif kind < 0.18:
        # the full range as a pool of that spacing offers it, or a range hugging one end
        sp = rng.choice((1, 10, 60, 200))
        lo_end, hi_end = -(MAX_TICK // sp) * sp, (MAX_TICK // sp) * sp
        ta, tb = rng.choice(((lo_end, hi_end), (lo_end, lo_end + sp * rng.randint(1, 500)), (hi_end - sp * rng.randint(1, 500), hi_end)))
    elif kind < 0.22:
        ta = tb = rng.randint(MIN_TICK, MAX_TICK)
    else:
        c = rng.randint(-400000, 400000) if rng.random() < 0.7 else rng.randint(MIN_TICK, MAX_TICK)
        w = rng.choice((1, 10, 60, 200, 2000, 20000, 200000))
        ta, tb = max(MIN_TICK, c - rng.randint(1, w)), min(MAX_TICK, c + rng.randint(1, w))
    if rng.random() < 0.1:
        ta, tb = tb, ta
    lo, hi = min(ta, tb), max(ta, tb)
    r = rng.random()
    if r < 0.12:
        s, reg = g(lo), "on-lower"
    elif r < 0.24:
        s, reg = g(hi), "on-upper"
    elif r < 0.4:
        t = rng.randint(max(MIN_TICK, lo - 5000), lo)
        s, reg = rng.randint(g(t), g(lo)), "below"
    elif r < 0.56:
        t = rng.randint(hi, min(MAX_TICK, hi + 5000))
        s, reg = rng.randint(g(hi), g(t)), "above"
    else:
        s, reg = (rng.randint(g(lo), g(hi)) if lo < hi else g(lo)), "inside"
    if reg == "inside" and lo < hi:
        if s == g(lo):
            reg = "on-lower"
        elif s == g(hi):
            reg = "on-upper"

    def amt():
        k = rng.random()
        if stream == "magnitude":
            return (Decimal(rng.randint(10 ** 9, 10 ** 12)) + Decimal(rng.randint(0, 10 ** 18)) / Decimal(10 ** 18) if k < 0.8 else Decimal(10 ** 12)), "huge"
        if k < 0.1:
            return Decimal(0), "zero"
        if k < 0.2:
            return Decimal(rng.randint(1, 999)) / Decimal(10 ** rng.choice((6, 8, 18))), "tiny"
        if k < 0.3:
            return Decimal(10 ** 12), "max"
        if k < 0.33:
            # more than 35 significant digits, just below a whole number of wei: `amount * 10**decimals` is ROUNDED by the context before
            # int() truncates it (theorem C07_toWei_rounds_up_beyond35: to_wei(Decimal('0.' + '9'*37), 6) = 1000000)
            whole = rng.choice((0, rng.randint(0, 10 ** 6)))
            tail = "9" * rng.randint(30, 45) if rng.random() < 0.6 else "".join(rng.choice("0123456789") for _ in range(rng.randint(36, 45)))
            return Decimal(f"{whole}.{tail}"), "long"
        e = rng.randint(-6, 12)
        m = Decimal(rng.randint(1, 10 ** rng.randint(1, 24)))
        v = (m / Decimal(10 ** (len(str(m)) - 1))) * (Decimal(10) ** e)
        return min(v, Decimal(10 ** 12)), "mid"
    (a0, c0), (a1, c1) = amt(), amt()
    band = "far" if max(abs(ta), abs(tb)) >= 1 << 19 else "near"      # bit 19 of |tick| set: the last factor of the TickMath product
    return dict(s=s, ta=ta, tb=tb, d0=d0, d1=d1, a0=a0, a1=a1, reg=reg, c0=c0, c1=c1, band=band, stream=stream)


def closed_form(s, sa, sb, L, d0, d1):
    """the closed-form Uniswap v3 amounts of liquidity L in [sa, sb] at sqrt price s (Q96 integers), in tokens"""
    Q = 2 ** 96
    if s <= sa:
        c0f, c1f = Fraction(L * Q * (sb - sa), sa * sb), Fraction(0)
    elif s < sb:
        c0f, c1f = Fraction(L * Q * (sb - s), s * sb), Fraction(L * (s - sa), Q)
    else:
        c0f, c1f = Fraction(0), Fraction(L * (sb - sa), Q)
    return c0f / 10 ** d0, c1f / 10 ** d1


DEC_PAIRS = [(a, b) for a in (6, 8, 18) for b in (6, 8, 18)]


def purity_stream(ctx, lm, core, pool_cls, tok_cls, rng, n):
    """the functions are pure: the answer to a question does not depend on what was asked before.  One coordinate of a question is varied
    with everything else fixed — the decimals pair over {6,8,18}^2 in a random order and then backwards, then the liquidity, then the price —
    through V3CoreLib.get_token_amounts / close_position / new_position and liquitidy_math.get_amounts; all earlier questions are asked again,
    last first, at the end of the run.  Every answer is held to the closed form."""
    from demeter.uniswap._typing import PositionInfo
    g = U.ref_sqrt_ratio_at_tick
    asked = []

    def ask(via, d0, d1, ta, tb, s, L, phase):
        pool = pool_cls(tok_cls("A", d0), tok_cls("B", d1), 0.05, tok_cls("A", d0))
        info = PositionInfo(lower_tick=ta, upper_tick=tb)
        rep = {"kind": "purity", "via": via, "d0": d0, "d1": d1, "ta": ta, "tb": tb, "s": str(s), "L": str(L), "phase": phase,
               "asked_before": [[q[0], q[1], q[2]] for q in asked[-12:]]}
        try:
            if via == "get_token_amounts":
                got = core.V3CoreLib.get_token_amounts(pool, info, s, L)
            elif via == "close_position":
                got = core.V3CoreLib.close_position(pool, info, L, s)
            else:
                got = lm.get_amounts(s, ta, tb, L, d0, d1)
        except Exception as e:  # noqa: BLE001
            ctx.violate(f"purity.{via}.raises.{type(e).__name__}", f"{via} raised {type(e).__name__} for liquidity {L} in [{ta},{tb}] at {s}, decimals {d0},{d1}", rep)
            return
        e0, e1 = closed_form(s, g(ta), g(tb), L, d0, d1)
        ctx.case(f"purity:{via}:{phase}:{d0},{d1}")
        if not (rel_close(Fraction(got[0]), e0, TOL) and rel_close(Fraction(got[1]), e1, TOL)):
            ctx.violate(f"purity.{via}.{phase}", f"{via}(decimals {d0},{d1}, range [{ta},{tb}], sqrt price {s}, liquidity {L}) = ({got[0]}, {got[1]}), closed form "
                        f"({float(e0):.12g}, {float(e1):.12g}); asked {phase} (same range / price / liquidity asked before with other arguments)", rep)

    for _ in range(n):
        c = gen_case(rng, g)
        ta, tb = sorted((c["ta"], c["tb"]))
        if ta == tb:
            continue
        s = c["s"]
        L = rng.randint(1, 10 ** rng.randint(3, 30))
        order = DEC_PAIRS[:]
        rng.shuffle(order)
        via = rng.choice(("get_token_amounts", "close_position", "get_amounts"))
        for d0, d1 in order:
            ask(via, d0, d1, ta, tb, s, L, "decimals-sweep")
        for d0, d1 in reversed(order):
            ask(via, d0, d1, ta, tb, s, L, "decimals-sweep-back")
        d0, d1 = order[0]
        for L2 in (L * 10, L + 1, L):
            ask(via, d0, d1, ta, tb, s, L2, "liquidity-sweep")
        for s2 in (g(ta), g(tb), (g(ta) + g(tb)) // 2, s):
            ask(via, d0, d1, ta, tb, s2, L, "price-sweep")
        asked.append((via, order[0], order[-1], ta, tb, s, L))
    for via, da, db, ta, tb, s, L in reversed(asked):
        ask(via, db[0], db[1], ta, tb, s, L, "asked-again")
        ask(via, da[0], da[1], ta, tb, s, L, "asked-again")


def check_case(ctx, lm, core, pool_cls, tok_cls, c, reqs):
    g = U.ref_sqrt_ratio_at_tick          # the protocol's value, not the code's
    s, ta, tb, d0, d1, a0, a1 = c["s"], c["ta"], c["tb"], c["d0"], c["d1"], c["a0"], c["a1"]
    rep = {k: (fmt(v) if isinstance(v, Decimal) else v) for k, v in c.items()}
    rep["s"] = str(s)
    key = f"{c.get('stream', 'random')}:{c['reg']}:{d0},{d1}:{c['c0']}/{c['c1']}:{c.get('band', '-')}"
    try:
        L = lm.get_liquidity(s, ta, tb, a0, a1, d0, d1)
        outcome = "ok"
    except Exception as e:  # noqa: BLE001
        L, outcome = None, type(e).__name__
    ctx.case(f"{key}:{outcome}", rep)
    reqs.append((rep, "L", f"getLiquidity py {s} {ta} {tb} {fmt(a0)} {fmt(a1)} {d0} {d1}", str(L) if L is not None else "ERR " + outcome))
    if L is None:
        if ta != tb:
            ctx.violate(f"get_liquidity.raises.{outcome}", f"get_liquidity raised {outcome} on distinct ticks {ta},{tb}", rep)
        return
    sa, sb = sorted((g(ta), g(tb)))
    for t in (ta, tb):
        try:
            v = lm.get_sqrt_ratio_at_tick(t)
        except Exception as e:  # noqa: BLE001
            v = type(e).__name__
        if v != g(t):
            ctx.violate(f"bound-sqrt-price.{c.get('band', '-')}", f"the sqrt price of range bound {t} is {v}, the protocol's TickMath gives {g(t)}: amounts and liquidity "
                        f"of [{ta},{tb}] are computed for another range", rep)
    try:
        used0, used1 = lm.get_amounts(s, ta, tb, L, d0, d1)
    except Exception as e:  # noqa: BLE001
        ctx.violate(f"get_amounts.raises.{type(e).__name__}", f"get_amounts raised {type(e).__name__} for liquidity {L} in [{ta},{tb}] at {s}", rep)
        return
    reqs.append((rep, "A", f"getAmounts py {s} {ta} {tb} {L} {d0} {d1}", f"{fmt(Decimal(used0))} {fmt(Decimal(used1))}"))
    u0, u1 = Fraction(used0), Fraction(used1)
    f0, f1 = Fraction(a0), Fraction(a1)
    w0, w1 = int(a0 * 10 ** d0), int(a1 * 10 ** d1)
    # --- no over-spend
    if u0 > f0 * (1 + TOL) or u1 > f1 * (1 + TOL):
        ctx.violate("overspend", f"liquidity {L} needs ({used0}, {used1}) but only ({a0}, {a1}) was offered", rep)
    # --- non-negative, one-sided
    if u0 < 0 or u1 < 0 or L < 0:
        ctx.violate("negative", f"negative amount or liquidity: L={L} used=({used0},{used1})", rep)
    if s <= sa and u1 != 0:
        ctx.violate("one-sided.below", f"price at/below the range but token1 amount {used1} != 0", rep)
    if s >= sb and u0 != 0:
        ctx.violate("one-sided.above", f"price at/above the range but token0 amount {used0} != 0", rep)
    if sa < s < sb and L > 0 and not (u0 > 0 and u1 > 0):
        ctx.violate("one-sided.inside", f"price inside the range, L={L} > 0, but amounts ({used0},{used1}) are not both positive", rep)
    # --- maximality: real-valued maximum minus L <= 1 + offered0wei / (sb - sa)
    if sa < sb:
        Q = 2 ** 96
        if s <= sa:
            real = Fraction(w0 * sa * sb, Q * (sb - sa))
            slack = 1 + Fraction(w0, sb - sa)
        elif s < sb:
            r0 = Fraction(w0 * s * sb, Q * (sb - s))
            r1 = Fraction(w1 * Q, s - sa)
            real = min(r0, r1)
            slack = 1 + Fraction(w0, sb - s)
        else:
            real = Fraction(w1 * Q, sb - sa)
            slack = Fraction(1)
        if not (0 <= real - L <= slack):
            ctx.violate("maximal", f"liquidity {L} is not maximal: real-valued maximum {float(real):.6g}, allowed slack {float(slack):.6g}", rep)
        # --- one more unit of liquidity over-spends (C07_succ_overspends): L+1 needs more token1 than offered, or more token0 than
        #     offered0 * (1 - 2^96/(lo*sb)) -- the factor is what the floor of mul_div(sqrtA, sqrtB, 2**96) loses
        n0, n1 = closed_form(s, sa, sb, L + 1, 0, 0)
        lo_leg = sa if s <= sa else s
        over0 = n0 > w0 * (1 - Fraction(Q, lo_leg * sb))
        over1 = n1 > w1
        if not (over0 if s <= sa else ((over0 or over1) if s < sb else over1)):
            ctx.violate("maximal.succ", f"liquidity {L} + 1 would still fit the offer: needs ({float(n0):.6g}, {float(n1):.6g}) wei of ({w0}, {w1})", rep)
        # --- closed form at 1e-30 relative
        c0f, c1f = closed_form(s, sa, sb, L, d0, d1)
        if not (rel_close(u0, c0f, TOL) and rel_close(u1, c1f, TOL)):
            ctx.violate("closed-form", f"amounts ({used0},{used1}) differ from the closed-form Uniswap v3 values by more than 1e-30 relative", rep)
        ctx.dev(u0, c0f)
        ctx.dev(u1, c1f)
    try:
        # --- proportional to liquidity
        k = 7
        k0, k1 = lm.get_amounts(s, ta, tb, L * k, d0, d1)
        if not (rel_close(Fraction(k0), u0 * k, TOL) and rel_close(Fraction(k1), u1 * k, TOL)):
            ctx.violate("linear", f"amounts are not proportional to liquidity (x{k})", rep)
        # --- monotone in price
        s2 = s + max(1, s // 1000)
        if s2 <= g(MAX_TICK):
            m0, m1 = lm.get_amounts(s2, ta, tb, L, d0, d1)
            if Fraction(m0) > u0 * (1 + TOL) or Fraction(m1) < u1 * (1 - TOL):
                ctx.violate("monotone", f"raising the price from {s} to {s2} raised token0 or lowered token1", rep)
        # --- new_position / close_position round trip
        pool = pool_cls(tok_cls("A", d0), tok_cls("B", d1), 0.05, tok_cls("A", d0))
        p0, p1, pl, info = core.V3CoreLib.new_position(pool, a0, a1, ta, tb, s)
        b0, b1 = core.V3CoreLib.close_position(pool, info, pl, s)
        if pl != L or Decimal(p0) != Decimal(used0) or Decimal(p1) != Decimal(used1):
            ctx.violate("new_position", "new_position disagrees with get_liquidity/get_amounts", rep)
        if Decimal(b0) != Decimal(p0) or Decimal(b1) != Decimal(p1):
            ctx.violate("roundtrip", f"closing at the deposit price returns ({b0},{b1}) not the deposited ({p0},{p1})", rep)
    except Exception as e:  # noqa: BLE001
        ctx.violate(f"raises.{type(e).__name__}", f"get_amounts / new_position / close_position raised {type(e).__name__} where get_liquidity answered {L}", rep)


def market_stream(ctx: Ctx, rng, n):
    """the same no-over-spend clause one level up, through the market's own entry points (UniLpMarket.add_liquidity / add_liquidity_by_tick on
    a real broker wallet): whatever is offered — a fraction of the balance, the whole balance, exactly 0, or nothing (None = the balance) —
    the wallet never gives more of a token than was offered, and the amounts the call reports are what left the wallet"""
    for _ in range(n):
        w = U.World(rng)
        sp = w.pool.tick_spacing
        bb, qb = w.broker.get_token_balance(w.pool.base_token), w.broker.get_token_balance(w.pool.quote_token)
        lo = w.tick + rng.randint(-40, 12) * sp
        up = lo + rng.randint(1, 50) * sp
        regime = "below" if w.tick < lo else ("above" if w.tick >= up else "inside")

        def offer(bal):
            k = rng.random()
            if k < 0.2:
                return None, "none"
            if k < 0.4:
                return Decimal(0), "zero"
            if k < 0.5:
                return 0, "int-zero"
            return bal * Decimal(rng.choice(("0.1", "0.5", "1"))), "amount"
        (bo, bk), (qo, qk) = offer(bb), offer(qb)
        via = rng.choice(("by_tick", "by_price", "by_price_kw"))
        market_case(ctx, w, lo, up, bo, qo, via, f"{regime}:{bk}/{qk}")


def market_case(ctx, w, lo, up, bo, qo, via, tag):
    bb, qb = w.broker.get_token_balance(w.pool.base_token), w.broker.get_token_balance(w.pool.quote_token)
    regime = tag.split(":")[0]
    if True:
        fee = {"0.0001": 0.01, "0.0005": 0.05, "0.003": 0.3, "0.01": 1}.get(str(Decimal(w.pool.fee_rate).normalize()), None)
        rep = {"kind": "market", "pool": U.pool_json(w.pool), "fee": fee, "tick": w.tick, "lower": lo, "upper": up, "base": None if bo is None else str(bo),
               "quote": None if qo is None else str(qo), "via": via, "base_balance": str(bb), "quote_balance": str(qb), "tag": tag,
               "int_zero": [isinstance(bo, int), isinstance(qo, int)]}
        keys_before = set(w.market.positions.keys())
        try:
            if via == "by_tick":
                r = w.market.add_liquidity_by_tick(lo, up, bo, qo)
            else:
                p1, p2 = w.market.tick_to_price(lo), w.market.tick_to_price(up)
                r = w.market.add_liquidity(min(p1, p2), max(p1, p2), qo, bo) if via == "by_price" else \
                    w.market.add_liquidity(min(p1, p2), max(p1, p2), quote_max_amount=qo, base_max_amount=bo)
            out = "ok"
        except Exception as e:  # noqa: BLE001   (a refusal moves nothing: C04's subject; here only the accepted calls are judged)
            r, out = None, type(e).__name__
        ctx.case(f"market:{via}:{tag}:{out}", rep)
        if r is None:
            return
        sb = Fraction(bb) - Fraction(w.broker.get_token_balance(w.pool.base_token))
        sq = Fraction(qb) - Fraction(w.broker.get_token_balance(w.pool.quote_token))
        for name, spent, offered, bal, reported in (("base", sb, bo, bb, r[1]), ("quote", sq, qo, qb, r[2])):
            cap = Fraction(bal) if offered is None else Fraction(offered)
            if spent < 0 or spent > cap:
                ctx.violate(f"market.add.overspend.{name}", f"add_liquidity{'_by_tick' if via == 'by_tick' else ''}([{lo},{up}], price tick {w.tick}: {regime}) was "
                            f"offered {offered if offered is not None else 'nothing (= the balance ' + str(bal) + ')'} {name} and took {float(spent)} "
                            f"from the wallet (balance {bal})", rep)
            elif Fraction(Decimal(reported)) != spent and abs(Fraction(Decimal(reported)) - spent) > Fraction(1, 10 ** 5) * max(spent, 1):
                ctx.violate(f"market.add.reported.{name}", f"the call reports {reported} {name} used, the wallet gave {float(spent)}", rep)
        # --- round trip on the state machine (theorem C07_roundtrip_market_price): a NEW position removed with collect at the unchanged price
        #     returns exactly the (base_used, quote_used) the add reported and the wallet is credited with exactly those
        if r[0] not in keys_before:
            mb, mq = w.broker.get_token_balance(w.pool.base_token), w.broker.get_token_balance(w.pool.quote_token)
            try:
                got = w.market.remove_liquidity(r[0])
            except Exception as e:  # noqa: BLE001
                ctx.violate(f"market.roundtrip.raises.{type(e).__name__}", f"remove_liquidity of the position just added ([{lo},{up}], {regime}) raised {type(e).__name__}", rep)
                return
            ctx.count("market_roundtrips_checked")
            if Decimal(got[0]) != Decimal(r[1]) or Decimal(got[1]) != Decimal(r[2]):
                ctx.violate("market.roundtrip.amounts", f"add reported ({r[1]}, {r[2]}) used; removing at the unchanged price returns ({got[0]}, {got[1]})", rep)
            ab, aq = w.broker.get_token_balance(w.pool.base_token), w.broker.get_token_balance(w.pool.quote_token)
            if Decimal(ab) != Decimal(mb) + Decimal(r[1]) or Decimal(aq) != Decimal(mq) + Decimal(r[2]):
                ctx.violate("market.roundtrip.credit", f"after add ({r[1]}, {r[2]} used) and remove the wallet went ({mb}, {mq}) -> ({ab}, {aq})", rep)


def views_stream(ctx: Ctx, rng, n):
    """position amounts as the market reports them (get_position_amount / get_position_status / get_market_balance) after deposits made through
    the market's own entry points: both tokens inside the range, one outside, closed form at the row's price (the price deposits and withdrawals
    use — load_uni_v3_data rows carry the previous close as `price` and this bar's close as `closeTick`, which may lie beyond a range bound),
    proportional to the liquidity after a second deposit into the SAME range inside the same bar, equal to what the deposits took from the
    wallet, and equal to what a withdrawal at that price then pays"""
    for _ in range(n):
        w = U.World(rng)
        sp = w.pool.tick_spacing
        lo = w.tick + rng.randint(-40, 12) * sp
        up = lo + rng.randint(1, 50) * sp
        # where this bar closes, relative to the range (the row's price stays at w.tick)
        closing = rng.choice(("same", "same", "below", "above", "inside", "on-lower", "on-upper"))
        close = {"same": w.tick, "below": lo - rng.randint(1, 30) * sp, "above": up + rng.randint(0, 30) * sp,
                 "inside": lo + rng.randint(0, (up - lo) // sp - 1) * sp, "on-lower": lo, "on-upper": up}[closing]
        fracs = [rng.choice(("0.1", "0.25", "0.5")) for _ in range(rng.choice((1, 2, 2, 3)))]
        views_case(ctx, w, lo, up, close, closing, fracs, rng.random() < 0.6, [str(rng.randint(10 ** 12, 10 ** 24)), str(rng.randint(0, 10 ** 22)), str(rng.randint(0, 10 ** 22))])


def views_case(ctx, w, lo, up, close, closing, fracs, withdraw, row):
    from demeter.uniswap.helper import base_unit_price_to_sqrt_price_x96 as p2s
    from demeter.uniswap import PositionInfo
    g = U.ref_sqrt_ratio_at_tick
    pool, m = w.pool, w.market
    regime = "below" if w.tick < lo else ("above" if w.tick >= up else "inside")
    w.set_status(close, w.price, Decimal(row[0]), Decimal(row[1]), Decimal(row[2]))
    d0, d1 = pool.token0.decimal, pool.token1.decimal
    s = p2s(m.market_status.data.price, d0, d1, pool.is_token0_quote)
    sa, sb = g(lo), g(up)
    pos = PositionInfo(lo, up)
    steps = len(fracs)
    fee = {"0.0001": 0.01, "0.0005": 0.05, "0.003": 0.3, "0.01": 1}.get(str(Decimal(pool.fee_rate).normalize()), None)
    rep = {"kind": "views", "pool": U.pool_json(pool), "fee": fee, "tick": w.tick, "close": close, "closing": closing, "lower": lo, "upper": up, "fracs": list(fracs),
           "withdraw": withdraw, "row": list(row), "base_balance": str(w.broker.get_token_balance(pool.base_token)),
           "quote_balance": str(w.broker.get_token_balance(pool.quote_token))}
    dep = [Fraction(0), Fraction(0)]            # what the deposits took, as (token0, token1)
    ok = True
    for step, fr in enumerate(fracs):
        bb, qb = w.broker.get_token_balance(pool.base_token), w.broker.get_token_balance(pool.quote_token)
        try:
            m.add_liquidity_by_tick(lo, up, bb * Decimal(fr), qb * Decimal(fr))
        except Exception:  # noqa: BLE001  (a refusal is C04's subject)
            ok = False
            break
        sb_, sq_ = Fraction(bb) - Fraction(w.broker.get_token_balance(pool.base_token)), Fraction(qb) - Fraction(w.broker.get_token_balance(pool.quote_token))
        t0, t1 = (sq_, sb_) if pool.is_token0_quote else (sb_, sq_)
        dep[0] += t0
        dep[1] += t1
        if pos not in m.positions:
            ctx.violate("views.position-missing", f"add_liquidity_by_tick([{lo},{up}]) was accepted but the market holds no position for that range", rep)
            ok = False
            break
        L = int(m.positions[pos].liquidity)
        c0, c1 = closed_form(s, sa, sb, L, d0, d1)
        try:
            a0, a1 = m.get_position_amount(pos)
            st = m.get_position_status(pos)
            bal = m.get_market_balance()
        except Exception as e:  # noqa: BLE001
            ctx.violate(f"views.raises.{type(e).__name__}", f"reading the amounts of position [{lo},{up}] raised {type(e).__name__}: {e}"[:200], rep)
            ok = False
            break
        views = {"get_position_amount": (a0, a1), "get_position_status": (st.liquidity_amount0, st.liquidity_amount1),
                 "get_market_balance": ((bal.quote_in_position, bal.base_in_position) if pool.is_token0_quote else (bal.base_in_position, bal.quote_in_position))}
        for name, (v0, v1) in views.items():
            v0, v1 = Fraction(Decimal(v0)), Fraction(Decimal(v1))
            if not (rel_close(v0, c0, TOL) and rel_close(v1, c1, TOL)):
                ctx.violate(f"views.closed-form.{name}", f"after deposit {step + 1} into [{lo},{up}] (row price tick {w.tick}: {regime}; the bar closes at tick {close}: {closing}) "
                            f"{name} reports ({float(v0):.12g}, {float(v1):.12g}) for liquidity {L}; closed form at the row's price ({float(c0):.12g}, {float(c1):.12g})", rep)
            if (L > 0 and sa < s < sb and not (v0 > 0 and v1 > 0)) or (s <= sa and v1 != 0) or (s >= sb and v0 != 0):
                ctx.violate(f"views.one-sided.{name}", f"price {regime} the range [{lo},{up}] (the bar closes {closing}) but {name} reports ({v0}, {v1})", rep)
            # the position holds what was deposited (each deposit loses at most the rounding of its own integer amounts)
            for i, (v, d) in enumerate(((v0, dep[0]), (v1, dep[1]))):
                unit = Fraction(steps + 1, 10 ** (d0, d1)[i])
                if abs(v - d) > unit + Fraction(1, 10 ** 20) * max(d, 1):
                    ctx.violate(f"views.deposited.{name}", f"{step + 1} deposit(s) into [{lo},{up}] took {float(d):.12g} of token{i} from the wallet, {name} reports {float(v):.12g}", rep)
    if ok and withdraw:
        b0, q0 = w.broker.get_token_balance(pool.base_token), w.broker.get_token_balance(pool.quote_token)
        try:
            m.remove_liquidity(pos)
            gb, gq = Fraction(w.broker.get_token_balance(pool.base_token)) - Fraction(b0), Fraction(w.broker.get_token_balance(pool.quote_token)) - Fraction(q0)
            g0, g1 = (gq, gb) if pool.is_token0_quote else (gb, gq)
            for i, (got, d) in enumerate(((g0, dep[0]), (g1, dep[1]))):
                unit = Fraction(steps + 1, 10 ** (d0, d1)[i])
                if abs(got - d) > unit + Fraction(1, 10 ** 20) * max(d, 1):
                    ctx.violate("views.withdraw-roundtrip", f"withdrawing at the deposit price pays {float(got):.12g} of token{i}, the deposits took {float(d):.12g}", rep)
        except Exception as e:  # noqa: BLE001
            ctx.violate(f"views.remove-raises.{type(e).__name__}", f"remove_liquidity of the position just built raised {type(e).__name__}: {e}"[:200], rep)
    ctx.case(f"views:{regime}:close-{closing}:deposits{steps}:{'q0' if pool.is_token0_quote else 'q1'}:{'ok' if ok else 'refused'}", rep)


def run(ctx: Ctx):
    from demeter.uniswap import liquitidy_math as lm
    from demeter.uniswap import core
    from demeter.uniswap import UniV3Pool
    from demeter import TokenInfo

    U.ref_selfcheck()
    g = U.ref_sqrt_ratio_at_tick
    n = ctx.scale(6000, 300000)
    reqs = []
    for i in range(n):
        c = gen_case(ctx.rng, g, "magnitude" if i % 8 == 7 else "random")
        check_case(ctx, lm, core, UniV3Pool, TokenInfo, c, reqs)
    purity_stream(ctx, lm, core, UniV3Pool, TokenInfo, ctx.rng, ctx.scale(150, 5000))
    market_stream(ctx, ctx.rng, ctx.scale(400, 10000))
    views_stream(ctx, ctx.rng, ctx.scale(400, 10000))
    ctx.impl_traces = n
    if ctx.driver_ok:
        out = driver_batch([r[2] for r in reqs])
        for (rep, kind, line, want), o in zip(reqs, out):
            if kind == "A":
                ok = o == want or (not o.startswith("ERR") and all(Fraction(x) == Fraction(y) for x, y in zip(o.split(), want.split())))
            else:
                ok = o == want
            if not ok:
                ctx.disagree(f"{line}: impl {want} model {o}", rep)


def replay(ctx: Ctx, case) -> bool:
    from demeter.uniswap import liquitidy_math as lm
    from demeter.uniswap import core
    from demeter.uniswap import UniV3Pool
    from demeter import TokenInfo
    if case.get("kind") == "market":
        import random
        sub = Ctx(ctx.prop, ctx.tier, ctx.seed, False)
        pj = case["pool"]
        w = U.World(random.Random(0), pool_spec=(pj["d0"], pj["d1"], pj["q0"]), fee=case.get("fee"), tick=case["tick"],
                    balances=(Decimal(case["base_balance"]), Decimal(case["quote_balance"])))

        def amt(x, is_int):
            return None if x is None else (int(Decimal(x)) if is_int else Decimal(x))
        market_case(sub, w, case["lower"], case["upper"], amt(case["base"], case["int_zero"][0]), amt(case["quote"], case["int_zero"][1]), case["via"], case["tag"])
        return not sub.violations
    if case.get("kind") == "views":
        import random
        sub = Ctx(ctx.prop, ctx.tier, ctx.seed, False)
        pj = case["pool"]
        w = U.World(random.Random(0), pool_spec=(pj["d0"], pj["d1"], pj["q0"]), fee=case.get("fee"), tick=case["tick"],
                    balances=(Decimal(case["base_balance"]), Decimal(case["quote_balance"])))
        views_case(sub, w, case["lower"], case["upper"], case["close"], case["closing"], case["fracs"], case["withdraw"], case["row"])
        for v in sub.violations:
            print("  ", v["key"], v["what"][:300])
        return not sub.violations
    if case.get("kind") == "purity":
        # the question and the (up to 12) questions asked before it, in the recorded order
        sub = Ctx(ctx.prop, ctx.tier, ctx.seed, False)
        import random
        from demeter.uniswap._typing import PositionInfo
        g = U.ref_sqrt_ratio_at_tick
        ta, tb, s, L = case["ta"], case["tb"], int(case["s"]), int(case["L"])
        info = PositionInfo(lower_tick=ta, upper_tick=tb)
        ok = True
        for via, da, db in case.get("asked_before", []) + [[case["via"], [case["d0"], case["d1"]], [case["d0"], case["d1"]]]]:
            for d0, d1 in DEC_PAIRS + [tuple(da), tuple(db)]:
                pool = UniV3Pool(TokenInfo("A", d0), TokenInfo("B", d1), 0.05, TokenInfo("A", d0))
                got = core.V3CoreLib.get_token_amounts(pool, info, s, L) if case["via"] != "get_amounts" else lm.get_amounts(s, ta, tb, L, d0, d1)
                e0, e1 = closed_form(s, g(ta), g(tb), L, d0, d1)
                if not (rel_close(Fraction(got[0]), e0, TOL) and rel_close(Fraction(got[1]), e1, TOL)):
                    print(f"   decimals {d0},{d1}: got ({got[0]}, {got[1]}), closed form ({float(e0):.12g}, {float(e1):.12g})")
                    ok = False
        return ok
    c = dict(case)
    c["s"] = int(c["s"])
    c["a0"], c["a1"] = Decimal(c["a0"]), Decimal(c["a1"])
    sub = Ctx(ctx.prop, ctx.tier, ctx.seed, False)
    check_case(sub, lm, core, UniV3Pool, TokenInfo, c, [])
    for v in sub.violations:
        print("  ", v["key"], v["what"])
    return not sub.violations
