"""C07 — liquidity/amount math (liquitidy_math.get_liquidity/get_amounts, V3CoreLib.new_position/close_position)."""
from __future__ import annotations

from decimal import Decimal
from fractions import Fraction

from common import Ctx, driver_batch, fmt, rel_close

PROPERTY = "C07"
LEAN_MODULES = ["Proofs.C07"]
RULE = ("random (sqrt price, tick pair, decimals in {6,8,18}^2, offered amounts 0..1e12 tokens) with a boundary stream (price exactly on a "
        "range bound, ranges touching MIN/MAX tick, equal ticks, reversed ticks, zero amounts); buckets = (regime below/inside/above/on-bound, "
        "decimals pair, amount class, which side limits)")
TRUSTED = ["theorems are stated for the exact rational semantics; the 35-digit Decimal rounding of get_amount0/1 is reproduced bit-exactly by the driver "
           "and bounded by the 1e-30 tolerance the property names"]
ASSUMPTIONS = ["Decimal arithmetic = exact result rounded half-even to 35 digits"]

MIN_TICK, MAX_TICK = -887272, 887272
TOL = Fraction(1, 10 ** 30)


def gen_case(rng, g):
    d0, d1 = rng.choice((6, 8, 18)), rng.choice((6, 8, 18))
    kind = rng.random()
    if kind < 0.08:
        ta, tb = MIN_TICK, rng.randint(MIN_TICK + 1, MAX_TICK)
    elif kind < 0.16:
        ta, tb = rng.randint(MIN_TICK, MAX_TICK - 1), MAX_TICK
    elif kind < 0.2:
        ta = tb = rng.randint(MIN_TICK, MAX_TICK)
    else:
        c = rng.randint(-400000, 400000)
        w = rng.choice((1, 10, 60, 200, 2000, 20000, 200000))
        ta, tb = max(MIN_TICK, c - rng.randint(1, w)), min(MAX_TICK, c + rng.randint(1, w))
    if rng.random() < 0.1:
        ta, tb = tb, ta
    lo, hi = min(ta, tb), max(ta, tb)
    r = rng.random()
    if r < 0.12:
        s, reg = g(lo), "on-lower"
    elif r < 0.24:
        s, reg = g(hi), "on-upper"
    elif r < 0.4:
        t = rng.randint(max(MIN_TICK, lo - 5000), lo)
        s, reg = rng.randint(g(t), g(lo)), "below"
    elif r < 0.56:
        t = rng.randint(hi, min(MAX_TICK, hi + 5000))
        s, reg = rng.randint(g(hi), g(t)), "above"
    else:
        s, reg = (rng.randint(g(lo), g(hi)) if lo < hi else g(lo)), "inside"
    if reg == "inside" and lo < hi:
        if s == g(lo):
            reg = "on-lower"
        elif s == g(hi):
            reg = "on-upper"

    def amt():
        k = rng.random()
        if k < 0.1:
            return Decimal(0), "zero"
        if k < 0.2:
            return Decimal(rng.randint(1, 999)) / Decimal(10 ** rng.choice((6, 8, 18))), "tiny"
        if k < 0.3:
            return Decimal(10 ** 12), "max"
        e = rng.randint(-6, 12)
        m = Decimal(rng.randint(1, 10 ** rng.randint(1, 24)))
        v = (m / Decimal(10 ** (len(str(m)) - 1))) * (Decimal(10) ** e)
        return min(v, Decimal(10 ** 12)), "mid"
    (a0, c0), (a1, c1) = amt(), amt()
    return dict(s=s, ta=ta, tb=tb, d0=d0, d1=d1, a0=a0, a1=a1, reg=reg, c0=c0, c1=c1)


def check_case(ctx, lm, core, pool_cls, tok_cls, c, reqs):
    g = lm.get_sqrt_ratio_at_tick
    s, ta, tb, d0, d1, a0, a1 = c["s"], c["ta"], c["tb"], c["d0"], c["d1"], c["a0"], c["a1"]
    rep = {k: (fmt(v) if isinstance(v, Decimal) else v) for k, v in c.items()}
    rep["s"] = str(s)
    key = f"{c['reg']}:{d0},{d1}:{c['c0']}/{c['c1']}"
    try:
        L = lm.get_liquidity(s, ta, tb, a0, a1, d0, d1)
        outcome = "ok"
    except ZeroDivisionError:
        L, outcome = None, "ZeroDivisionError"
    ctx.case(f"{key}:{outcome}", rep)
    reqs.append((rep, "L", f"getLiquidity py {s} {ta} {tb} {fmt(a0)} {fmt(a1)} {d0} {d1}", str(L) if L is not None else "ERR ZeroDivisionError"))
    if L is None:
        if ta != tb:
            ctx.violate("get_liquidity.raises", f"get_liquidity raised ZeroDivisionError on distinct ticks {ta},{tb}", rep)
        return
    sa, sb = sorted((g(ta), g(tb)))
    used0, used1 = lm.get_amounts(s, ta, tb, L, d0, d1)
    reqs.append((rep, "A", f"getAmounts py {s} {ta} {tb} {L} {d0} {d1}", f"{fmt(Decimal(used0))} {fmt(Decimal(used1))}"))
    u0, u1 = Fraction(used0), Fraction(used1)
    f0, f1 = Fraction(a0), Fraction(a1)
    w0, w1 = int(a0 * 10 ** d0), int(a1 * 10 ** d1)
    # --- no over-spend
    if u0 > f0 * (1 + TOL) or u1 > f1 * (1 + TOL):
        ctx.violate("overspend", f"liquidity {L} needs ({used0}, {used1}) but only ({a0}, {a1}) was offered", rep)
    # --- non-negative, one-sided
    if u0 < 0 or u1 < 0 or L < 0:
        ctx.violate("negative", f"negative amount or liquidity: L={L} used=({used0},{used1})", rep)
    if s <= sa and u1 != 0:
        ctx.violate("one-sided.below", f"price at/below the range but token1 amount {used1} != 0", rep)
    if s >= sb and u0 != 0:
        ctx.violate("one-sided.above", f"price at/above the range but token0 amount {used0} != 0", rep)
    if sa < s < sb and L > 0 and not (u0 > 0 and u1 > 0):
        ctx.violate("one-sided.inside", f"price inside the range, L={L} > 0, but amounts ({used0},{used1}) are not both positive", rep)
    # --- maximality: real-valued maximum minus L <= 1 + offered0wei / (sb - sa)
    if sa < sb:
        Q = 2 ** 96
        if s <= sa:
            real = Fraction(w0 * sa * sb, Q * (sb - sa))
            slack = 1 + Fraction(w0, sb - sa)
        elif s < sb:
            r0 = Fraction(w0 * s * sb, Q * (sb - s))
            r1 = Fraction(w1 * Q, s - sa)
            real = min(r0, r1)
            slack = 1 + Fraction(w0, sb - s)
        else:
            real = Fraction(w1 * Q, sb - sa)
            slack = Fraction(1)
        if not (0 <= real - L <= slack):
            ctx.violate("maximal", f"liquidity {L} is not maximal: real-valued maximum {float(real):.6g}, allowed slack {float(slack):.6g}", rep)
        # --- closed form at 1e-30 relative
        if s <= sa:
            c0f, c1f = Fraction(L * Q * (sb - sa), sa * sb), Fraction(0)
        elif s < sb:
            c0f, c1f = Fraction(L * Q * (sb - s), s * sb), Fraction(L * (s - sa), Q)
        else:
            c0f, c1f = Fraction(0), Fraction(L * (sb - sa), Q)
        c0f, c1f = c0f / 10 ** d0, c1f / 10 ** d1
        if not (rel_close(u0, c0f, TOL) and rel_close(u1, c1f, TOL)):
            ctx.violate("closed-form", f"amounts ({used0},{used1}) differ from the closed-form Uniswap v3 values by more than 1e-30 relative", rep)
        ctx.dev(u0, c0f)
        ctx.dev(u1, c1f)
    # --- proportional to liquidity
    k = 7
    k0, k1 = lm.get_amounts(s, ta, tb, L * k, d0, d1)
    if not (rel_close(Fraction(k0), u0 * k, TOL) and rel_close(Fraction(k1), u1 * k, TOL)):
        ctx.violate("linear", f"amounts are not proportional to liquidity (x{k})", rep)
    # --- monotone in price
    s2 = s + max(1, s // 1000)
    if s2 <= g(MAX_TICK):
        m0, m1 = lm.get_amounts(s2, ta, tb, L, d0, d1)
        if Fraction(m0) > u0 * (1 + TOL) or Fraction(m1) < u1 * (1 - TOL):
            ctx.violate("monotone", f"raising the price from {s} to {s2} raised token0 or lowered token1", rep)
    # --- new_position / close_position round trip
    pool = pool_cls(tok_cls("A", d0), tok_cls("B", d1), 0.05, tok_cls("A", d0)) if d0 != d1 or True else None
    try:
        p0, p1, pl, info = core.V3CoreLib.new_position(pool, a0, a1, ta, tb, s)
        b0, b1 = core.V3CoreLib.close_position(pool, info, pl, s)
        if pl != L or Decimal(p0) != Decimal(used0) or Decimal(p1) != Decimal(used1):
            ctx.violate("new_position", "new_position disagrees with get_liquidity/get_amounts", rep)
        if Decimal(b0) != Decimal(p0) or Decimal(b1) != Decimal(p1):
            ctx.violate("roundtrip", f"closing at the deposit price returns ({b0},{b1}) not the deposited ({p0},{p1})", rep)
    except ZeroDivisionError:
        pass


def run(ctx: Ctx):
    from demeter.uniswap import liquitidy_math as lm
    from demeter.uniswap import core
    from demeter.uniswap import UniV3Pool
    from demeter import TokenInfo

    g = lm.get_sqrt_ratio_at_tick
    n = ctx.scale(6000, 300000)
    reqs = []
    for _ in range(n):
        c = gen_case(ctx.rng, g)
        check_case(ctx, lm, core, UniV3Pool, TokenInfo, c, reqs)
    ctx.impl_traces = n
    if ctx.driver_ok:
        out = driver_batch([r[2] for r in reqs])
        for (rep, kind, line, want), o in zip(reqs, out):
            if kind == "A":
                ok = o == want or (not o.startswith("ERR") and all(Fraction(x) == Fraction(y) for x, y in zip(o.split(), want.split())))
            else:
                ok = o == want
            if not ok:
                ctx.disagree(f"{line}: impl {want} model {o}", rep)


def replay(ctx: Ctx, case) -> bool:
    from demeter.uniswap import liquitidy_math as lm
    from demeter.uniswap import core
    from demeter.uniswap import UniV3Pool
    from demeter import TokenInfo
    c = dict(case)
    c["s"] = int(c["s"])
    c["a0"], c["a1"] = Decimal(c["a0"]), Decimal(c["a1"])
    sub = Ctx(ctx.prop, ctx.tier, ctx.seed, False)
    check_case(sub, lm, core, UniV3Pool, TokenInfo, c, [])
    for v in sub.violations:
        print("  ", v["key"], v["what"])
    return not sub.violations
