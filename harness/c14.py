"""C14 — Squeeth vaults: 150 % rule with LP collateral at index price and 7-point TWAP, liquidation iff below 1.5x,
liquidation amounts, amounts never negative, exact movements (demeter/squeeth/market.py)."""
from __future__ import annotations

from decimal import Decimal as D
from fractions import Fraction as F

from common import Ctx
import squeeth_lib as L
import squeeth_gen as G

PROPERTY = "C14"
LEAN_MODULES = ["Proofs.C14", "Proofs.C14.Window", "Proofs.C14.Liquidation", "Proofs.C14.Amounts", "Proofs.C14.Moves", "Proofs.C14.Update", "Proofs.C14.Completes", "Proofs.C14.Long"]
DRIVERS = ["driver_squeeth"]
RULE = ("sequences of vault operations (open_deposit_mint on new/existing/unknown vaults with and without an LP position, deposit, "
        "deposit/withdraw_uni_position, burn_and_withdraw, liquidate, update, _reduce_debt, remove_liquidity on the pool) and of the long side "
        "(buy_squeeth / sell_squeeth by oSQTH amount, ETH amount, both, neither; part / all / a hair more / far more than the wallet holds, zero, negative, "
        "closed pool, two fee tiers) on a real "
        "Broker + UniLpMarket(oSQTH/WETH) + SqueethMarket, interleaved with moves along random price / norm-factor paths (spot mode, "
        "7-point TWAP, short history, coarse grid, shocks) plus a boundary stream of exactly representable ties (2·coll = 3·debt, "
        "coll = 0.5, coll − pay = 0.5, coll = pay), the same LP cases on a pool whose token0 is oSQTH, and every amount slot fed with NaN / sNaN / +-Infinity / 1E+-400 / -0; "
        "bucket = (operation, model rejection cause / ok, argument class, path kind)")
TRUSTED = ["the geometric mean of the selected TWAP prices (float log/pow in helper.calc_twap_price) is an oracle: the value the real code "
           "computed is handed to the model; it is cross-checked against a 60-digit Decimal geometric mean at 1e-9",
           "theorems are stated for the exact rational semantics (NumCtx.exact); the driver reproduces the 35-digit Decimal rounding bit-exactly",
           "UniLpMarket.add_liquidity_by_tick is only used to create LP positions (its own correctness is C03/C07's subject)"]
ASSUMPTIONS = ["the model knows the mainnet orientation of the oSQTH/WETH pool (token0 = WETH = quote token); worlds whose pool has token0 = oSQTH (1 in 6, plus boundary cases) "
               "are judged by the independent oracles only",
               "Broker.allow_negative_balance = False (default)",
               "market data index is ascending and unique, the current timestamp is one of its labels (Actuator guarantees both), prices > 0",
               "Decimal arithmetic = exact result rounded half-even to 35 digits"]

TOL = F(1, 10 ** 28)


def close(a, b, tol=TOL, scale=F(0)):
    """equal up to the 35-digit rounding of the operands (`scale` = magnitude of what was added / subtracted)"""
    a, b = L.fr(a), L.fr(b)
    return a == b or abs(a - b) <= tol * max(abs(a), abs(b), abs(scale), F(1, 10 ** 6))


def wallet_of(state, name):
    for n, b in state["wallet"]:
        if n == name:
            return L.fr(b)
    return F(0)


def vault_of(state, vid):
    for k, v in state["vaults"]:
        if int(k) == int(vid):
            return v
    return None


def debit_ok(before, after, amount):
    """Asset.sub: exact, or snapped to zero when the remainder is below 1e-5 of the balance"""
    if close(before - amount, after):
        return True
    return after == 0 and before != 0 and abs((before - amount) / before) < F(1, 10 ** 5)


# ------------------------------------------------------------------------------------------------ oracles
def check_window(ctx, o):
    """the prices get_twap_price handed to calc_twap_price are the (≤ 7) one-minute points ending at the current bar"""
    env = o.env
    if env["now"] is None:
        if L.fr(o.tw) != L.fr(o.weth) or L.fr(o.to) != L.fr(o.osqth):
            ctx.violate("twap.spot", "timestamp None but get_twap_price is not the spot value", o.replay())
        return
    win = L.spec_window(env)
    want_w = tuple(str(r[2]) for r in win)
    want_o = tuple(str(r[3]) for r in win)
    got = [tuple(k) for k, _ in o.envj["oracle"]]
    if want_w not in got or want_o not in got:
        ctx.violate("twap.window", f"get_twap_price at minute {env['now']} averaged {got} instead of the trailing window {want_w}", o.replay())
        return
    for k, v in o.envj["oracle"]:
        g = L.geo_mean(k)
        if abs(D(v) - g) > g * D("1e-9"):
            ctx.violate("twap.mean", f"calc_twap_price({k}) = {v}, geometric mean is {g}", o.replay())
    ctx.count("twap_windows_checked")


def spec_liquidate(sp, v):
    """the property's liquidation of one vault in exact arithmetic → (short, coll, excess oSQTH to the wallet, stage)"""
    short, coll = L.fr(v["short"]), L.fr(v["coll"])
    excess = F(0)
    stage = "plain"
    if v["nft"] is not None:
        w, q = sp.lp_tokens(v["nft"])
        bounty = min((q * sp.to + w) * F(2, 100), coll + w)      # 2 % bounty, paid out of the vault's ETH
        burn = min(q, short)
        excess = q - burn
        short -= burn
        coll = coll + w - bounty
        if short == 0 or 2 * coll >= 3 * (short * sp.nf * sp.tw / 10000):
            return short, coll, excess, "saved-by-lp"
        coll += bounty
        stage = "lp+liq"
    half = short / 2
    pay = lambda x: x * sp.to * F(11, 10)  # noqa: E731
    amt = short if coll - pay(half) < F(1, 2) else half
    paid = pay(amt)
    if paid > coll:
        amt, paid = short, coll
        stage += ":capped"
    elif amt == short:
        stage += ":full"
    else:
        stage += ":half"
    return short - amt, coll - paid, excess, stage


def check_liquidated(ctx, o, sp, vid, v, after_v, key_prefix):
    s1, c1, excess, stage = spec_liquidate(sp, v)
    ctx.count("liq_stage_" + stage)
    if after_v is None:
        ctx.violate(f"{key_prefix}.vault-gone", f"vault {vid} disappeared", o.replay())
        return excess
    scale = (sp.eff_coll(v) or F(0)) + L.fr(v["short"]) * (1 + sp.to)
    if not (close(after_v["short"], s1, scale=scale) and close(after_v["coll"], c1, scale=scale)):
        lp = "+lp" if v["nft"] is not None else ""
        ctx.violate(f"{key_prefix}.amounts{lp}",
                    f"vault {vid} (coll {v['coll']}, short {v['short']}, lp {v['nft']}) after liquidation has coll {after_v['coll']}, short {after_v['short']}; "
                    f"the rule gives coll {float(c1):.12g}, short {float(s1):.12g} ({stage}; twap oSQTH {o.to}, twap ETH {o.tw}, nf {o.nf})", o.replay())
    if after_v["nft"] is not None:
        ctx.violate(f"{key_prefix}.lp-kept", f"vault {vid} still holds its LP position after liquidation", o.replay())
    return excess


def trade_amount(o):
    """the oSQTH amount a buy_squeeth / sell_squeeth call hands to the pool (exact), None when no amount is given"""
    if o.op.get("osqth") is not None:
        return L.fr(o.op["osqth"])
    if o.op.get("eth") is not None:
        return L.fr(o.op["eth"]) / L.fr(o.osqth) if L.fr(o.osqth) != 0 else None
    return None


def check_trade(ctx, o):
    """the long side trades with the oSQTH/WETH pool only: vaults, vault counter and pool positions are as they were (accepted or rejected);
    an accepted buy of `a` oSQTH costs a·p/(1−f) WETH (fee = f of that), an accepted sell of `a` brings a·(1−f)·p WETH (fee = f·a oSQTH),
    p = the pool's price, f = its fee rate; the returned triple says the same; negative amounts are never accepted"""
    k = o.op["k"]
    key = f"{k}:{'ok' if o.err is None else 'rejected'}"
    norm = lambda st: ([(int(i), L.fr(v["coll"]), L.fr(v["short"]), v["nft"] and [int(x) for x in v["nft"]]) for i, v in st["vaults"]], int(st["maxId"]),  # noqa: E731
                       [([int(x) for x in kk], int(p["liquidity"]), L.fr(p["p0"]), L.fr(p["p1"]), bool(p["transferred"])) for kk, p in st["positions"]])
    if norm(o.before) != norm(o.after):
        ctx.violate(f"trade.touches-vaults:{key}", f"{k}_squeeth {o.op} changed vaults / positions: {o.before['vaults']} {o.before['positions']} -> {o.after['vaults']} {o.after['positions']}"[:600], o.replay())
    if o.err is not None:
        return
    a = trade_amount(o)
    if a is None:
        ctx.violate(f"trade.accepted-without-amount:{k}", f"{k}_squeeth {o.op} accepted", o.replay())
        return
    if a < 0:
        ctx.violate(f"trade.negative-accepted:{k}", f"{k}_squeeth {o.op} accepted a negative amount", o.replay())
        return
    p, f = L.fr(o.env["uniPrice"]), L.fr(o.envj["uniFee"])
    w0, w1 = wallet_of(o.before, "WETH"), wallet_of(o.after, "WETH")
    q0, q1 = wallet_of(o.before, "OSQTH"), wallet_of(o.after, "OSQTH")
    if k == "buy":
        cost = a * p / (1 - f)
        want = [cost * f, cost, a]
        ok = close(q1, q0 + a, scale=q0) and debit_ok(w0, w1, cost)
    else:
        got = a * (1 - f) * p
        want = [a * f, a, got]
        ok = close(w1, w0 + got, scale=w0) and debit_ok(q0, q1, a)
    if a == 0:
        want, ok = [F(0)] * 3, (w0, q0) == (w1, q1)
    if not ok:
        ctx.violate(f"trade.movement:{k}", f"{k}_squeeth {o.op} at pool price {p}, fee rate {f}: wallet WETH {w0} -> {w1}, oSQTH {q0} -> {q1}; "
                    f"the rule moves {[float(x) for x in want]} (fee, spent/sold, got)", o.replay())
    if len(o.out) != 3 or not all(close(x, y, scale=max(want)) for x, y in zip(o.out, want)):
        ctx.violate(f"trade.returned:{k}", f"{k}_squeeth {o.op} returned {o.out}, the rule gives {[float(x) for x in want]}", o.replay())
    if not o.env["uniOpen"]:
        ctx.count("trade_accepted_on_closed_pool")
    ctx.count("trades_checked")


def oracle(ctx, o):
    check_window(ctx, o)
    if getattr(o, "rate_ok", True) is False:
        ctx.violate("by-rate.amount", f"collateral_amount_to_osqth({o.op['deposit']}, {o.op['byRate']}) = {o.op['mint']}", o.replay())
    k = o.op["k"]
    sp0 = L.Spec(o.before, o.env, o.tw, o.to, o.nf)
    sp1 = L.Spec(o.after, o.env, o.tw, o.to, o.nf)
    accepted = o.err is None
    # ---- amounts never negative (accepted or rejected)
    for vid, v in o.after["vaults"]:
        if L.fr(v["coll"]) < 0 or L.fr(v["short"]) < 0:
            ctx.violate(f"negative.vault:{k}:{'ok' if accepted else 'rejected'}", f"{k} {o.op} leaves vault {vid} with coll {v['coll']}, short {v['short']}", o.replay())
    for n, b in o.after["wallet"]:
        if L.fr(b) < 0:
            ctx.violate(f"negative.wallet:{k}", f"{k} leaves wallet {n} = {b}", o.replay())
    if k in ("buy", "sell"):
        check_trade(ctx, o)
    # ---- accepted mint / collateral withdrawal / LP withdrawal ⇒ the vault is safe and not dust afterwards
    if accepted and k in ("openMint", "burnWithdraw", "withdrawUni"):
        vid = int(o.out[0]) if k == "openMint" else o.op["vk"]
        v = vault_of(o.after, vid)
        safe, dust, margin = sp1.safe(v)
        if safe is None:
            ctx.violate(f"accepted.dangling:{k}", f"{k} accepted on vault {vid} whose LP position {v['nft']} does not exist in the pool", o.replay())
        elif margin > TOL and (not safe or dust):
            ctx.violate(f"accepted.unsafe:{k}", f"{k} {o.op} accepted but vault {vid} ends with collateral {float(sp1.eff_coll(v)):.9g} ETH "
                        f"for a debt of {float(sp1.debt(v)):.9g} ETH (safe={safe}, dust={dust})", o.replay())
    # ---- exact movements of accepted operations
    if accepted and k in ("openMint", "deposit", "burnWithdraw"):
        vid = int(o.out[0]) if k == "openMint" else o.op["vk"]
        v0 = vault_of(o.before, vid) or {"coll": D(0), "short": D(0), "nft": None}
        v1 = vault_of(o.after, vid)
        w0, w1 = wallet_of(o.before, "WETH"), wallet_of(o.after, "WETH")
        q0, q1 = wallet_of(o.before, "OSQTH"), wallet_of(o.after, "OSQTH")
        if k == "openMint":
            mint = max(L.fr(o.op["mint"]), F(0))
            dep = max(L.fr(o.op["deposit"]), F(0))
            ok = close(L.fr(v1["short"]), L.fr(v0["short"]) + mint) and close(q1, q0 + mint) and \
                close(L.fr(v1["coll"]), L.fr(v0["coll"]) + dep) and debit_ok(w0, w1, dep)
        elif k == "deposit":
            dep = L.fr(o.op["eth"])
            ok = close(L.fr(v1["coll"]), L.fr(v0["coll"]) + dep) and debit_ok(w0, w1, dep) and close(q0, q1) and close(v0["short"], v1["short"])
        else:
            burn = max(L.fr(o.op["burn"]), F(0))
            wd = max(L.fr(o.op["withdraw"]), F(0))
            removed = min(burn, L.fr(v0["short"]))
            amt = min(wd, L.fr(v0["coll"]))
            ok = close(L.fr(v1["short"]), L.fr(v0["short"]) - removed) and debit_ok(q0, q1, removed) and \
                close(L.fr(v1["coll"]), L.fr(v0["coll"]) - amt) and close(w1, w0 + amt)
        if not ok:
            ctx.violate(f"movement:{k}", f"{k} {o.op}: vault {v0} -> {v1}, wallet WETH {w0} -> {w1}, oSQTH {q0} -> {q1}", o.replay())
    # ---- liquidation
    if k == "update":
        if not accepted:
            ctx.violate(f"update.raises:{o.err}:{o.msg[:40]}", f"update() raised {o.err}({o.msg[:80]}) on vaults {o.before['vaults']}", o.replay())
        else:
            excess_total = F(0)
            for vid, v in o.before["vaults"]:
                safe, _, margin = sp0.safe(v)
                av = vault_of(o.after, vid)
                changed = av is None or L.fr(av["coll"]) != L.fr(v["coll"]) or L.fr(av["short"]) != L.fr(v["short"]) or av["nft"] != v["nft"]
                if margin <= TOL:
                    continue
                if safe and changed:
                    ctx.violate("update.liquidated-safe", f"vault {vid} {v} was at/above 1.5x but update() changed it to {av}", o.replay())
                elif not safe and not changed:
                    ctx.violate("update.not-liquidated", f"vault {vid} {v} is below 1.5x but update() left it alone", o.replay())
                elif not safe:
                    excess_total += check_liquidated(ctx, o, sp0, vid, v, av, "liquidation")
            if not close(wallet_of(o.after, "OSQTH"), wallet_of(o.before, "OSQTH") + excess_total) or \
                    not close(wallet_of(o.after, "WETH"), wallet_of(o.before, "WETH")):
                ctx.violate("liquidation.wallet", f"update() moved the wallet from {o.before['wallet']} to {o.after['wallet']}; excess oSQTH from redeemed LP = {float(excess_total):.9g}", o.replay())
    # ---- redeeming the LP collateral on its own (the first stage of a liquidation): every oSQTH of the position burns debt (excess to the
    #      wallet), its WETH becomes collateral, 2 % bounty out of the vault's ETH; the position leaves the vault and the pool
    if k == "reduceDebt" and accepted:
        v = vault_of(o.before, o.op["vk"])
        av = vault_of(o.after, o.op["vk"])
        if v is not None and v["nft"] is not None and tuple(v["nft"]) in sp0.pos:
            w, q = sp0.lp_tokens(v["nft"])
            burn = min(q, L.fr(v["short"]))
            bounty = min((q * sp0.to + w) * F(2, 100), L.fr(v["coll"]) + w) if o.op["payBounty"] else F(0)
            scale = L.fr(v["coll"]) + w + q + L.fr(v["short"])
            ok = av is not None and av["nft"] is None and close(av["short"], L.fr(v["short"]) - burn, scale=scale) and \
                close(av["coll"], L.fr(v["coll"]) + w - bounty, scale=scale) and \
                close(wallet_of(o.after, "OSQTH"), wallet_of(o.before, "OSQTH") + q - burn, scale=scale) and close(wallet_of(o.after, "WETH"), wallet_of(o.before, "WETH"))
            if not ok:
                ctx.violate("reduce-debt.amounts", f"_reduce_debt({o.op['vk']}, {o.op['payBounty']}) on vault {v} whose LP holds {float(w):.9g} WETH + {float(q):.9g} oSQTH "
                            f"left vault {av}, wallet {o.before['wallet']} -> {o.after['wallet']}; the rule burns {float(burn):.9g} oSQTH, adds {float(w):.9g} ETH, "
                            f"bounty {float(bounty):.9g}", o.replay())
            ctx.count("reduce_debt_checked")
    if k == "liquidate":
        v = vault_of(o.before, o.op["vk"])
        if v is not None:
            safe, _, margin = sp0.safe(v)
            if margin > TOL and safe is not None:
                if accepted and safe:
                    ctx.violate("liquidate.safe-accepted", f"liquidate() accepted on safe vault {v}", o.replay())
                if not accepted and not safe:
                    ctx.violate(f"liquidate.unsafe-rejected:{o.msg[:30]}", f"liquidate() of unsafe vault {v} raised {o.err}({o.msg[:60]})", o.replay())
                if accepted and not safe:
                    check_liquidated(ctx, o, sp0, o.op["vk"], v, vault_of(o.after, o.op["vk"]), "liquidation")


# ------------------------------------------------------------------------------------------------ generators
def sequence(ctx, runner, steps, kind=None):
    rng = ctx.rng
    env = G.gen_env(rng, kind)
    world = L.World(G.empty_state(rng, with_osqth=rng.random() > 0.05), env)
    for _ in range(rng.choice([0, 0, 1, 1, 2])):
        G.add_position(rng, world, fees=rng.random() < 0.4)
    for _ in range(steps):
        if rng.random() < 0.3:
            env = G.shift_env(rng, env)
            world.set_env(env)
        st = world.dump_state()
        op, argc = G.gen_op(rng, world, st)
        o = L.observe(world, op, argc)
        oracle(ctx, o)
        runner.add(o)


def pool_only_shifts(ctx, runner, n):
    """a vault whose collateral is (mostly) an LP position, minted to a little above 1.5x and found safe at one bar end; on the following bars
    ONLY the squeeth-eth pool price moves (same norm factor, same ETH TWAP, no vault operation): the position's composition and with it its
    value at the index price changes, and the bar-end check must see it"""
    rng = ctx.rng
    from demeter.squeeth import VaultKey
    for _ in range(n):
        env = G.gen_env(rng)
        world = L.World(G.empty_state(rng, with_osqth=True), env)
        world.set_env(dict(world.env, uniOpen=True))
        pos = G.add_position(rng, world, fees=rng.random() < 0.4)
        if pos is None:
            continue
        o = L.observe(world, {"k": "openMint", "deposit": D(rng.choice(("0", "0", "0.05"))), "mint": D("0.000001"), "vk": None, "pos": pos}, "directed:open-lp")
        oracle(ctx, o)
        runner.add(o)
        st = world.dump_state()
        mine = [int(k) for k, v in st["vaults"] if v["nft"] is not None and [int(x) for x in v["nft"]] == pos]
        if o.err or not mine:
            continue
        vk = mine[-1]
        try:
            eff = world.sq._get_effective_collateral_in_eth(VaultKey(vk))
            idx = G.index_price(world)
            more = eff / (D(rng.choice(("1.505", "1.52", "1.6", "1.9"))) * idx) - D("0.000001")
        except Exception:  # noqa: BLE001
            continue
        if more > 0:
            o = L.observe(world, {"k": "openMint", "deposit": D(0), "mint": G.q(more, 12), "vk": vk, "pos": None}, "directed:mint-to-ratio")
            oracle(ctx, o)
            runner.add(o)
        o = L.observe(world, {"k": "update"}, "directed:update-before-pool-move")
        oracle(ctx, o)
        runner.add(o)
        for f in rng.sample(("0.5", "0.7", "0.85", "0.95", "1.05", "1.2", "1.5", "2"), 3):
            world.set_env(dict(world.env, uniPrice=G.q(D(world.env["uniPrice"]) * D(f), 10), uniOpen=True))
            o = L.observe(world, {"k": "update"}, "directed:update-after-pool-only-move")
            oracle(ctx, o)
            runner.add(o)


def boundary_cases():
    """exactly representable ties; index = nf·weth/1e4 = 0.1 ETH per oSQTH, TWAP = spot"""
    E = G.exact_env
    W = [["WETH", D(100)], ["OSQTH", D(100)]]
    mk = lambda vs, ps=(): {"wallet": W, "vaults": vs, "maxId": len(vs), "positions": list(ps)}  # noqa: E731
    v = lambda c, s, nft=None: {"coll": D(c), "short": D(s), "nft": nft}  # noqa: E731
    out = []
    # 2·coll = 3·debt exactly (debt of 10 oSQTH = 1 ETH): accepted; one unit in the 30th place less: rejected
    out.append(("tie-1.5x", mk([]), E(), {"k": "openMint", "deposit": D("1.5"), "mint": D(10), "vk": None, "pos": None}))
    out.append(("below-1.5x", mk([]), E(), {"k": "openMint", "deposit": D("1.5"), "mint": D("10.000000000000000000000000000001"), "vk": None, "pos": None}))
    out.append(("tie-dust", mk([]), E(), {"k": "openMint", "deposit": D("0.5"), "mint": D(1), "vk": None, "pos": None}))
    out.append(("below-dust", mk([]), E(), {"k": "openMint", "deposit": D("0.4999999999"), "mint": D(1), "vk": None, "pos": None}))
    out.append(("withdraw-to-tie", mk([[1, v(3, 10)]]), E(), {"k": "burnWithdraw", "vk": 1, "burn": D(0), "withdraw": D("1.5")}))
    out.append(("withdraw-past-tie", mk([[1, v(3, 10)]]), E(), {"k": "burnWithdraw", "vk": 1, "burn": D(0), "withdraw": D("1.5000001")}))
    # liquidation: safe at the tie, unsafe just below; half liquidation leaves exactly 0.5; pays exactly the collateral
    out.append(("update-at-tie", mk([[1, v("1.5", 10)]]), E(), {"k": "update"}))
    out.append(("update-below-tie", mk([[1, v("1.4999999", 10)]]), E(), {"k": "update"}))
    out.append(("update-leaves-0.5", mk([[1, v("1.05", 10)]]), E(), {"k": "update"}))
    out.append(("update-leaves-under-0.5", mk([[1, v("1.04", 10)]]), E(), {"k": "update"}))
    out.append(("update-pay-equals-collateral", mk([[1, v("0.55", 10)]]), E(), {"k": "update"}))
    out.append(("update-pay-exceeds-collateral", mk([[1, v("0.54", 10)]]), E(), {"k": "update"}))
    out.append(("update-full-equals-collateral", mk([[1, v("1.1", 10)]]), E(osqth="0.1"), {"k": "update"}))
    out.append(("update-zero-collateral", mk([[1, v(0, 10)]]), E(), {"k": "update"}))
    out.append(("update-two-vaults", mk([[1, v(3, 10)], [2, v("1.2", 10)], [3, v("0.2", 1)]]), E(), {"k": "update"}))
    # oSQTH twap far from index
    out.append(("update-expensive-osqth", mk([[1, v("1.2", 10)]]), E(osqth="0.3"), {"k": "update"}))
    out.append(("update-cheap-osqth", mk([[1, v("1.2", 10)]]), E(osqth="0.01"), {"k": "update"}))
    # LP collateral: position entirely in oSQTH / entirely in WETH / around
    pos = lambda liq, p0="0", p1="0", tr=True: {"liquidity": liq, "p0": D(p0), "p1": D(p1), "transferred": tr}  # noqa: E731
    for name, key in (("lp-around", [21000, 25020]), ("lp-above-all-weth", [24000, 25020]), ("lp-below-all-osqth", [18000, 21000])):
        for coll, short in (("0", "6"), ("0.2", "12"), ("1", "30"), ("0.3", "3")):
            out.append((f"update-{name}-{coll}-{short}", mk([[1, v(coll, short, key)]], [[key, pos(10 ** 19, "0.01", "0.2")]]), E(), {"k": "update"}))
        out.append((f"withdraw-{name}", mk([[1, v("1", "8", key)]], [[key, pos(10 ** 19)]]), E(), {"k": "withdrawUni", "vk": 1, "pos": key}))
    # redeeming the LP saves the vault (all debt burned) while the 2 % bounty exceeds the ETH in the vault
    out.append(("update-lp-saved-bounty-exceeds-eth", mk([[1, v("0", "3", [18000, 21000])]], [[[18000, 21000], pos(10 ** 19, "0", "0.2")]]), E(), {"k": "update"}))
    out.append(("update-lp-saved", mk([[1, v("0.2", "4.5", [18000, 21000])]], [[[18000, 21000], pos(10 ** 19, "0.01", "0.2")]]), E(), {"k": "update"}))
    out.append(("lp-closed-pool", mk([[1, v("0.1", "12", [21000, 25020])]], [[[21000, 25020], pos(10 ** 19)]]), E(uni_open=False), {"k": "update"}))
    # the same LP collateral in a pool whose token0 is oSQTH (ticks mirrored; pending fees in (token0, token1) = (oSQTH, WETH) order)
    for name, key in (("lp-around", [-25020, -21000]), ("lp-all-weth", [-25020, -24000]), ("lp-all-osqth", [-21000, -18000])):
        for coll, short in (("0", "6"), ("0.2", "12"), ("1", "30"), ("0.3", "3"), ("1", "12")):
            out.append((f"flip-update-{name}-{coll}-{short}", mk([[1, v(coll, short, key)]], [[key, pos(10 ** 19, "0.2", "0.01")]]), E(flip=True), {"k": "update"}))
        out.append((f"flip-withdraw-{name}", mk([[1, v("1", "8", key)]], [[key, pos(10 ** 19)]]), E(flip=True), {"k": "withdrawUni", "vk": 1, "pos": key}))
        out.append((f"flip-reduce-{name}", mk([[1, v("1", "8", key)]], [[key, pos(10 ** 19, "0.2", "0.01")]]), E(flip=True), {"k": "reduceDebt", "vk": 1, "payBounty": True}))
        out.append((f"flip-mint-{name}", mk([], [[key, pos(10 ** 19, "0.2", "0.01", False)]]), E(flip=True), {"k": "openMint", "deposit": D("0.6"), "mint": D(12), "vk": None, "pos": key}))
    return out


def bar_loop(ctx, runner):
    """the real bar loop: an Actuator run over in-memory data (random price / norm-factor path with a shock), a strategy that opens
    vaults (some with LP collateral) early on; on every bar the state before `update()` (end of on_bar) and after it (after_bar) is
    captured, the liquidation oracle is applied and the model's `update` step is compared"""
    import logging
    import os
    import pandas as pd
    from datetime import timedelta
    os.environ["TQDM_DISABLE"] = "1"       # no progress bars from Actuator.run
    from demeter import Strategy, Actuator
    rng = ctx.rng
    logging.disable(logging.CRITICAL)
    n = rng.randint(9, 22)
    rows = G.gen_rows(rng, n, 1, (rng.randint(2, n - 2), rng.choice([1.25, 1.4, 1.6, 2.0, 0.7])))
    idx = pd.DatetimeIndex([L.BASE + timedelta(minutes=r[0]) for r in rows])
    sqdf = pd.DataFrame(index=idx, data={"norm_factor": [r[1] for r in rows], "WETH": [r[2] for r in rows], "OSQTH": [r[3] for r in rows]})
    prices = [r[3] for r in rows]
    z = [0] * n
    unidf = pd.DataFrame(index=idx, data={"netAmount0": z, "netAmount1": z, "closeTick": z, "openTick": z, "lowestTick": z, "highestTick": z,
                                          "inAmount0": z, "inAmount1": z, "currentLiquidity": [10 ** 22] * n, "price": prices,
                                          "volume0": [D(0)] * n, "volume1": [D(0)] * n, "open": prices, "low": prices, "high": prices})
    m = L.imports()
    weth, osqth = m["TokenInfo"]("weth", 18), m["TokenInfo"]("osqth", 18)
    uni = m["UniLpMarket"](m["MarketInfo"]("Uni", m["MarketTypeEnum"].uniswap_v3), m["UniV3Pool"](weth, osqth, 0.3, weth), data=unidf)
    sq = m["SqueethMarket"](m["MarketInfo"]("Squeeth", m["MarketTypeEnum"].squeeth), uni, data=sqdf)
    act = Actuator()
    act.broker.add_market(uni)
    act.broker.add_market(sq)
    act.broker.set_balance(weth, D(60))
    act.broker.set_balance(osqth, D(40))
    price = sqdf[["WETH", "OSQTH"]].copy()
    price["OSQTH"] = price["OSQTH"] * price["WETH"]
    act.set_price(price)
    # a World view over the actuator's objects
    L._patch_twap()
    view = L.World.__new__(L.World)
    view.m, view.weth, view.osqth, view.broker, view.uni, view.sq = m, weth, osqth, act.broker, uni, sq
    view.tokens = {"WETH": weth, "OSQTH": osqth}
    view.log = []
    plans = [(rng.randint(0, 2), rng.choice([0, 1, 1])) for _ in range(rng.randint(1, 3))]   # (bar, with LP?)
    ratio = [D(str(rng.choice([1.52, 1.6, 1.8, 2.5]))) for _ in plans]
    captured = []

    class Strat(Strategy):
        def on_bar(self, snapshot):
            i = list(idx).index(snapshot.timestamp)
            view.env = {"rows": rows, "now": rows[i][0], "cur": rows[i][1:], "uniPrice": rows[i][3], "uniOpen": True, "kind": "bar-loop"}
            for (bar, lp), cr in zip(plans, ratio):
                if bar == i:
                    try:
                        pos = None
                        if lp:
                            t = G.tick_of(view, rows[i][3])
                            key, _, _, _ = uni.add_liquidity_by_tick(t - 1200, t + 1200, D(5), D(1))
                            pos = key
                        sq.open_deposit_mint_by_collat_rate(D(str(rng.uniform(1, 6))), cr, None, pos)
                    except Exception:  # noqa: BLE001 — rejected plans simply do not happen
                        pass
            o = L.Obs()
            o.before = view.dump_state()
            o.env = view.env
            o.envj = L.snapshot_env(view)
            o.tw, o.to = sq.get_twap_price(weth), sq.get_twap_price(osqth)
            o.nf, o.weth, o.osqth = view.cur()
            o.op, o.argc = {"k": "update"}, f"bar-loop:{len(o.before['vaults'])}-vaults"
            o.n0 = len(act.actions)
            captured.append(o)

        def after_bar(self, snapshot):
            o = captured[-1]
            o.after = view.dump_state()
            o.err, o.msg, o.out = None, "", []
            o.actions = [L.action_json(a) for a in act.actions[o.n0:]]

    L.Obs.__slots__  # noqa: B018
    act.strategy = Strat()
    import contextlib
    import io
    try:
        with contextlib.redirect_stderr(io.StringIO()), contextlib.redirect_stdout(io.StringIO()):   # tqdm progress bar
            act.run(False)
    except Exception as ex:  # noqa: BLE001
        ctx.violate(f"bar-loop.raises:{type(ex).__name__}", f"Actuator.run raised {type(ex).__name__}({str(ex)[:80]}) on path {[str(r[2]) for r in rows]}", {"rows": rows})
    finally:
        logging.disable(logging.NOTSET)
    for o in captured:
        if not hasattr(o, "after"):
            continue
        oracle(ctx, o)
        runner.add(o)
    ctx.count("bar_loop_runs")
    ctx.count("bar_loop_liquidations", sum(1 for o in captured if hasattr(o, "after") and any(a["k"] == "liquidation" for a in o.actions)))


def run(ctx: Ctx):
    runner = L.Runner(ctx)
    n = ctx.scale(140, 5000)
    for i in range(n):
        sequence(ctx, runner, ctx.rng.randint(4, 14))
    for i in range(ctx.scale(25, 600)):
        bar_loop(ctx, runner)
    pool_only_shifts(ctx, runner, ctx.scale(40, 1000))
    for name, spec, env, op in boundary_cases():
        world = L.World(spec, env)
        o = L.observe(world, op, "boundary:" + name)
        oracle(ctx, o)
        runner.add(o)
    runner.finish()
    L.special_stream(ctx, ctx.scale(150, 3000), "", reject_intact=False)


def replay(ctx: Ctx, case) -> bool:
    if case.get("special"):
        return L.special_replay(case, "", reject_intact=False)
    world = L.World(G.parse_spec(case["spec"]), G.parse_env(case["env"]))
    o = L.observe(world, G.parse_op(case["op"]), "replay")
    sub = Ctx(ctx.prop, ctx.tier, ctx.seed, False)
    oracle(sub, o)
    for v in sub.violations:
        print("  ", v["key"], "—", v["what"][:300])
    return not sub.violations
