"""C12 — Aave liquidation: AaveV3Market.update() -> _liquidate -> _do_liquidate on in-memory markets.

Oracle (exact Fractions, on the implementation's own observations: the raw dicts before/after every recorded
LiquidationAction, the attempts seen by a wrapper around _do_liquidate, the wallet) + step-wise correspondence with the
Lean model `Demeter.AaveRisk.liquidate` run by driver_aaverisk under NumCtx.py (bit-exact Decimals)."""
from __future__ import annotations

import os
from decimal import Decimal as D
from fractions import Fraction as F

from common import Ctx, driver_json, fmt
import aaverisk_lib as L
import aave_lib as AL
from aaverisk_lib import Case, Exact, close, TOL

PROPERTY = "C12"
LEAN_MODULES = ["Proofs.C12", "Proofs.C12.Admitted", "Proofs.C12.Reachable", "Proofs.C12.Loop", "Proofs.C12.Pick", "Proofs.C12.Refine", "Proofs.C12.RefineStep", "Proofs.C12.RefineLoop",
                "Proofs.C12.DebtCheck", "Proofs.C12.RefineUpdate", "Proofs.C12.Units", "Proofs.C12.Round35"]
DRIVERS = ["driver_aaverisk"]
RULE = ("portfolios over the uppercase symbols of the four risk-parameter CSVs: 1-3 collateral supplies (+ optional non-collateral supply), "
        "1-3 debts, liquidity/borrow indices 1..3 different per token, prices log-uniform over 11 decades (1e-6 .. 1e5), debts scaled so that the health factor "
        "lands in (0,0.6], (0.6,0.95), {0.95}, (0.95,1), {1}, (1,1.5), no debt, no collateral; price paths over later bars, and accrual-only paths (no price changes, indices grow until a hair-healthy account crosses HF 1); boundary stream with exact ties (HF = 0.95 / 1 exactly, "
        "equal debt values, equal collateral values), malformed stream (zero-amount debt entry, LT = 0 collateral, debt worth > 1e22, LT(1+bonus) > 1); "
        "bucket = (stream, HF class, #collateral, #debts, per-step tags half/full x capped/uncapped, end reason, exception)")
TRUSTED = ["theorems are for the exact rational semantics; the 35-digit Decimal rounding is reproduced bit-exactly by the driver and measured against the "
           "exact oracle at 1e-30 relative",
           "cache coherence of the market's DictCaches is C13's subject: every case starts from freshly reset caches",
           "the model's domain: every token of the portfolio has a row in the bar's market status, price series and risk table (no KeyError)"]
ASSUMPTIONS = ["risk tables satisfy RiskParamsSane (collateral-enabled => LT > 0, bonus > 0; LTV <= LT): checked on the four CSVs on every run",
               "prices, indices > 0 and scaled balances >= 0 (WF); the market is open (write_func) on the bar"]

MINTV = F(1e-18 - 1e-27)       # helper.MIN_TOKEN_VALUE (exact binary value), dust snapped by sub_base_amount
HF_CLASSES = ["deep", "mid", "at95", "half", "at1", "safe", "tiny", "accrue", "accrue"]


# ------------------------------------------------------------------------------------------------------------ generator
def _idx(rng, exact):
    if exact:
        return rng.choice(["1", "1.5", "2", "2.5", "3", "1.25"])
    k = rng.random()
    if k < 0.2:
        return "1"
    if k < 0.6:
        return str(D(1) + D(rng.randint(0, 2000)) / 1000)
    return str(D(1) + D(rng.randint(0, 2 * 10 ** 27)) / D(10 ** 27))


def _price(rng, exact):
    if exact:
        return rng.choice(["1", "0.5", "2", "1000", "0.25", "1600", "0.001", "40000"])
    return str(L.rnd_dec(rng, -6, 5, rng.choice([1, 3, 8])))


def gen_case(rng, stream):
    path = rng.choice(L.rp_files())
    rp = L.load_rp(path)
    names = L.usable_tokens(path)
    collable = [n for n in names if rp.loc[n].usageAsCollateralEnabled]
    exact = stream == "boundary"
    ncoll = rng.choice([1, 1, 2, 2, 3])
    colls = rng.sample(collable, min(ncoll, len(collable)))
    ndebt = rng.choice([1, 1, 2, 2, 3])
    debts = rng.sample(names, min(ndebt, len(names)))
    if stream == "random" and rng.random() < 0.25 and colls[0] not in debts:
        debts[rng.randrange(len(debts))] = colls[0]        # the same token supplied as collateral and borrowed
    extra = [n for n in rng.sample(names, 1) if n not in colls] if rng.random() < 0.35 else []
    toks = {}
    for n in dict.fromkeys(colls + extra + debts):
        toks[n] = {"li": _idx(rng, exact), "bi": _idx(rng, exact), "p": _price(rng, exact)}
    rp_over = {}
    if stream == "random" and rng.random() < 0.12:
        # a collateral that adds no borrowing power (baseLTVasCollateral = 0: frozen / isolated reserves); liquidation goes by the
        # liquidation threshold and must not care
        rp_over[rng.choice(colls)] = {"baseLTVasCollateral": "0"}
    # supplies
    supplies = []
    equal_vals = exact and rng.random() < 0.5
    v0 = None
    for n in colls:
        val = D(rng.choice([1000, 2000, 33000, 5])) * D(10000) if exact else L.rnd_dec(rng, 0, 7, 6)
        if equal_vals and v0 is not None:
            val = v0
        v0 = val
        base = val / D(toks[n]["p"]) / D(toks[n]["li"])
        if not exact:
            base = D(format(base, ".25e"))
        supplies.append([n, str(base), True])
    for n in extra:
        supplies.insert(rng.randint(0, len(supplies)), [n, str(L.rnd_dec(rng, -2, 6, 5)), False])
    cls = rng.choice(HF_CLASSES)
    if stream == "boundary":
        cls = rng.choice(["at95", "at95", "at95", "at1", "at1", "half", "mid", "deep", "tiny"])
    case = Case(path, toks, supplies, [], {n: "7" for n in list(toks)[:2]}, rp_over)
    # weighted liquidation threshold, exactly
    wlt = sum((F(D(b)) * F(D(toks[n]["li"])) * F(D(toks[n]["p"])) * F(rp.loc[n].reserveLiquidationThreshold) for n, b, c in supplies if c), F(0))
    target = {"deep": F(rng.randint(5, 60), 100), "mid": F(rng.randint(61, 94), 100), "at95": F(95, 100),
              "half": F(rng.randint(951, 999), 1000), "at1": F(1), "safe": F(rng.randint(101, 150), 100),
              # healthy by a hair: the following bars change NO price, only the indices grow (interest accrues on the debt faster than on
              # the collateral) until the health factor crosses 1 - liquidation is due at the end of that bar like at any other
              "accrue": F(rng.randint(10001, 10300), 10000),
              # dust collateral against real debts: 0 < HF <= 1e-6 (liquidated like any HF below 1; 1e-6 itself is a boundary value)
              "tiny": F(rng.choice([1, 1, 3, 9]), 10 ** rng.choice([6, 6, 7, 9, 12, 20]))}[cls]
    if cls in ("at95", "at1") and not exact and rng.random() < 0.5:
        target += F(rng.choice([-1, 1]), 10 ** rng.choice([9, 20, 33]))
    total = wlt / target
    ws = [rng.randint(1, 9) for _ in debts]
    if exact and rng.random() < 0.5:
        ws = [1 for _ in debts]              # equal debt values: the tie-break of the debt pick
    dl = []
    for n, w in zip(debts, ws):
        val = total * w / sum(ws)
        base = val / F(D(toks[n]["p"])) / F(D(toks[n]["bi"]))
        bd = D(base.numerator) / D(base.denominator)        # 35 digits; exact when terminating
        if not exact:
            bd = D(format(bd, ".28e"))
        dl.append([n, str(bd)])
    case.debts = dl
    tag = cls
    # ---- special shapes
    if stream == "special":
        k = rng.choice(["nodebt", "nocoll", "zero-debt-entry", "lt0", "oversized", "heavy-bonus", "cheap-debt", "price0", "dust-debt", "dust-coll",
                        "capped-tie", "capped-tie", "dust-left", "dust-left", "priced-at-cf", "priced-at-cf"])
        tag = k
        if k == "dust-left" and len(collable) >= 2:
            # the first step seizes the whole of the big collateral; a dust collateral (1e-8 .. 1e-14 of it) is left against the rest of
            # the debts: the health factor lands in (0, 1e-6] in the MIDDLE of the loop, which has to go on (HF < 1, collateral left,
            # debts not yet visited)
            ca, cb = rng.sample(collable, 2)
            dn = rng.sample([n for n in names], rng.choice([2, 2, 3]))
            tk = {n: {"li": _idx(rng, False), "bi": _idx(rng, False), "p": _price(rng, False)} for n in dict.fromkeys([ca, cb] + dn)}
            va = L.rnd_dec(rng, 3, 7, 6)
            vb = va * D(rng.choice([1, 3, 7])) / D(10) ** rng.choice([8, 9, 10, 12, 14])
            sup = []
            for n, v in ((ca, va), (cb, vb)):
                sup.append([n, str(D(format(v / D(tk[n]["p"]) / D(tk[n]["li"]), ".25e"))), True])
            if rng.random() < 0.5:
                sup.reverse()
            wl = sum((F(D(b_)) * F(D(tk[n]["li"])) * F(D(tk[n]["p"])) * F(rp.loc[n].reserveLiquidationThreshold) for n, b_, _ in sup), F(0))
            tot = wl / F(rng.randint(10, 40), 100)
            dl2 = []
            for n in dn:
                bd = tot / len(dn) * F(rng.randint(95, 105), 100) / F(D(tk[n]["p"])) / F(D(tk[n]["bi"]))
                dl2.append([n, str(D(format(D(bd.numerator) / D(bd.denominator), ".28e")))])
            return Case(path, tk, sup, dl2, {ca: "7"}, {}), tag
        if k == "capped-tie":
            # one collateral worth its debt x (1 + bonus) to the last digit: capped-or-not and the scaled-down repayment are decided
            # by the 35-digit rounding (the inputs of `variable_delt < actual_debt_to_liquidate`)
            ok = [n for n in collable if 0 < rp.loc[n].reserveLiquidationThreshold * (1 + rp.loc[n].reserveLiquidationBonus) < D("0.95")]
            if ok:
                cn = rng.choice(ok)
                dn = rng.choice([n for n in names if n != cn])
                pd_, pc, var, ub, kind = AL.capped_tie(rng, D(rp.loc[cn].reserveLiquidationBonus))
                case = Case(path, {cn: {"li": "1", "bi": _idx(rng, False), "p": str(pc)}, dn: {"li": _idx(rng, False), "bi": "1", "p": str(pd_)}},
                            [[cn, str(ub), True]], [[dn, str(var)]], {cn: "7"}, {})
                return case, tag + ":" + kind
        if k in ("dust-debt", "dust-coll"):
            # remainders below MIN_TOKEN_VALUE that sub_base_amount snaps to 0 (demo.csv: WETH LT 0.825, bonus 0.05)
            A = D(rng.randint(1, 9000))
            case = Case(os.path.join(L.RP_DIR, "demo.csv"),
                        {"WETH": {"li": "1", "bi": "1", "p": "1"}, "USDC": {"li": "1", "bi": "1", "p": "1"}}, [], [], {"WETH": "7"}, {})
            eps = D(rng.choice(["5E-19", "1E-19", "9.99999998E-19", "9.99999999E-19", "1E-18", "2E-18"]))
            if k == "dust-debt":
                # cover = value = A * (1 - eps/A) < A: the repaid amount leaves eps of debt
                case.toks["USDC"]["p"] = str(1 - eps / A)
                case.supplies = [["WETH", str(A * D("1.1")), True]]
                case.debts = [["USDC", str(A)]]
            else:
                case.supplies = [["WETH", str(A * D("1.05") + eps), True]]
                case.debts = [["USDC", str(A)]]
            return case, tag + ":" + str(eps)
        if k == "nodebt":
            case.debts = []
        elif k == "nocoll":
            case.supplies = [[n, b, False] for n, b, c in supplies]
        elif k == "zero-debt-entry":
            free = [n for n in names if n not in [d[0] for d in dl]]
            if free:
                z = rng.choice(free)
                toks.setdefault(z, {"li": _idx(rng, False), "bi": _idx(rng, False), "p": _price(rng, False)})
                case.debts.insert(rng.randint(0, len(dl)), [z, "0"])
        elif k == "lt0":
            big = max((s for s in supplies if s[2]), key=lambda s: F(D(s[1])) * F(D(toks[s[0]]["li"])) * F(D(toks[s[0]]["p"])))
            rp_over[big[0]] = {"reserveLiquidationThreshold": "0"}
        elif k == "oversized":
            n = dl[0][0]
            toks[n]["p"] = str(D(toks[n]["p"]) * D(10) ** 24)
            for s in case.supplies:
                if s[0] != n:
                    s[1] = str(D(s[1]) * D(10) ** 24)
        elif k == "heavy-bonus":
            for n in colls:
                rp_over[n] = {"reserveLiquidationThreshold": "0.9", "reserveLiquidationBonus": "0.15", "baseLTVasCollateral": "0.8"}
        elif k == "cheap-debt":
            for d in dl:
                if d[0] not in colls:
                    f = D(10) ** rng.randint(2, 5)
                    toks[d[0]]["p"] = str(D(toks[d[0]]["p"]) / f)
                    d[1] = str(D(d[1]) * f)
        elif k == "priced-at-cf":
            # debt tokens priced around the close factors 1/2 and 1 (the value handed in as "amount to cover" is compared with
            # close factor x amount: which of the two is repaid flips at price = close factor, C12_repaid_token_units); the debts' values stay
            for d in dl:
                if d[0] not in colls:
                    newp = D(rng.choice(["0.3", "0.07", "0.49", "0.5", "0.51", "0.75", "0.99", "1", "1.01"]))
                    d[1] = str(D(d[1]) * D(toks[d[0]]["p"]) / newp)
                    toks[d[0]]["p"] = str(newp)
        elif k == "price0":
            n = rng.choice(list(toks))
            toks[n]["p"] = "0"
    return case, tag


# --------------------------------------------------------------------------------------------------------------- oracle
def exc_name(e):
    if isinstance(e, ArithmeticError):
        return "ArithmeticError"
    return type(e).__name__


def observe_bar(m, b, names):
    rows = {n: L.row_of(m, n) for n in names}
    obs = {"S0": L.raw(m), "W0": L.wallet_of(b), "rows": rows, "state": L.dump(m), "snaps": [], "attempts": [], "attempt_states": [], "exc": None}
    m._record_action_callback = lambda a: obs["snaps"].append((a, L.raw(m)))
    orig = type(m)._do_liquidate.__get__(m)

    def wrapped(c, d, v):
        obs["attempts"].append((getattr(c, "name", None), getattr(d, "name", None)))
        obs["attempt_states"].append((L.raw(m), D(v)))
        return orig(c, d, v)
    m._do_liquidate = wrapped
    try:
        obs["hf0_impl"] = L.xfrac(m.health_factor)
    except Exception:               # noqa: BLE001
        obs["hf0_impl"] = "?"
    try:
        m.update()
    except Exception as e:          # noqa: BLE001 - the class is the observation
        obs["exc"] = exc_name(e)
    obs["S1"] = L.raw(m)
    obs["W1"] = L.wallet_of(b)
    obs["hf1_impl"] = None
    try:
        obs["hf1_impl"] = L.xfrac(m.health_factor)
    except Exception:               # noqa: BLE001
        pass
    return obs


def user_ops(m, b, toks, ops):
    """what the strategy does inside the bar, before the bar's update(): the views are read first (a strategy looks at its health factor before it
    acts, so the market's caches are warm), then the operations run against the real market; a refusal is the strategy's business.
    Liquidation is due on what the bar's END state says, whatever the views said earlier in the bar."""
    m._record_action_callback = lambda a: None      # the user's own action records are not liquidation records
    for o in ops:
        try:
            for v in ("health_factor", "borrows_value", "supplies_value", "collateral_value", "borrows", "supplies"):
                getattr(m, v)
        except Exception:  # noqa: BLE001
            pass
        t = toks[o["tok"]]
        try:
            if o["op"] in ("repay_full", "repay_part"):
                b.set_balance(t, D(10) ** 30)           # funding the wallet is not an operation on the market
                if o["op"] == "repay_full":
                    m.repay(t)
                else:
                    m.repay(t, m.get_borrow(t).amount / 2)
            elif o["op"] == "repay_with_collateral":
                m.repay(t, None, True, toks[o["coll"]])
            elif o["op"] == "supply":
                b.set_balance(t, D(10) ** 30)
                m.supply(t, D(o["amount"]), True)
            elif o["op"] == "switch_on":
                m.change_collateral(t, True)        # refused for a token the risk table does not admit (as supply(..., True) is)
        except Exception:  # noqa: BLE001
            pass


def observe(case: Case, path=(), rescue=None):
    """one observation per bar: the case's own bar, then every bar of `path` (token data of later bars) on the same market;
    `rescue` = {bar number: [user operations made inside that bar before its update()]}"""
    rescue = {int(k): v for k, v in (rescue or {}).items()}
    m, b, toks, _ = L.build(case)
    if 0 in rescue:
        user_ops(m, b, toks, rescue[0])
    out = [observe_bar(m, b, list(case.toks))]
    for k, t in enumerate(path):
        if out[-1]["exc"] is not None:
            break
        L.set_bar(m, t)
        if k + 1 in rescue:
            user_ops(m, b, toks, rescue[k + 1])
        out.append(observe_bar(m, b, list(case.toks)))
    return out


def gen_rescue(rng, case: Case, nbars):
    """user operations inside a bar that change whether liquidation is due at its end: a debt repaid in full (the position is rescued, or at
    least one debt fewer is left), repaid in part or out of collateral, collateral topped up"""
    out = {}
    colls = [s[0] for s in case.supplies if s[2]]
    for k in range(nbars):
        if rng.random() < (0.8 if k == 0 else 0.4) and case.debts:
            ops = []
            for _ in range(rng.choice((1, 1, 2))):
                kind = rng.choice(("repay_full", "repay_full", "repay_full", "repay_part", "supply", "repay_with_collateral"))
                if kind == "supply" and colls:
                    tok = rng.choice(colls)
                    base = next(D(s[1]) for s in case.supplies if s[0] == tok)
                    ops.append({"op": "supply", "tok": tok, "amount": str((base * D(rng.choice(("0.1", "1", "5")))).normalize() or D(1))})
                elif kind == "repay_with_collateral" and colls:
                    ops.append({"op": kind, "tok": rng.choice(case.debts)[0], "coll": rng.choice(colls)})
                elif kind != "supply" and kind != "repay_with_collateral":
                    ops.append({"op": kind, "tok": rng.choice(case.debts)[0]})
            if ops:
                out[str(k)] = ops
    return out


def switch_on_case(rng, fixed=False):
    """a supply of a token the risk table does NOT admit as collateral (usageAsCollateralEnabled False, e.g. GHO: liquidation threshold 0),
    made with collateral=False, worth more than any real collateral, which the user then tries to switch on through the public call
    (rescue op `switch_on`, inside the bar) while the account is liquidatable: if the flag were accepted, `_liquidate` would pick that supply
    as the collateral to seize, `_do_liquidate` would refuse it (AssertionError, swallowed) for every debt, and nothing would be liquidated"""
    files = [f for f in L.rp_files() if any(not L.load_rp(f).loc[n].usageAsCollateralEnabled for n in L.usable_tokens(f))]
    if fixed:
        files = [f for f in files if "ethereum" in f.lower()] or files
    path = files[0] if fixed else rng.choice(files)
    rp = L.load_rp(path)
    names = L.usable_tokens(path)
    off = [n for n in names if not rp.loc[n].usageAsCollateralEnabled]
    on = [n for n in names if rp.loc[n].usageAsCollateralEnabled and rp.loc[n].reserveLiquidationThreshold > 0]
    if fixed and {"GHO", "WETH", "USDC"} <= set(names):
        # the reviewer's input: 10 WETH at 800 (was 1000), 20000 GHO, debt 7000 USDC -> HF 0.943 (WETH LT as in the file)
        toks = {"WETH": {"li": "1", "bi": "1", "p": "800"}, "GHO": {"li": "1", "bi": "1", "p": "1"}, "USDC": {"li": "1", "bi": "1", "p": "1"}}
        case = Case(path, toks, [["WETH", "10", True], ["GHO", "20000", False]], [["USDC", "7000"]], {"WETH": "7"}, {})
        return case, {"0": [{"op": "switch_on", "tok": "GHO"}]}
    z = rng.choice(off)
    c = rng.choice([n for n in on if n != z])
    d = rng.choice([n for n in names if n not in (z, c)] or [c])
    toks = {n: {"li": _idx(rng, False), "bi": _idx(rng, False), "p": _price(rng, False)} for n in dict.fromkeys([c, z, d])}
    val = L.rnd_dec(rng, 2, 6, 6)
    cbase = D(format(val / D(toks[c]["p"]) / D(toks[c]["li"]), ".25e"))
    zbase = D(format(val * D(rng.choice([2, 5, 40])) / D(toks[z]["p"]) / D(toks[z]["li"]), ".25e"))
    hf = F(rng.choice([30, 70, 94, 96, 99]), 100)
    wlt = F(cbase) * F(D(toks[c]["li"])) * F(D(toks[c]["p"])) * F(rp.loc[c].reserveLiquidationThreshold)
    dv = wlt / hf / F(D(toks[d]["p"])) / F(D(toks[d]["bi"]))
    dbase = D(format(D(dv.numerator) / D(dv.denominator), ".28e"))
    sup = [[c, str(cbase), True]]
    sup.insert(rng.randint(0, 1), [z, str(zbase), False])
    case = Case(path, toks, sup, [[d, str(dbase)]], {c: "7"}, {})
    return case, {"0": [{"op": "switch_on", "tok": z}]}


def gen_path(rng, case: Case):
    """later bars: collateral prices fall, debt prices rise, indices grow"""
    path, cur = [], case.toks
    colls = {s[0] for s in case.supplies if s[2]}
    for _ in range(rng.randint(1, 3)):
        nxt = {}
        for n, t in cur.items():
            f = D(rng.randint(55, 104)) / 100 if n in colls else D(rng.randint(97, 135)) / 100
            nxt[n] = {"li": str(D(t["li"]) * (1 + D(rng.randint(0, 5000)) / 10 ** 6)), "bi": str(D(t["bi"]) * (1 + D(rng.randint(0, 9000)) / 10 ** 6)),
                      "p": str((D(t["p"]) * f).normalize())}
        path.append(nxt)
        cur = nxt
    return path


def gen_accrual_path(rng, case: Case):
    """later bars in which every price stays what it was: only the indices move (debt faster than collateral)"""
    path, cur = [], case.toks
    for _ in range(rng.randint(1, 3)):
        nxt = {}
        for n, t in cur.items():
            nxt[n] = {"li": str(D(t["li"]) * (1 + D(rng.randint(0, 3000)) / 10 ** 6)), "bi": str(D(t["bi"]) * (1 + D(rng.randint(0, 40000)) / 10 ** 6)),
                      "p": t["p"]}
        path.append(nxt)
        cur = nxt
    return path


def sane_rows(rows, S):
    """RiskParamsSane + WF on what this case uses"""
    for n, b, c in S["supplies"]:
        r = rows[n]
        if b < 0 or r["li"] <= 0 or r["p"] <= 0:
            return False
        if c and not (r["lt"] > 0 and r["bonus"] > 0 and r["ltv"] <= r["lt"]):
            return False
    for n, b in S["debts"]:
        r = rows[n]
        if b < 0 or r["bi"] <= 0 or r["p"] <= 0:
            return False
    return True


def oracle(ctx: Ctx, case: Case, obs, tag):
    """the property's predicate on the implementation's observations; returns the list of (key, what)"""
    out = []
    rows = obs["rows"]
    S0, S1 = obs["S0"], obs["S1"]
    sane = sane_rows(rows, S0)
    E0 = Exact(S0, rows)
    hf0 = E0.hf
    # within 1e-30 of a threshold the 35-digit rounding decides, unless the implementation's own figure sits exactly on it too
    near = lambda x, c, impl=None: x is not None and abs(x - c) <= F(1, 10 ** 30) and not (x == c and impl == c)   # noqa: E731
    if obs["exc"] is not None:
        out.append((f"update.raises.{obs['exc']}", f"update() raised {obs['exc']} (HF before = {float(hf0) if hf0 is not None else 'inf'}, "
                    f"{len(obs['snaps'])} liquidation(s) recorded, attempts {obs['attempts']})"))
    if obs["W0"] != obs["W1"]:
        out.append(("update.wallet", f"wallet changed by update(): {obs['W0']} -> {obs['W1']}"))
    # --- liquidation iff HF < 1
    below = hf0 is not None and 0 < hf0 < 1
    if not near(hf0, F(1), obs["hf0_impl"]):
        if not below and (obs["snaps"] or obs["attempts"] or S1 != S0):
            out.append(("liquidate.when-healthy", f"liquidation although HF = {hf0} is not in (0,1)"))
        if below and sane and not obs["snaps"] and obs["exc"] is None:
            out.append(("liquidate.skipped", f"HF = {float(hf0):.6g} < 1 but nothing was liquidated"))
    # --- a collateral flag on a token the risk table does not admit cannot be reached through the public calls (supply and change_collateral
    # both refuse it): where the case STARTED from admitted flags only, the state the bar ends in must have admitted flags only — the `sane`
    # guard above must not excuse a liquidation that the code's own acceptance of such a flag prevents
    if obs.get("api_reached"):
        badflag = [n for n, b, c in S0["supplies"] if c and not rows[n]["cc"]]
        if badflag:
            out.append(("change_collateral.accepted-not-collateralisable",
                        f"supply of {badflag[0]} is flagged as collateral although usageAsCollateralEnabled is False (reached through the public calls)"))
            if below and not obs["snaps"] and obs["exc"] is None:
                out.append(("liquidate.skipped.flag-on-non-collateralisable", f"HF = {float(hf0):.6g} < 1 but nothing was liquidated: the most valuable "
                            f"flagged supply ({badflag[0]}) cannot be seized"))
    # --- per step
    P = S0
    seen_debts = []
    for a, Q in obs["snaps"]:
        EP, EQ = Exact(P, rows), Exact(Q, rows)
        c, d = a.collateral_token, a.debt_token
        rc, rd = rows[c], rows[d]
        pc, pd, bonus = F(rc["p"]), F(rd["p"]), F(rc["bonus"])
        seized, repaid = F(D(a.collateral_used)), F(D(a.variable_delt_liquidated))
        hfP = EP.hf
        seen_debts.append(d)
        if seized < 0 or repaid < 0:
            out.append(("step.negative", f"negative amounts in the record: seized {seized}, repaid {repaid}"))
        if hfP is not None and not near(hfP, F(95, 100), L.xfrac(a.health_factor_before)):
            cf = F(1, 2) if hfP > F(95, 100) else F(1)
            if repaid > cf * EP.deb_amount(d) * (1 + TOL):
                out.append(("step.close-factor", f"repaid {float(repaid)} of {float(EP.deb_amount(d))} {d} exceeds close factor {cf} (HF {float(hfP):.6g})"))
            # units (C12_repaid_token_units): the value to cover (USD) is used as a token amount, so the step repays min(price, close factor)
            # x amount tokens - at most; exactly when the collateral balance does not cap the seizure.  A debt token priced below the close
            # factor is repaid price x amount tokens: less than the property allows - an observation, counted, not a violation
            amt = EP.deb_amount(d)
            unit_cap = min(pd, cf) * amt
            uncapped = seized < EP.sup_amount(c) * (1 - TOL)
            if sane and repaid > unit_cap * (1 + TOL):
                out.append(("step.token-units-le", f"repaid {float(repaid)} {d} exceeds min(price {float(pd)}, close factor {cf}) x amount {float(amt)}"))
            if sane and uncapped and not close(repaid, unit_cap):
                out.append(("step.token-units", f"uncapped step repaid {float(repaid)} {d}, not min(price {float(pd)}, close factor {cf}) x amount {float(amt)} "
                            f"= {float(unit_cap)}"))
            if sane and not close(F(D(a.delt_to_cover)), amt * pd):
                out.append(("step.cover-units", f"delt_to_cover {a.delt_to_cover} is not the debt's amount x price {float(amt * pd)}"))
            if uncapped:
                ctx.count("low_priced_debt_repaid_value_units" if pd < cf else "debt_priced_at_or_above_close_factor_repaid_cf_units")
            elif pd < cf:
                ctx.count("low_priced_debt_capped_step")
        bal = EP.sup_amount(c)
        if seized > bal * (1 + TOL):
            out.append(("step.seized-exceeds-balance", f"seized {float(seized)} {c} of a balance of {float(bal)}"))
        if not close(seized * pc, repaid * pd * (1 + bonus)):
            out.append(("step.bonus", f"seized value {float(seized * pc)} != repaid value {float(repaid * pd)} x (1 + {bonus})"))
        # state change = record (collateral's own index), up to the dust sub_base_amount snaps
        dc = bal - EQ.sup_amount(c)
        if not close(dc, seized, abs_tol=MINTV * F(rc["li"]) + TOL * bal):
            out.append(("step.collateral-change", f"record says {float(seized)} {c} seized but the {c} supply went {float(bal)} -> {float(EQ.sup_amount(c))} "
                        f"(liquidity index of {c} = {rc['li']}, of {d} = {rd['li']})"))
        dd = EP.deb_amount(d) - EQ.deb_amount(d)
        if not close(dd, repaid, abs_tol=MINTV * F(rd["bi"]) + TOL * EP.deb_amount(d)):
            out.append(("step.debt-change", f"record says {float(repaid)} {d} repaid but the debt went {float(EP.deb_amount(d))} -> {float(EQ.deb_amount(d))}"))
        others_p = ([s for s in P["supplies"] if s[0] != c], [x for x in P["debts"] if x[0] != d])
        others_q = ([s for s in Q["supplies"] if s[0] != c], [x for x in Q["debts"] if x[0] != d])
        if others_p != others_q:
            out.append(("step.other-entries", "a liquidation step changed an entry other than its collateral and its debt"))
        if not close(F(D(a.collateral_after)), EQ.sup_amount(c)) or not close(F(D(a.variable_debt_after)), EQ.deb_amount(d)):
            out.append(("step.record-after", f"collateral_after/variable_debt_after ({a.collateral_after}, {a.variable_debt_after}) differ from the state "
                        f"({float(EQ.sup_amount(c))}, {float(EQ.deb_amount(d))})"))
        if not close(L.xfrac(a.health_factor_before), hfP) or not close(L.xfrac(a.health_factor_after), EQ.hf):
            out.append(("step.record-hf", "health_factor_before/after of the record differ from the recomputed figures"))
        dust = MINTV * (F(rc["li"]) * pc + F(rd["bi"]) * pd)
        scale = max(abs(EP.total_supply), abs(EP.total_debt), F(1))
        if abs((EQ.net - EP.net) + bonus * repaid * pd) > dust + TOL * scale:
            out.append(("step.net-value", f"net value changed by {float(EQ.net - EP.net)} instead of -bonus x repaid value = {float(-bonus * repaid * pd)}"))
        if any(b < 0 for _, b, _ in Q["supplies"]) or any(b < 0 for _, b in Q["debts"]):
            out.append(("step.negative-state", "negative scaled balance after a liquidation step"))
        ctx.dev(seized * pc, repaid * pd * (1 + bonus))
        P = Q
    if obs["exc"] is None and P != S1:
        out.append(("liquidate.unrecorded-change", "the state after update() differs from the state after the last recorded liquidation"))
    # --- which pair: smallest unvisited debt, largest collateral (values at the time of the attempt)
    done = []
    for (cn, dn), (St, cover) in zip(obs["attempts"], obs["attempt_states"]):
        if cn is None or dn is None:
            continue
        Et = Exact(St, rows)
        dv = dict(Et.deb_values())
        cv = {n: v for n, v, c in Et.sup_values() if c}
        if dn not in dv:
            out.append(("pick.debt-not-held", f"a liquidation step was attempted on the debt token {dn}, which the position does not owe at that moment "
                        f"(debts: { {n: float(v) for n, v in dv.items()} }) - a debt repaid earlier in the bar is still in the market's views"))
            done.append(dn)
            continue
        if any(n not in done and v < dv[dn] * (1 - TOL) for n, v in dv.items()):
            out.append(("pick.debt-not-smallest", f"liquidated debt {dn} (value {float(dv[dn])}) although a smaller unvisited debt exists: { {n: float(v) for n, v in dv.items()} }"))
        if cn not in cv or any(v > cv[cn] * (1 + TOL) for v in cv.values()):
            out.append(("pick.collateral-not-largest", f"seized from {cn} although a more valuable collateral exists: { {n: float(v) for n, v in cv.items()} }"))
        if not close(F(cover), dv[dn]):
            out.append(("pick.cover", f"value to cover {cover} is not the debt's value {float(dv[dn])}"))
        done.append(dn)
    att_debts = [d for _, d in obs["attempts"]]
    if len(set(att_debts)) != len(att_debts):
        out.append(("liquidate.debt-twice", f"a debt token was liquidated twice: {att_debts}"))
    # --- how it ends
    if obs["exc"] is None:
        E1 = Exact(S1, rows)
        hf1 = E1.hf
        ok_hf = hf1 is None or hf1 >= 1 or near(hf1, F(1), obs["hf1_impl"])
        no_coll = E1.weighted_lt == 0
        all_visited = all(n in att_debts for n, _ in S1["debts"])
        if not (ok_hf or no_coll or all_visited):
            out.append(("liquidate.ends-early", f"update() ended with HF = {float(hf1):.6g} < 1, collateral left and unvisited debts "
                        f"{[n for n, _ in S1['debts'] if n not in att_debts]}"))
    return out


def end_reason(obs):
    if obs["exc"]:
        return "exc"
    E1 = Exact(obs["S1"], obs["rows"])
    if E1.hf is None:
        return "no-debt"
    if E1.hf >= 1:
        return "hf>=1"
    if E1.weighted_lt == 0:
        return "no-collateral"
    return "all-visited"


def check_case(ctx: Ctx, case: Case, stream, tag, reqs, path=(), rescue=None):
    allobs = observe(case, path, rescue)
    rep = {"case": case.to_json(), "stream": stream, "tag": tag, "path": list(path)}
    sup_n, deb_n = {s[0] for s in case.supplies}, {d[0] for d in case.debts}
    if sup_n & deb_n:
        ctx.count("feature:same-token-supplied-and-borrowed")
    if any(s[2] and D(case.rp_over.get(s[0], {}).get("baseLTVasCollateral", "1")) == 0 for s in case.supplies):
        ctx.count("feature:zero-ltv-collateral-held")
    if any(L.TOKEN_DECIMALS.get(n.upper()) == 6 for n in sup_n | deb_n):
        ctx.count("feature:six-decimal-token-held")
    if path and all(all(t[n]["p"] == case.toks[n]["p"] for n in t) for t in path):
        ctx.count("feature:quiet-bars-only-indices-move")
    if tag in ("tiny", "dust-left"):
        ctx.count("feature:hf-in-(0,1e-6]")
    if rescue:
        rep["rescue"] = rescue
        stream += "+userops"
    rp0 = L.load_rp(case.rp_path)
    api = all((not s[2]) or bool(case.rp_over.get(s[0], {}).get("usageAsCollateralEnabled", rp0.loc[s[0]].usageAsCollateralEnabled)) for s in case.supplies)
    if rescue and any(o["op"] == "switch_on" for ops in rescue.values() for o in ops):
        ctx.count("feature:non-collateralisable-supply-switched-on-by-user")
    found = []
    for k, obs in enumerate(allobs):
        obs["api_reached"] = api
        steps = "".join(("h" if a.health_factor_before > D("0.95") else "f") + ("c" if len([s for s in Q["supplies"] if s[0] == a.collateral_token]) == 0 else "u")
                        for a, Q in obs["snaps"])
        key = (f"{stream}{'+bar' + str(k) if k else ''}:{tag if not k else 'later'}:c{sum(1 for s in obs['S0']['supplies'] if s[2])}d{len(obs['S0']['debts'])}:"
               f"{steps or '-'}:{end_reason(obs)}:{obs['exc'] or 'ok'}")
        ctx.case(key, rep)
        for kk, what in oracle(ctx, case, obs, tag):
            ctx.violate(kk, what if not k else f"(bar {k} of a price path) {what}", rep)
            found.append((kk, what))
        reqs.append((rep, obs))
    return found


def compare(ctx: Ctx, rep, obs, ans):
    def bad(what):
        ctx.disagree(what, rep)
    if "error" in ans and "state" not in ans:
        return bad(f"driver error {ans['error']}")
    if ans["outOfFuel"]:
        bad("model ran out of fuel")
    if (ans["error"] or None) != obs["exc"]:
        return bad(f"exception: impl {obs['exc']} model {ans['error']}")
    ms = [[s["tok"], F(s["base"]), s["coll"]] for s in ans["state"]["supplies"]]
    md = [[d["tok"], F(d["base"])] for d in ans["state"]["debts"]]
    is_ = [[n, F(b), c] for n, b, c in obs["S1"]["supplies"]]
    id_ = [[n, F(b)] for n, b in obs["S1"]["debts"]]
    if ms != is_ or md != id_:
        return bad(f"final state: impl {obs['S1']} model {ans['state']}")
    if ans["visited"] != [d for _, d in obs["attempts"]]:
        bad(f"visited: impl {obs['attempts']} model {ans['visited']}")
    if len(ans["actions"]) != len(obs["snaps"]):
        return bad(f"#actions: impl {len(obs['snaps'])} model {len(ans['actions'])}")
    for ma, (a, _) in zip(ans["actions"], obs["snaps"]):
        impl = {"collTok": a.collateral_token, "debtTok": a.debt_token, "toCover": L.xfrac(a.delt_to_cover), "collUsed": L.xfrac(a.collateral_used),
                "debtRepaid": L.xfrac(a.variable_delt_liquidated), "hfBefore": L.xfrac(a.health_factor_before), "hfAfter": L.xfrac(a.health_factor_after),
                "collAfter": L.xfrac(a.collateral_after), "debtAfter": L.xfrac(a.variable_debt_after)}
        for k, v in impl.items():
            mv = ma[k] if k in ("collTok", "debtTok") else L.model_num(ma[k])
            if mv != v:
                bad(f"action field {k}: impl {v} model {mv}")
    hf_impl = obs["hf1_impl"]
    if obs["exc"] is None and L.model_num(ans["after"]["hf"]) != hf_impl:
        bad(f"final HF: impl {hf_impl} model {ans['after']['hf']}")


def run(ctx: Ctx):
    for f in L.rp_files():
        bad = L.risk_sanity(f)
        ctx.note("risk_params_sane:" + f.split("/")[-1].replace("Aave Protocol Parameter ", ""), "ok" if not bad else bad[:5])
    n = ctx.scale(800, 20000)
    reqs = []
    # non-collateralisable supplies the user tries to switch on while liquidatable (one fixed input, then random ones)
    for i in range(ctx.scale(25, 400)):
        case, rescue = switch_on_case(ctx.rng, fixed=(i == 0))
        check_case(ctx, case, "special", "switch-on-noncoll", reqs, (), rescue)
    for i in range(n):
        r = ctx.rng.random()
        stream = "random" if r < 0.6 else ("boundary" if r < 0.8 else "special")
        case, tag = gen_case(ctx.rng, stream)
        path = gen_path(ctx.rng, case) if stream == "random" and ctx.rng.random() < 0.3 else ()
        if tag == "accrue":
            path = gen_accrual_path(ctx.rng, case)
        rescue = None
        if stream == "random" and tag in ("deep", "mid", "half", "at95") and len(case.debts) >= 1 and ctx.rng.random() < 0.35:
            rescue = gen_rescue(ctx.rng, case, 1 + len(path)) or None
        check_case(ctx, case, stream, tag, reqs, path, rescue)
    ctx.impl_traces = len(reqs)
    if ctx.driver_ok:
        out = driver_json([{"fn": "liquidate", "ctx": "py", "state": obs["state"]} for _, obs in reqs], exe="driver_aaverisk")
        for (rep, obs), ans in zip(reqs, out):
            compare(ctx, rep, obs, ans)
        # exact-context run of the model: the rounding gap, measured
        sub = reqs[: ctx.scale(300, 3000)]
        out = driver_json([{"fn": "liquidate", "ctx": "exact", "state": obs["state"]} for _, obs in sub], exe="driver_aaverisk")
        for (rep, obs), ans in zip(sub, out):
            if "state" not in ans or obs["exc"] is not None or ans["error"]:
                continue
            same = len(ans["actions"]) == len(obs["snaps"]) and all(
                ma["collTok"] == a.collateral_token and ma["debtTok"] == a.debt_token
                and ma["half"] == (a.health_factor_before > D("0.95"))
                and close(F(ma["debtRepaid"]), F(D(a.variable_delt_liquidated)), F(1, 10 ** 20))
                for ma, (a, _) in zip(ans["actions"], obs["snaps"]))
            if same:
                for ma, (a, _) in zip(ans["actions"], obs["snaps"]):
                    ctx.dev(F(ma["collUsed"]), F(D(a.collateral_used)))
                    ctx.dev(F(ma["debtRepaid"]), F(D(a.variable_delt_liquidated)))
            else:
                # an exact tie (HF = 0.95 / 1, equal values) that the 35-digit rounding resolves the other way
                ctx.count("exact_vs_py_branch_differs_at_tie")


def replay(ctx: Ctx, case) -> bool:
    c = Case.from_json(case["case"])
    v = check_case(Ctx(ctx.prop, ctx.tier, ctx.seed, False), c, case.get("stream", "random"), case.get("tag"), [], case.get("path") or (), case.get("rescue"))
    for k, what in v:
        print("  ", k, what)
    return not v
