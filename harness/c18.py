"""C18 — time triggers fire on exactly the bars their specification denotes (demeter/strategy/trigger.py through the real
Actuator.run loop, including retirement)."""
from __future__ import annotations

import json
import traceback
from datetime import timedelta

from common import Ctx, driver_json
import core_lib as cl

PROPERTY = "C18"
LEAN_MODULES = ["Proofs.C18", "Proofs.C18.Rerun", "Proofs.C18.Periods", "Proofs.C18.Dynamic", "Proofs.C18.DynamicLoop"]
DRIVERS = ["driver_core"]
RULE = ("random bar grids (start minute 0..1300 of the day, interval 1/2/3/5/7/10/15/30/60 min, 3..90 bars) x 1..4 triggers per run drawn "
        "from every class of trigger.py with parameters placed relative to the grid (on a bar, between bars, before the first / after the "
        "last bar, with seconds, duplicated, reversed or empty ranges, periods dividing / not dividing the interval, coinciding periods, "
        "positive / negative / sub-minute delays, immediate flag, malformed periods); in 60 % of the cases the same strategy object — with the "
        "same trigger objects, some installed by the caller before the run, the others by initialize() — is run a second time with a fresh "
        "Actuator on the same grid or on one with another start time / length, and judged against that grid; plus runs whose trigger actions "
        "change strategy.triggers while the loop iterates it (append a new trigger, remove itself, remove the next one, remove an earlier one, "
        "remove-then-append with nothing ahead, chains of installing triggers, triggers retiring on a bar where the next one is due): every when() "
        "call is recorded, a trigger installed for the whole evaluation of a bar must be evaluated once and fire iff denoted; bucket = (class, "
        "parameter class, interval class, fired-count class, retired or not, outcome) / (list changes, interval, triggers, skipped or not, adds, dels)")
TRUSTED = ["bar times are taken from the implementation's own before_bar calls (the bar index itself is C05's subject)",
           "PriceTrigger / CustomizedTrigger are not time-based and are not part of the property"]
ASSUMPTIONS = ["a hook changes strategy.triggers in place with append / remove (no insert, no rebinding while the loop runs), removes only installed triggers, "
               "and never installs an object that is installed already"]

INTERVALS = (1, 1, 1, 2, 3, 5, 5, 7, 10, 15, 30, 60)


# ------------------------------------------------------------------------------------------ generator
def gen_time(rng, bars_lo, bars_hi, step):
    """a time placed relative to the grid [bars_lo, bars_hi] (model seconds)"""
    r = rng.random()
    span = max(step, bars_hi - bars_lo)
    if r < 0.45:
        t = bars_lo + step * rng.randint(0, span // step)          # on a bar
    elif r < 0.6:
        t = bars_lo + 60 * rng.randint(0, span // 60)              # on a minute, maybe between bars
    elif r < 0.7:
        t = bars_lo - 60 * rng.randint(1, 30)                      # before the first bar
    elif r < 0.8:
        t = bars_hi + 60 * rng.randint(1, 30)                      # after the last bar
    else:
        t = bars_lo + rng.randint(0, span)                         # with seconds
    if rng.random() < 0.15:
        t += rng.randint(1, 59)                                    # seconds that to_minute drops
    return t


def gen_delta(rng, step):
    r = rng.random()
    if r < 0.35:
        return step * rng.randint(1, 6)                            # multiple of the interval
    if r < 0.75:
        return 60 * rng.choice((1, 2, 3, 4, 5, 6, 7, 9, 10, 12, 15, 20, 45, 60, 90))
    if r < 0.83:
        return rng.choice((0, -60, -120, -300))                    # non-positive
    if r < 0.93:
        return rng.choice((30, 90, 61, 59, 3601, 1))               # not whole minutes
    return 60 * rng.randint(1, 200)


def gen_pending(rng, step):
    r = rng.random()
    if r < 0.4:
        return 0
    if r < 0.6:
        return step * rng.randint(1, 5)
    if r < 0.8:
        return 60 * rng.randint(1, 30)
    if r < 0.9:
        return -60 * rng.randint(1, 12)
    return rng.choice((30, 15, 61, -30))


def gen_spec(rng, lo, hi, step):
    kind = rng.choice(("atTime", "atTimes", "atTimes", "range", "ranges", "ranges", "period", "period", "periods", "periods", "periods", "base"))
    kw = {}
    for k in rng.sample(("a", "b", "c"), rng.randint(0, 2)):
        kw[k] = rng.choice((rng.randint(-5, 5), "s%d" % rng.randint(0, 9), None, True))
    sp = {"k": kind, "kw": cl.kw_str(kw)}
    if kind == "atTime":
        sp["s"] = gen_time(rng, lo, hi, step)
    elif kind == "atTimes":
        n = rng.choice((1, 1, 2, 3, 4, 6)) if rng.random() < 0.97 else 0
        ss = [gen_time(rng, lo, hi, step) for _ in range(n)]
        if ss and rng.random() < 0.2:
            ss.append(rng.choice(ss))                              # duplicate
        sp["ss"] = ss
    elif kind == "range":
        a, b = gen_time(rng, lo, hi, step), gen_time(rng, lo, hi, step)
        if rng.random() < 0.8 and a > b:
            a, b = b, a
        sp["s"], sp["e"] = a, b
    elif kind == "ranges":
        n = rng.choice((1, 2, 2, 3, 4)) if rng.random() < 0.97 else 0
        rs = []
        for _ in range(n):
            a, b = gen_time(rng, lo, hi, step), gen_time(rng, lo, hi, step)
            if rng.random() < 0.8 and a > b:
                a, b = b, a
            rs.append([a, b])
        sp["rs"] = rs
    elif kind == "period":
        sp["d"], sp["imm"], sp["pend"] = gen_delta(rng, step), rng.random() < 0.4, gen_pending(rng, step)
    elif kind == "periods":
        n = rng.choice((1, 2, 2, 2, 3, 3, 4)) if rng.random() < 0.97 else 0
        ds = [gen_delta(rng, step) for _ in range(n)]
        if n >= 2 and rng.random() < 0.5:                          # steer towards coinciding on-grid periods
            ds = [step * rng.randint(1, 5) for _ in range(n)]
        sp["ds"], sp["imm"], sp["pend"] = ds, rng.random() < 0.4, gen_pending(rng, step)
    if kind in ("atTime", "atTimes", "range", "ranges") and rng.random() < 0.3:
        # the times as a program gets them from datetime.now() or a parsed timestamp: with a sub-second part, which the minute a time denotes ignores
        sp["us"] = rng.choice((1, 250000, 999999, rng.randint(1, 999999)))
    return sp


def gen_case(rng):
    interval = rng.choice(INTERVALS)
    step = 60 * interval
    nbars = rng.randint(3, 90) if rng.random() < 0.85 else rng.randint(1, 3)
    start = 60 * rng.randint(0, 1300)
    n_raw = max(1, interval * nbars - rng.randint(0, interval - 1))
    lo = start - start % step
    hi = lo + step * (nbars - 1)
    specs = [gen_spec(rng, lo, hi, step) for _ in range(rng.choice((1, 1, 2, 3, 4)))]
    istr = f"{interval}min"
    if interval == 60 and rng.random() < 0.5:
        istr = rng.choice(("1h", "h"))
    if interval == 1 and rng.random() < 0.1:
        istr = "min"
    case = {"start": start, "n": n_raw, "interval": interval, "istr": istr, "specs": specs}
    # the same strategy object, its trigger objects included, is run a second time with a fresh Actuator: on the same grid or on one that starts
    # at another time / has another length; `split`: the first `split` triggers are installed by the caller before the run, the rest — built
    # once as well — by initialize() on every run
    if rng.random() < 0.6:
        r = rng.random()
        case["rerun"] = ({"start": start, "n": n_raw} if r < 0.4 else
                         {"start": max(0, start + 60 * rng.randint(-40, 40)), "n": max(1, n_raw + rng.randint(-n_raw // 2, 20))})
        case["split"] = rng.randint(0, len(specs))
    return case


# ------------------------------------------------------------------------------------------ implementation run
def construct(sp, do):
    from demeter.strategy.trigger import (Trigger, AtTimeTrigger, AtTimesTrigger, TimeRange, TimeRangeTrigger, TimeRangesTrigger,
                                          PeriodTrigger, PeriodsTrigger)
    kw = json.loads(sp["kw"])
    k = sp["k"]
    us = timedelta(microseconds=int(sp.get("us", 0)))

    def at(s):
        return cl.at(s) + us
    if k == "base":
        return Trigger(do, **kw)
    if k == "atTime":
        return AtTimeTrigger(at(sp["s"]), do, **kw)
    if k == "atTimes":
        return AtTimesTrigger([at(s) for s in sp["ss"]], do, **kw)
    if k == "range":
        return TimeRangeTrigger(TimeRange(at(sp["s"]), at(sp["e"])), do, **kw)
    if k == "ranges":
        return TimeRangesTrigger([TimeRange(at(a), at(b)) for a, b in sp["rs"]], do, **kw)
    if k == "period":
        return PeriodTrigger(timedelta(seconds=sp["d"]), do, trigger_immediately=sp["imm"], pending=timedelta(seconds=sp["pend"]), **kw)
    if k == "periods":
        return PeriodsTrigger([timedelta(seconds=d) for d in sp["ds"]], do, trigger_immediately=sp["imm"],
                              pending=timedelta(seconds=sp["pend"]), **kw)
    raise ValueError(k)


def culprit(exc):
    """class and method of the trigger object in whose frame the exception was raised"""
    from demeter.strategy.trigger import Trigger
    tb = exc.__traceback__
    found = None
    while tb is not None:
        s = tb.tb_frame.f_locals.get("self")
        if isinstance(s, Trigger):
            found = f"{type(s).__name__}.{tb.tb_frame.f_code.co_name}"
        tb = tb.tb_next
    return found or "Actuator.run"


def run_impl(case):
    """returns the observations of the run and, if the case asks for it, of a second run of the same strategy object (None otherwise)"""
    cl.setup()
    from demeter import Strategy
    from demeter._typing import DemeterError

    def fresh_obs():
        return {"make": [], "fires": [], "bars": [], "live": [], "err": None, "where": None, "calls_ok": True}
    cur = {"obs": fresh_obs()}
    trigs = []

    def mk_do(i, kw_expected):
        def do(snapshot, **kw):
            obs = cur["obs"]
            if cl.kw_str(kw) != kw_expected:
                obs["calls_ok"] = False
            obs["fires"].append([cl.sec(snapshot.timestamp), i, cl.kw_str(kw)])
        return do

    made = []
    for sp in case["specs"]:
        i = len(trigs)
        try:
            trigs.append(construct(sp, mk_do(i, sp["kw"])))
            made.append(None)
        except DemeterError:
            made.append("DemeterError")
    ident = {id(t): i for i, t in enumerate(trigs)}
    # position among the constructed triggers of the first one that initialize() installs
    split = case.get("split", 0)
    n_pre = sum(1 for m in made[:split] if m is None)

    class S(Strategy):
        def initialize(self):
            self.triggers.extend(trigs[n_pre:])

        def before_bar(self, snapshot):
            cur["obs"]["bars"].append(cl.sec(snapshot.timestamp))

        def on_bar(self, snapshot):
            cur["obs"]["live"].append(sorted(ident[id(t)] for t in self.triggers))

        def finalize(self):
            # the triggers still installed when the loop has ended (Actuator.run hands the list back as it found it afterwards)
            cur["obs"]["left"] = [ident[id(t)] for t in self.triggers]

    strat = S()
    strat.triggers.extend(trigs[:n_pre])

    def one(start, n):
        obs = cur["obs"] = fresh_obs()
        obs["make"] = list(made)
        times = [start + 60 * i for i in range(n)]
        a, ms, rec = cl.build([("m", times, False)], times, case["istr"])
        a.strategy = strat
        try:
            a.run(print_result=False)
        except Exception as e:  # noqa: BLE001
            obs["err"] = type(e).__name__
            obs["where"] = culprit(e)
        obs.setdefault("left", None)
        obs["installed_after"] = [ident[id(t)] for t in strat.triggers]
        return obs

    first = one(case["start"], case["n"])
    second = None
    if case.get("rerun") and first["err"] is None:
        second = one(case["rerun"]["start"], case["rerun"]["n"])
    return first, second


# ------------------------------------------------------------------------------------------ the property, stated independently
def fl(s):
    return s - s % 60


def denoted(sp, t0, t):
    k = sp["k"]
    if k == "base":
        return False
    if k == "atTime":
        return t == fl(sp["s"])
    if k == "atTimes":
        return any(t == fl(s) for s in sp["ss"])
    if k == "range":
        return fl(sp["s"]) <= t < fl(sp["e"])
    if k == "ranges":
        return any(fl(a) <= t < fl(b) for a, b in sp["rs"])
    ds = [sp["d"]] if k == "period" else sp["ds"]
    if sp["imm"] and t == t0:
        return True
    if t <= t0:
        return False
    for d in ds:
        x = t - t0 - sp["pend"]
        if d > 0 and x % d == 0 and x // d >= 1:
            return True
    return False


def never_again(sp, t0, after, bars, step):
    """no denoted bar strictly after `after`, on the grid continued 500 steps beyond its end"""
    later = [t for t in bars if t > after] + [bars[-1] + step * j for j in range(1, 501)]
    return not any(denoted(sp, t0, t) for t in later)


MALFORMED = "statically malformed (empty list): the code raises on the first bar"


def static_error(sp):
    if sp["k"] == "atTimes" and not sp["ss"]:
        return "ValueError"
    if sp["k"] == "ranges" and not sp["rs"]:
        return "ValueError"
    if sp["k"] == "periods" and not sp["ds"]:
        return "IndexError"
    return None


def should_construct(sp):
    ds = [sp["d"]] if sp["k"] == "period" else sp.get("ds", []) if sp["k"] == "periods" else []
    return all(d % 60 == 0 and d > 0 for d in ds)


def param_class(sp, step):
    k = sp["k"]
    if k in ("period", "periods"):
        ds = [sp["d"]] if k == "period" else sp["ds"]
        c = []
        if any(d <= 0 for d in ds):
            c.append("nonpos")
        if any(d % 60 for d in ds):
            c.append("submin")
        if any(d > 0 and d % step for d in ds):
            c.append("offgrid")
        if sp["pend"] % step:
            c.append("pend-offgrid")
        if sp["pend"] < 0:
            c.append("pend-neg")
        if sp["imm"]:
            c.append("imm")
        if k == "periods":
            c.append(f"n{min(len(ds), 3)}")
        return "+".join(c) or "plain"
    if k == "atTimes":
        return f"n{min(len(sp['ss']), 3)}"
    if k == "ranges":
        return f"n{min(len(sp['rs']), 3)}"
    if k == "range":
        return "reversed" if fl(sp["e"]) <= fl(sp["s"]) else "fwd"
    return "-"


def check_case(ctx: Ctx, case, reqs=None):
    """run the implementation on the case (and, if asked for, the same strategy object a second time), evaluate the property on what it did;
    queue the model requests"""
    if case.get("dyn"):
        obs = run_dyn_impl(case)
        judge_dyn(ctx, case, obs, reqs)
        return obs
    first, second = run_impl(case)
    judge(ctx, case, first, reqs, False)
    if second is not None:
        judge(ctx, case, second, reqs, True)
        n_pre = sum(1 for m in first["make"][:case.get("split", 0)] if m is None)
        if first["installed_after"] != list(range(n_pre)) or second["installed_after"] != list(range(n_pre)):
            ctx.violate("Actuator.run:trigger-list-not-handed-back",
                        f"strategy.triggers held the caller's {n_pre} triggers before the run, {first['installed_after']} after it and "
                        f"{second['installed_after']} after the second run", dict(case))
    return first


def judge(ctx: Ctx, case, obs, reqs, rerun):
    """the property on one run.  In a second run of the same trigger objects every specification denotes what it denotes for a fresh object
    on that run's own grid (the periods count from that run's first bar)"""
    specs = case["specs"]
    step = 60 * case["interval"]
    rep = dict(case)
    bars = obs["bars"]
    installed = [sp for sp, m in zip(specs, obs["make"]) if m is None]
    # constructor: rejects exactly periods that are not a positive whole number of minutes
    for sp, m in zip(specs, obs["make"]):
        if (m is None) != should_construct(sp):
            cls = "PeriodTrigger" if sp["k"] == "period" else "PeriodsTrigger"
            ctx.violate(f"{cls}.__init__:non-positive-period-accepted" if m is None else f"{cls}.__init__:valid-period-rejected",
                        f"{cls}({'accepted' if m is None else 'rejected'}) time_delta={sp.get('d', sp.get('ds'))} s", rep)
    stat = [static_error(sp) for sp in installed]
    t0 = bars[0] if bars else None
    if obs["err"] is not None:
        if any(stat) and obs["err"] in stat:
            for sp in installed:
                ctx.case(f"{sp['k']}:{param_class(sp, step)}:i{case['interval']}:raises-{obs['err']}")
            ctx.count("malformed_runs")
        else:
            ctx.violate(f"{obs['where']}:{obs['err']}",
                        f"{obs['where']} raised {obs['err']} on the bar at {bars[-1] if bars else None}s; triggers {json.dumps(installed)[:300]}", rep)
            for sp in installed:
                ctx.case(f"{sp['k']}:{param_class(sp, step)}:i{case['interval']}:raises-{obs['err']}")
    else:
        if not obs["calls_ok"]:
            ctx.violate("Trigger.do:kwargs", "an action was called with keyword arguments other than the ones supplied", rep)
        for i, sp in enumerate(installed):
            got = [f[0] for f in obs["fires"] if f[1] == i]
            want = [t for t in bars if denoted(sp, t0, t)]
            cls = {"atTime": "AtTimeTrigger", "atTimes": "AtTimesTrigger", "range": "TimeRangeTrigger", "ranges": "TimeRangesTrigger",
                   "period": "PeriodTrigger", "periods": "PeriodsTrigger", "base": "Trigger"}[sp["k"]]
            retired_at = None
            for b, live in zip(bars, obs["live"]):
                if i not in live:
                    retired_at = b
                    break
            if got != want:
                pc = param_class(sp, step)
                if rerun:
                    cause = "second-run-of-the-same-object"
                elif sp["k"] in ("period", "periods"):
                    cause = "off-grid-due-time" if ("offgrid" in pc or "pend-offgrid" in pc or "pend-neg" in pc) else "coinciding-periods"
                elif retired_at is not None and any(t > retired_at for t in want):
                    cause = "retired-early"
                else:
                    cause = "fired!=denoted"
                missing = [t for t in want if t not in got]
                extra = [t for t in got if t not in want]
                ctx.violate(f"{cls}.when:{cause}",
                            f"{'the same ' + cls + ' object in a second run (installed by ' + ('the caller' if i < sum(1 for m in obs['make'][:case.get('split', 0)] if m is None) else 'initialize()') + ')' if rerun else cls} "
                        f"{json.dumps({k: v for k, v in sp.items() if k != 'kw'})} on the grid start={bars[0]}s step={step}s n={len(bars)}: "
                            f"fired {len(got)} times, denoted {len(want)}; missing {missing[:6]} extra {extra[:6]}", rep)
            if retired_at is not None and not never_again(sp, t0, retired_at, bars, step):
                ctx.violate(f"{cls}.is_out_date:retired-while-it-can-fire", f"{cls} retired at {retired_at}s although a later time is denoted", rep)
            fc = "0" if not want else "1" if len(want) == 1 else "some" if len(want) < len(bars) else "all"
            ctx.case(f"{sp['k']}:{param_class(sp, step)}:i{case['interval']}:f{fc}:{'retired' if retired_at is not None else 'kept'}" +
                     ((":rerun-same-grid" if case["rerun"]["start"] == case["start"] and case["rerun"]["n"] == case["n"] else ":rerun-other-grid") if rerun else ""),
                     {"spec": sp, "interval": case["interval"], "bars": len(bars), "fired": len(got)})
    if reqs is not None and bars:
        reqs.append((rep, obs, {"fn": "trig_run", "bars": [str(b) for b in bars],
                                "specs": [{k: ([[str(a), str(b)] for a, b in v] if k == "rs" else [str(x) for x in v] if isinstance(v, list)
                                               else str(v) if isinstance(v, int) and not isinstance(v, bool) else v)
                                           for k, v in sp.items()} for sp in specs]}))


# ------------------------------------------------------------------------------------------ actions that change strategy.triggers while the loop runs
def gen_often(rng, lo, hi, step, new_id=None):
    """a trigger that is due on many bars, so that what happens around it shows"""
    sp = rng.choice(({"k": "range", "kw": "{}", "s": lo, "e": hi + step},
                     {"k": "period", "kw": "{}", "d": step, "imm": True, "pend": 0},
                     {"k": "period", "kw": "{}", "d": 2 * step, "imm": rng.random() < 0.5, "pend": 0},
                     {"k": "periods", "kw": "{}", "ds": [step, 3 * step], "imm": False, "pend": 0},
                     {"k": "ranges", "kw": "{}", "rs": [[lo, lo + 3 * step], [lo + 5 * step, hi + step]]},
                     {"k": "atTimes", "kw": "{}", "ss": [lo + step * j for j in range(0, 40, 2)]},
                     {"k": "atTime", "kw": "{}", "s": lo + step * rng.randint(0, 5)}))
    sp = dict(sp, kw=cl.kw_str({"n": rng.randint(0, 9)}) if rng.random() < 0.3 else "{}")
    if new_id is not None:
        sp["id"] = new_id
    return sp


def gen_dyn_case(rng):
    interval = rng.choice((1, 1, 2, 5, 15, 60))
    step = 60 * interval
    nbars = rng.randint(3, 14)
    start = 60 * rng.randint(0, 1300)
    lo = start - start % step
    hi = lo + step * (nbars - 1)
    n0 = rng.choice((1, 2, 2, 3, 3, 4))
    specs = []
    for _ in range(n0):
        sp = gen_often(rng, lo, hi, step) if rng.random() < 0.7 else gen_spec(rng, lo, hi, step)
        if not should_construct(sp) or static_error(sp) is not None:
            sp = gen_often(rng, lo, hi, step)
        specs.append(sp)
    ids = list(range(n0))
    nxt = n0
    muts = []
    for _ in range(rng.choice((1, 2, 2, 3, 4, 6))):
        row = rng.randrange(nbars)
        who = rng.choice(ids)
        k = rng.random()
        body = []
        if k < 0.3:
            body.append(["del", who])                              # one-shot: removes itself
        elif k < 0.45:
            body.append(["del", rng.choice(ids)])                  # another one: before or behind the cursor
        elif k < 0.8:
            body.append(["add", gen_often(rng, lo, hi, step, nxt)])
            ids.append(nxt)
            nxt += 1
            if rng.random() < 0.3:
                body.append(["del", who])                          # replaces itself
        else:
            body.append(["del", who])
            body.append(["add", gen_often(rng, lo, hi, step, nxt)])   # with nothing ahead the new one lands in a passed slot
            ids.append(nxt)
            nxt += 1
        ent = next((e for e in muts if e[0] == row and e[1] == who), None)
        if ent is None:
            muts.append([row, who, body])
        else:
            ent[2].extend(body)
    return {"start": start, "n": max(1, interval * nbars - rng.randint(0, interval - 1)), "interval": interval, "istr": f"{interval}min",
            "specs": specs, "muts": muts, "dyn": True}


def run_dyn_impl(case):
    """the real Actuator with actions that append to / remove from strategy.triggers; every when() call is recorded"""
    cl.setup()
    from demeter import Strategy
    obs = {"fires": [], "bars": [], "evals": [], "start": [], "live": [], "err": None, "where": None, "left": None, "changes": []}
    objs = {}
    ident = {}
    table = {(r, i): body for r, i, body in case["muts"]}
    state = {"row": -1}
    strat = [None]

    def install(sp, i):
        def do(snapshot, **kw):
            obs["fires"].append([cl.sec(snapshot.timestamp), i, cl.kw_str(kw)])
            for m in table.get((snapshot.row_id, i), []):
                if m[0] == "add":
                    t = install(m[1], m[1]["id"])
                    strat[0].triggers.append(t)
                    obs["changes"].append([snapshot.row_id, "add", m[1]["id"]])
                else:
                    t = objs.get(m[1])
                    if t is not None and t in strat[0].triggers:
                        strat[0].triggers.remove(t)
                        obs["changes"].append([snapshot.row_id, "del", m[1]])
        t = construct(sp, do)
        inner = t.when

        def when(snapshot):
            obs["evals"].append([snapshot.row_id, i])
            return inner(snapshot)
        t.when = when
        objs[i] = t
        ident[id(t)] = i
        return t
    first = [install(sp, i) for i, sp in enumerate(case["specs"])]

    class S(Strategy):
        def initialize(self):
            self.triggers.extend(first)

        def before_bar(self, snapshot):
            obs["bars"].append(cl.sec(snapshot.timestamp))
            obs["start"].append([ident[id(t)] for t in self.triggers])

        def on_bar(self, snapshot):
            obs["live"].append([ident[id(t)] for t in self.triggers])

        def finalize(self):
            obs["left"] = [ident[id(t)] for t in self.triggers]
    strat[0] = S()
    times = [case["start"] + 60 * i for i in range(case["n"])]
    a, ms, rec = cl.build([("m", times, False)], times, case["istr"])
    a.strategy = strat[0]
    try:
        a.run(print_result=False)
    except Exception as e:  # noqa: BLE001
        obs["err"] = type(e).__name__
        obs["where"] = culprit(e)
    return obs


def judge_dyn(ctx: Ctx, case, obs, reqs):
    """the property for triggers that come and go while the loop runs: a trigger that is installed when the evaluation of a bar starts (or is
    installed during it) and is not removed during it is evaluated on that bar — exactly once —, and its action is called iff the bar is one of
    the times its specification denotes (counted from the first bar it was evaluated on)"""
    rep = dict(case)
    bars = obs["bars"]
    specs = {i: sp for i, sp in enumerate(case["specs"])}
    for _, _, body in case["muts"]:
        for m in body:
            if m[0] == "add":
                specs[m[1]["id"]] = m[1]
    if obs["err"] is not None:
        ctx.violate(f"{obs['where']}:{obs['err']}", f"{obs['where']} raised {obs['err']} in a run whose actions install / remove triggers", rep)
        return
    skipped = {}
    for r, t in enumerate(bars):
        added = [c[2] for c in obs["changes"] if c[0] == r and c[1] == "add"]
        removed = {c[2] for c in obs["changes"] if c[0] == r and c[1] == "del"}
        evals = [i for rr, i in obs["evals"] if rr == r]
        for i in obs["start"][r] + added:
            n = evals.count(i)
            if n > 1:
                ctx.violate("Actuator.run:trigger-evaluated-twice", f"trigger {i} evaluated {n} times on bar {r}", rep)
            if i not in removed and n == 0:
                skipped.setdefault(i, []).append(r)
    t0 = {}
    for r, i in obs["evals"]:
        t0.setdefault(i, bars[r])
    for i, sp in specs.items():
        got = [f[0] for f in obs["fires"] if f[1] == i]
        ev_bars = [bars[r] for r, j in obs["evals"] if j == i]
        want = [t for t in ev_bars if denoted(sp, t0[i], t)] if i in t0 else []
        if got != want:
            ctx.violate("Actuator.run:dynamic-trigger-fired!=denoted", f"trigger {i} {json.dumps({k: v for k, v in sp.items() if k != 'kw'})} evaluated on {ev_bars[:8]} fired on "
                        f"{got[:8]}, denoted {want[:8]}", rep)
        if i in skipped:
            due = [bars[r] for r in skipped[i] if i in t0 and denoted(sp, t0[i], bars[r])]
            first_r = skipped[i][0]
            ctx.violate("Actuator.run:trigger-skipped-after-removal-during-loop",
                        f"trigger {i} {json.dumps({k: v for k, v in sp.items() if k != 'kw'})} was installed for the whole evaluation of bar {first_r} "
                        f"({bars[first_r]}s) but its when() was not called: an action removed a trigger at or before the loop's cursor on that bar "
                        f"(changes {[c for c in obs['changes'] if c[0] == first_r]}, list at the start {obs['start'][first_r]}) and the loop, which iterates the "
                        f"live list by index, passed over it" + (f"; it missed its denoted time(s) {due[:4]}" if due else ""), rep)
    kinds = sorted({m[0] for _, _, b in case["muts"] for m in b})
    ctx.case(f"dyn:{'+'.join(kinds) or 'none'}:i{case['interval']}:n{min(len(case['specs']), 3)}:{'skip' if skipped else 'noskip'}:"
             f"{'selfdel' if any(m == ['del', i] for _, i, b in case['muts'] for m in b) else '-'}:"
             f"{min(3, sum(1 for c in obs['changes'] if c[1] == 'add'))}adds:{min(3, sum(1 for c in obs['changes'] if c[1] == 'del'))}dels",
             {"bars": len(bars), "fires": len(obs["fires"]), "changes": obs["changes"][:6]})
    if reqs is not None and bars:
        reqs.append((rep, obs, {"fn": "trig_run_dyn", "bars": bars, "specs": case["specs"], "muts": case["muts"], "extra": 1000}))


def compare_dyn(ctx: Ctx, rep, obs, ans):
    if "error" in ans:
        ctx.disagree(f"driver error {ans['error']}", rep)
        return
    mf = [[int(a), int(b), c] for a, b, c in ans["fires"]]
    if obs["err"] != ans["err"]:
        ctx.disagree(f"outcome: impl raised {obs['err']} model {ans['err']}", rep)
        return
    if mf != obs["fires"]:
        k = next((i for i, (x, y) in enumerate(zip(mf, obs["fires"])) if x != y), min(len(mf), len(obs["fires"])))
        ctx.disagree(f"action calls with list changes differ at call {k}: impl {obs['fires'][k - 1:k + 3]} model {mf[k - 1:k + 3]}", rep)
        return
    if [[int(x) for x in l] for l in ans["live"]] != obs["live"]:
        ctx.disagree(f"strategy.triggers after the loop of each bar: impl {obs['live'][:6]} model {ans['live'][:6]}", rep)
    if obs["err"] is None and [int(x) for x in ans["left"]] != obs["left"]:
        ctx.disagree(f"triggers left installed: impl {obs['left']} model {ans['left']}", rep)


def fixed_dyn_cases():
    """append during do, self-removal, removal of the next trigger, removal of an earlier one, a trigger retiring on a bar where the next trigger is
    due, removal with nothing ahead followed by an append"""
    base = 8 * 3600
    whole = {"k": "range", "kw": "{}", "s": base, "e": base + 3600}
    every = {"k": "period", "kw": "{}", "d": 60, "imm": True, "pend": 0}
    out = []

    def case(specs, muts, n=8):
        return {"start": base, "n": n, "interval": 1, "istr": "1min", "specs": specs, "muts": muts, "dyn": True}
    out.append(case([whole, dict(every)], [[2, 0, [["add", dict(whole, id=2, kw=cl.kw_str({"n": 1}))]]]]))          # append during do
    out.append(case([whole, dict(every), dict(whole)], [[3, 0, [["del", 0]]]]))                                       # self-removal: the next is passed over
    out.append(case([whole, dict(every), dict(whole)], [[3, 0, [["del", 1]]]]))                                       # removal of the next trigger
    out.append(case([whole, dict(every), dict(whole)], [[3, 1, [["del", 0]]]]))                                       # removal of an earlier one
    out.append(case([{"k": "atTime", "kw": "{}", "s": base + 180}, {"k": "atTime", "kw": "{}", "s": base + 180}, dict(every)], []))   # retiring, next due
    out.append(case([{"k": "atTime", "kw": "{}", "s": base + 180}, {"k": "atTime", "kw": "{}", "s": base + 180}], [[3, 0, [["del", 0]]]]))
    out.append(case([whole], [[2, 0, [["del", 0], ["add", dict(every, id=1)]]]]))                                    # nothing ahead: the new one is not evaluated on that bar
    out.append(case([whole, dict(every)], [[1, 0, [["add", dict(whole, id=2)]]], [1, 2, [["add", dict(every, id=3)], ["del", 2]]]]))
    out.append(case([{"k": "range", "kw": "{}", "s": base, "e": base + 240}, dict(every)], [[3, 0, [["add", dict(whole, id=2)]]]]))   # last bar of a range: retires
    return out



def compare(ctx: Ctx, rep, obs, ans, specs):
    if "error" in ans:
        ctx.disagree(f"driver error {ans['error']}", rep)
        return
    if ans["make"] != obs["make"]:
        ctx.disagree(f"constructor outcome: impl {obs['make']} model {ans['make']}", rep)
        return
    mf = [[int(a), int(b), c] for a, b, c in ans["fires"]]
    if obs["err"] != ans["err"]:
        ctx.disagree(f"outcome: impl raised {obs['err']} model {ans['err']}", rep)
        return
    if mf != obs["fires"]:
        ctx.disagree(f"action calls differ: impl {obs['fires'][:8]} model {mf[:8]}", rep)
    if obs["err"] is None and [int(x) for x in ans["left"]] != obs["left"]:
        ctx.disagree(f"triggers left installed: impl {obs['left']} model {ans['left']}", rep)
    # the model's own statement of what each specification denotes agrees with the harness's
    if obs["bars"]:
        installed = [sp for sp, m in zip(specs, obs["make"]) if m is None]
        for sp, den in zip(installed, ans["denoted"]):
            want = [t for t in obs["bars"] if denoted(sp, obs["bars"][0], t)]
            if [int(x) for x in den] != want:
                ctx.disagree(f"denotation of {sp}: harness {want[:8]} model {den[:8]}", rep)


def run(ctx: Ctx):
    cl.setup()
    n = ctx.scale(900, 14000)
    reqs = []
    # the configurations named in DESIGN §1.8 first, then the random stream
    fixed = [
        {"start": 8 * 3600 + 180, "n": 20, "interval": 1, "istr": "1min", "specs": [{"k": "atTimes", "kw": "{}", "ss": [8 * 3600 + 300, 8 * 3600 + 420]}]},
        {"start": 8 * 3600 + 180, "n": 20, "interval": 1, "istr": "1min", "specs": [{"k": "periods", "kw": "{}", "ds": [120, 180], "imm": False, "pend": 0}]},
        {"start": 8 * 3600, "n": 60, "interval": 5, "istr": "5min", "specs": [{"k": "period", "kw": "{}", "d": 180, "imm": False, "pend": 0}]},
        {"start": 8 * 3600, "n": 60, "interval": 5, "istr": "5min", "specs": [{"k": "periods", "kw": "{}", "ds": [180, 600], "imm": True, "pend": 120}]},
        {"start": 0, "n": 10, "interval": 1, "istr": "1min", "specs": [{"k": "period", "kw": "{}", "d": 0, "imm": False, "pend": 60}]},
    ]
    for case in fixed:
        check_case(ctx, case, reqs)
    for _ in range(n):
        check_case(ctx, gen_case(ctx.rng), reqs)
    for case in fixed_dyn_cases():
        check_case(ctx, case, reqs)
    for _ in range(ctx.scale(250, 4000)):
        check_case(ctx, gen_dyn_case(ctx.rng), reqs)
    ctx.impl_traces = len(reqs)
    if ctx.driver_ok and reqs:
        out = driver_json([r[2] for r in reqs], exe="driver_core")
        for (rep, obs, _), ans in zip(reqs, out):
            if rep.get("dyn"):
                compare_dyn(ctx, rep, obs, ans)
            else:
                compare(ctx, rep, obs, ans, rep["specs"])


def replay(ctx: Ctx, case) -> bool:
    sub = Ctx(ctx.prop, ctx.tier, ctx.seed, False)
    try:
        check_case(sub, case, None)
    except Exception:  # noqa: BLE001
        traceback.print_exc()
        return False
    for v in sub.violations:
        print("  ", v["key"], v["what"])
    return not sub.violations
