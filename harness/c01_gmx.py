"""C01, GMX part — get_market_balance (v1: glp x glp_price + reward x wavax_price / 1e30; v2: amount x poolValue / supply) recomputed from
raw state, and its place in Broker.get_account_status for USD- and token-quoted accounts."""
from __future__ import annotations

import math
from decimal import Decimal
from fractions import Fraction as F

from common import Ctx, driver_json
import gmx_common as G
from c17 import ser_op, de_op

PROPERTY = "C01"
LEAN_MODULES = ["Proofs.C01.Gmx"]
DRIVERS = ["driver_gmx"]
RULE = ("v1: recorded and synthetic rows, states reached by 0-8 random buy/sell/update calls (incl. rejected ones) or set directly (zero, tiny, huge holdings and rewards); "
        "v2: generated pools (incl. zero supply / empty pool), holdings 0, tiny, large; after every call the market balance and the account status are recomputed from the raw "
        "state with Fractions, for an account quoted in USD and one quoted in WETH; bucket = (version, last operation, outcome, holding class, quote token)")
TRUSTED = ["the recomputation is written from the property text (shares x value per share + rewards x price), independent of the model; the model's value is compared too "
           "(v1 exactly under 35-digit rounding, v2 at 1e-12)"]
ASSUMPTIONS = ["prices handed to get_account_status are the row's own (token price / 1e30; v2 long/short price), as Actuator does via get_price_from_data"]


def hold_cls(x) -> str:
    x = F(x)
    return "0" if x == 0 else ("<0" if x < 0 else ("tiny" if x < F(1, 10 ** 6) else ("huge" if x > 10 ** 9 else "mid")))


def v1_check(ctx, w: G.V1World, last, out, pending):
    from demeter import TokenInfo
    m = w.market
    r = m.market_status.data
    spec = w.spec()
    rep = {"world": spec, "ops": []}
    bal = m.get_market_balance()
    want = F(m.glp_amount) * F(r["glp_price"]) + F(m.reward) * F(r["wavax_price"]) / G.E30
    got = F(bal.net_value)
    if not (got == want or abs(got - want) <= G.TOL30 * max(abs(got), abs(want))):
        ctx.violate("gmx.v1.balance", f"get_market_balance().net_value = {bal.net_value}, glp x glp_price + reward x wavax_price / 1e30 = {float(want)!r}", rep)
    if F(bal.glp) != F(m.glp_amount) or F(bal.reward) != F(m.reward):
        ctx.violate("gmx.v1.balance.fields", f"GmxBalance(glp={bal.glp}, reward={bal.reward}) but holding {m.glp_amount}, reward {m.reward}", rep)
    ctx.dev(got, want)
    # account status, USD-quoted and WETH-quoted
    prices = {t.name: Decimal(r[f"{t.name.lower()}_price"]) / G.E30 for t in w.broker.assets.keys() if f"{t.name.lower()}_price" in r.index}
    if len(prices) == len(w.broker.assets):
        wallet_value = sum(F(a.balance) * F(prices[k.name]) for k, a in w.broker.assets.items())
        for quote in ("USD", "WETH"):
            if quote == "WETH":
                if "weth_price" not in r.index or r["weth_price"] == 0:
                    continue
                weth_usd = Decimal(r["weth_price"]) / G.E30
                pq = {k: v / weth_usd for k, v in prices.items()}
                pq["USD"] = Decimal(1) / weth_usd
                pq["WETH"] = Decimal(1)
                w.broker.quote_token = TokenInfo("weth", 18)
                conv = F(pq["USD"])
                wv = sum(F(a.balance) * F(pq[k.name]) for k, a in w.broker.assets.items())
            else:
                pq, conv, wv = prices, F(1), wallet_value
                w.broker.quote_token = m.quote_token
            st = w.broker.get_account_status(pq)
            w.broker.quote_token = m.quote_token
            want_nv = wv + got * conv
            if not (F(st.net_value) == want_nv or abs(F(st.net_value) - want_nv) <= F(1, 10 ** 28) * max(abs(want_nv), 1)):
                ctx.violate(f"gmx.v1.account_status.{quote}", f"account net value {st.net_value} (quote {quote}) != wallet {float(wv)!r} + market {float(got * conv)!r}", rep)
            if F(st.asset_value) != wv and abs(F(st.asset_value) - wv) > F(1, 10 ** 28) * max(abs(wv), 1):
                ctx.violate(f"gmx.v1.account_status.assets.{quote}", f"asset_value {st.asset_value} != {float(wv)!r}", rep)
            ctx.case(f"v1:{last}:{out}:glp-{hold_cls(m.glp_amount)}:reward-{hold_cls(m.reward)}:{quote}", {"glp": str(m.glp_amount), "reward": str(m.reward), "nv": str(bal.net_value)})
    d = w.dump()
    pending.append((bal, rep, {"fn": "gmx1.balance", "env": w.env_json(), "state": {"glp": d["glp"], "reward": d["reward"], "wallet": d["wallet"]}}))


def run_v1(ctx: Ctx, n: int):
    pending = []
    for _ in range(n):
        row, names, kind = G.gen_v1_row(ctx.rng)
        c = ctx.rng.random()
        glp = None if c < 0.3 else (G.rand_dec(ctx.rng, -9, 12, 18) if c < 0.9 else Decimal(0))
        rew = None if ctx.rng.random() < 0.4 else G.rand_dec(ctx.rng, -9, 6, 25)
        w = G.V1World(row, names, G.gen_v1_wallet(ctx.rng, names), glp=glp, reward=rew)
        v1_check(ctx, w, "init", "-", pending)
        ctx.impl_traces += 1
        for _ in range(ctx.rng.randint(0, 8)):
            op, cls = G.gen_v1_op(ctx.rng, w)
            out, _, _ = w.apply(op)
            v1_check(ctx, w, op["kind"], "ok" if out == "ok" else "rejected", pending)
            ctx.impl_traces += 1
    if ctx.driver_ok:
        for (bal, rep, req), a in zip(pending, driver_json([p[-1] for p in pending], exe="driver_gmx")):
            if "error" in a or F(a["net_value"]) != F(bal.net_value) or F(a["glp"]) != F(bal.glp) or F(a["reward"]) != F(bal.reward):
                ctx.disagree(f"v1 balance impl {bal} model {a}"[:400], rep)


def v2_check(ctx, w: G.V2World, last, out, pending):
    from demeter import TokenInfo
    m = w.market
    d = m._market_status.data
    get = (lambda k: d[k]) if w.series else (lambda k: getattr(d, k))
    rep = {"world": w.spec(), "ops": []}
    try:
        bal = m.get_market_balance()
        o = "ok"
    except ZeroDivisionError:
        bal, o = None, "ZeroDivisionError"
    req = w.request({"kind": "balance"})
    req["op"] = {"kind": "balance"}
    pending.append((bal, o, rep, req))
    a = float(m.amount)
    if bal is None:
        ctx.case(f"v2:{last}:{out}:balance-raises:amount-{hold_cls(a)}")
        return
    pv, sup, lp, sp = (F(float(get(k))) for k in ("poolValue", "marketTokensSupply", "longPrice", "shortPrice"))
    want = F(a) * pv / sup if a > 0 else F(0)
    got = F(bal.net_value)
    tol = F(1, 10 ** 12)
    if not (got == want or abs(got - want) <= tol * max(abs(got), abs(want))):
        ctx.violate("gmx.v2.balance", f"get_market_balance().net_value = {bal.net_value}, amount x poolValue / supply = {float(want)!r}", rep)
    if F(bal.gm_amount) != F(a):
        ctx.violate("gmx.v2.balance.fields", f"gm_amount {bal.gm_amount} != amount {a!r}", rep)
    # the reported token amounts are the same value, decomposed
    parts = F(bal.long_amount) * lp + F(bal.short_amount) * sp
    if a > 0 and not (abs(parts - got) <= F(1, 10 ** 9) * max(abs(got), abs(parts))):
        ctx.violate("gmx.v2.balance.decomposition", f"long_amount x longPrice + short_amount x shortPrice = {float(parts)!r} != net_value {float(got)!r}", rep)
    ctx.dev(got, want)
    prices = {w.long.name: Decimal(float(get("longPrice"))), w.short.name: Decimal(float(get("shortPrice")))}
    if all(t.name in prices for t in w.broker.assets.keys()):
        for quote in ("USD", "WETH"):
            if quote == "WETH":
                if prices["WETH"] == 0:
                    continue
                pq = {k: v / prices["WETH"] for k, v in prices.items()}
                pq["USD"] = Decimal(1) / prices["WETH"]
                w.broker.quote_token = TokenInfo("weth", 18)
            else:
                pq = prices
                w.broker.quote_token = m.quote_token
            conv = F(pq.get("USD", 1)) if quote == "WETH" else F(1)
            st = w.broker.get_account_status(pq)
            w.broker.quote_token = m.quote_token
            wv = sum(F(x.balance) * F(pq[k.name]) for k, x in w.broker.assets.items())
            want_nv = wv + got * conv
            if not (F(st.net_value) == want_nv or abs(F(st.net_value) - want_nv) <= F(1, 10 ** 28) * max(abs(want_nv), 1)):
                ctx.violate(f"gmx.v2.account_status.{quote}", f"account net value {st.net_value} (quote {quote}) != wallet {float(wv)!r} + market {float(got * conv)!r}", rep)
            ctx.case(f"v2:{last}:{out}:amount-{hold_cls(a)}:{quote}:{'series' if w.series else 'dataclass'}", {"amount": a, "nv": str(bal.net_value)})


def run_v2(ctx: Ctx, n: int):
    pending = []
    for _ in range(n):
        pool, pcls = G.gen_v2_pool(ctx.rng)
        cfg = G.gen_v2_cfg(ctx.rng)
        series = ctx.rng.random() < 0.25 and not pcls.startswith("zero") and pool["virtualSwapInventoryLong"] is not None and pool["virtualSwapInventoryShort"] is not None
        c = ctx.rng.random()
        amount = 0.0 if c < 0.25 else (G._logu(ctx.rng, -9, -6) if c < 0.35 else (G._logu(ctx.rng, 9, 12) if c < 0.45 else round(G._logu(ctx.rng, -3, 7), 4)))
        w = G.V2World(pool, cfg, G.gen_v2_wallet(ctx.rng), amount=amount, series=series)
        v2_check(ctx, w, "init", "-", pending)
        ctx.impl_traces += 1
        for _ in range(ctx.rng.randint(0, 6)):
            op, cls = G.gen_v2_op(ctx.rng, w)
            out, _, _ = w.apply(op)
            v2_check(ctx, w, op["kind"], "ok" if out == "ok" else "rejected", pending)
            ctx.impl_traces += 1
    if ctx.driver_ok:
        for (bal, o, rep, req), a in zip(pending, driver_json([p[-1] for p in pending], exe="driver_gmx")):
            if "error" in a or a["outcome"] != o:
                ctx.disagree(f"v2 balance impl {o} model {a}"[:400], rep)
            elif o == "ok":
                bad = [k for k in ("net_value", "gm_amount", "long_amount", "short_amount") if not G.fclose(float(getattr(bal, k)), a[k])]
                if bad:
                    ctx.disagree(f"v2 balance fields {bad}: impl {bal} model {a}"[:500], rep)


def whole_run(ctx: Ctx, n_runs: int):
    """whole backtests through Actuator.run on the recorded days (buy at a random bar, sell at a later one, for WETH or WAVAX): every bar's
    reported market balance, wallet and net value against the model's own fold (bar = operations, then update) and the raw-state recomputation"""
    from datetime import datetime
    import logging
    from demeter import TokenInfo, Actuator, Strategy, MarketInfo, AtTimeTrigger, MarketTypeEnum
    from demeter.gmx import GmxMarket
    df = G.recorded_rows()
    if df is None:
        ctx.note("whole_run", "recorded CSV files are empty: skipped")
        return
    logging.disable(logging.INFO)
    key = MarketInfo("gmx", MarketTypeEnum.gmx_v1)
    for run_i in range(n_runs):
        nbars = ctx.rng.choice([120, 600]) if not ctx.thorough else len(df)
        start = ctx.rng.randrange(0, len(df) - nbars + 1)
        data = df.iloc[start:start + nbars]
        tok_name = ctx.rng.choice(["weth", "wavax"])
        tok = TokenInfo(tok_name, 18)
        amount = G.rand_dec(ctx.rng, -4, 3, 18)
        t_buy = ctx.rng.randrange(0, nbars - 1)
        t_sell = ctx.rng.randrange(t_buy, nbars)          # may be the same bar: buy then sell
        sell_part = ctx.rng.choice([None, Decimal("0.5")])

        class S(Strategy):
            def initialize(self_):
                self_.triggers.extend([AtTimeTrigger(time=data.index[t_buy].to_pydatetime(), do=self_.buy),
                                       AtTimeTrigger(time=data.index[t_sell].to_pydatetime(), do=self_.sell)])

            def buy(self_, snapshot):
                self_.broker.markets[key].buy_glp(tok, amount)

            def sell(self_, snapshot):
                mk = self_.broker.markets[key]
                mk.sell_glp(tok, mk.glp_amount * sell_part if sell_part else 0)

        m = GmxMarket(key, tokens=[TokenInfo(n, d) for n, d in G.V1_TOKENS], data=data)
        a = Actuator()
        a.broker.add_market(m)
        a.broker.set_balance(tok, amount * ctx.rng.choice([1, 2]))
        a.strategy = S()
        a.set_price(m.get_price_from_data())
        a.run(print_result=False)
        statuses = a._account_status_list
        ctx.impl_traces += nbars
        # the model's own fold over the whole run (one driver request)
        names = [n for n, _ in G.V1_TOKENS]
        rep = {"world": None, "whole_run": {"start": start, "bars": nbars, "tok": tok_name, "amount": str(amount), "t_buy": t_buy, "t_sell": t_sell,
                                            "sell_part": str(sell_part) if sell_part else None}}
        bars = []
        for k in range(nbars):
            row = data.iloc[k]
            env = {"rows": [{"name": n, "price": F(row[f"{n}_price"]), "usdg": F(row[f"{n}_usdg"]), "weight": F(int(row[f"{n}_weight"]))} for n in names],
                   "tokenSet": names, "glp": F(row["glp"]), "aum": F(row["aum"]), "usdg": F(row["usdg"]), "interval": F(float(row["interval"])),
                   "glp_price": F(row["glp_price"]), "wavax_price": F(row["wavax_price"])}
            ops = []
            if k == t_buy:
                ops.append({"kind": "buy", "tok": tok_name, "dec": 18, "amount": amount})
            if k == t_sell:
                ops.append({"kind": "sellFrac", "tok": tok_name, "dec": 18, "frac": sell_part} if sell_part else {"kind": "sell", "tok": tok_name, "dec": 18, "amount": F(0)})
            ops.append({"kind": "update"})
            bars.append({"env": env, "ops": ops})
        ok = True
        model = None
        if ctx.driver_ok:
            model = driver_json([{"fn": "gmx1.run", "state": {"glp": "0", "reward": "0", "wallet": [[tok.name, a.init_account_status.asset_balances[tok]]]}, "bars": bars}],
                                exe="driver_gmx")[0]
            if isinstance(model, dict):
                ctx.disagree(f"whole run: driver error {model}"[:300], rep)
                ok, model = False, None
        for k in range(nbars):
            row = data.iloc[k]
            st = statuses[k]
            bal = st.market_status[key]
            price = F(row[f"{tok_name}_price"]) / G.E30
            wallet_impl = F(st.asset_balances[tok])
            spec_nv = wallet_impl * price + F(bal.glp) * F(row["glp_price"]) + F(bal.reward) * F(row["wavax_price"]) / G.E30
            if abs(F(st.net_value) - spec_nv) > F(1, 10 ** 28) * max(abs(spec_nv), 1):
                ctx.violate("gmx.v1.whole_run.net_value", f"bar {k}: account net value {st.net_value} != wallet x price + glp x glp_price + reward x wavax_price/1e30 = {float(spec_nv)!r}", rep)
                break
            if model is not None:
                mb = model[k]
                if F(mb["net_value"]) != F(bal.net_value) or F(mb["glp"]) != F(bal.glp) or F(mb["reward"]) != F(bal.reward) or F(dict(map(tuple, mb["wallet"]))[tok.name]) != wallet_impl:
                    ctx.disagree(f"whole run bar {k}: impl balance {bal} wallet {wallet_impl} model {mb}"[:500], rep)
                    ok = False
                    break
        if model is not None and int(model[-1]["actions"]) != len(a.actions):
            ctx.disagree(f"whole run: {len(a.actions)} actions recorded, model {model[-1]['actions']}", rep)
            ok = False
        ctx.case(f"v1:whole-run:{tok_name}:{'same-bar' if t_buy == t_sell else 'buy-hold-sell'}:{'part' if sell_part else 'all'}:{'agree' if ok else 'DISAGREE'}",
                 rep["whole_run"], n=nbars)
    logging.disable(logging.NOTSET)


def run(ctx: Ctx):
    G.cap_violations(ctx)
    run_v1(ctx, ctx.scale(300, 6000))
    run_v2(ctx, ctx.scale(500, 10000))
    whole_run(ctx, ctx.scale(3, 8))


def replay(ctx: Ctx, case) -> bool:
    sub = Ctx(ctx.prop, ctx.tier, ctx.seed, False)
    sp = case["world"]
    if sp is None:
        print("   whole-run case: re-run ./check C01 with the same seed", case.get("whole_run"))
        return True
    if sp["ver"] == 1:
        v1_check(sub, G.V1World.from_spec(sp), "replay", "-", [])
    else:
        v2_check(sub, G.V2World.from_spec(sp), "replay", "-", [])
    for v in sub.violations:
        print("  ", v["key"], v["what"])
    return not sub.violations
