"""C01, Squeeth part — SqueethMarket.get_market_balance = effective collateral (incl. the lent LP position at the index
price) − short at mark, from the raw vault state; a lent LP position is counted by the vault and skipped by the
Uniswap market: exactly once overall (demeter/squeeth/market.py:get_market_balance, uniswap/market.py:get_market_balance)."""
from __future__ import annotations

from decimal import Decimal as D
from fractions import Fraction as F

from common import Ctx, driver_json
import squeeth_lib as L
import squeeth_gen as G

PROPERTY = "C01"
LEAN_MODULES = ["Proofs.C01.Squeeth"]
DRIVERS = ["driver_squeeth"]
RULE = ("the C14 operation sequences (vault operations with and without LP collateral, pool-side remove_liquidity, liquidations along price / "
        "norm-factor paths); after every step the raw state is valued independently (exact fractions, closed-form Uniswap amounts) and compared "
        "with SqueethMarket.get_market_balance, UniLpMarket.get_market_balance and Broker.get_account_status, and the model's views are diffed "
        "field by field; bucket = (last operation, outcome, #vaults with LP, #free positions, path kind)")
TRUSTED = ["the TWAP geometric mean is an oracle value captured from the real calc_twap_price",
           "closed-form Uniswap v3 amounts (C07) are used by the independent valuation; they are compared with the code's 35-digit values at 1e-28"]
ASSUMPTIONS = ["pool orientation token0 = WETH = quote; account quote token USD; account prices derived from the squeeth row (WETH, OSQTH*WETH)"]

TOL = F(1, 10 ** 28)


def close(a, b, scale=F(0)):
    """equal up to the 35-digit rounding of the operands (`scale` = magnitude of what was added / subtracted)"""
    a, b = L.fr(a), L.fr(b)
    return a == b or abs(a - b) <= TOL * max(abs(a), abs(b), abs(scale), F(1, 10 ** 6))


FIELDS = ["net_value", "collateral_amount", "collateral_value", "osqth_long_amount", "osqth_short_amount", "osqth_short_in_eth",
          "osqth_net_amount", "collateral_ratio"]


def observe_views(world):
    """what the three valuation entry points of the real code answer in the current state"""
    from demeter._typing import USD
    world.broker.quote_token = USD
    nf, w, o = world.cur()
    prices = {"WETH": w, "OSQTH": o * w}
    obs = {"prices": prices}
    try:
        b = world.sq.get_market_balance()
        obs["balance"] = {f: D(getattr(b, f)) for f in FIELDS}
        obs["balance"]["vault_count"] = b.vault_count
    except Exception as ex:  # noqa: BLE001
        obs["balance_err"] = type(ex).__name__
    try:
        ub = world.uni.get_market_balance()
        obs["uni_net_value"] = D(ub.net_value)
        obs["uni_count"] = ub.position_count
    except Exception as ex:  # noqa: BLE001
        obs["uni_err"] = type(ex).__name__
    try:
        st = world.broker.get_account_status(prices)
        obs["account_net_value"] = D(st.net_value)
    except Exception as ex:  # noqa: BLE001
        obs["account_err"] = type(ex).__name__
    return obs


def oracle(ctx, state, env, envj, tw, to, cur, obs, replay, last):
    nf, weth, osqth = (L.fr(x) for x in cur)
    sp = L.Spec(state, env, tw, to, nf)
    mark_usd = osqth * weth
    idx = sp.nf * sp.tw / 10000
    uni = L.fr(env["uniPrice"])
    # ---- exactly once: every pool position is either free (counted by the pool) or lent to exactly one vault
    refs = {}
    for vid, v in state["vaults"]:
        if v["nft"] is not None:
            refs.setdefault(tuple(v["nft"]), []).append(vid)
    for key, vids in refs.items():
        if key not in sp.pos:
            ctx.violate(f"squeeth.once.dangling:{last}", f"after {last}: vault(s) {vids} reference LP position {list(key)} which is not in the pool", replay)
            return
    for key, p in sp.pos.items():
        n = (0 if p["transferred"] else 1) + len(refs.get(key, []))
        if n != 1:
            ctx.violate(f"squeeth.once.count:{last}", f"after {last}: LP position {list(key)} (transferred={p['transferred']}) is referenced by vaults "
                        f"{refs.get(key, [])}: counted {n} times", replay)
            return
    # ---- get_market_balance from the raw vault state
    coll = sum((sp.eff_coll(v) for _, v in state["vaults"]), F(0))
    short = sum((L.fr(v["short"]) for _, v in state["vaults"]), F(0))
    want = {"net_value": coll * weth - short * mark_usd, "collateral_amount": coll, "collateral_value": coll * weth,
            "osqth_short_amount": short, "osqth_short_in_eth": short * sp.nf * sp.tw / 10000,
            "collateral_ratio": (coll / (short * sp.nf * sp.tw / 10000)) if short * sp.nf * sp.tw != 0 else F(0)}
    has_osqth = any(n == "OSQTH" for n, _ in state["wallet"])
    if "balance" in obs:
        want["osqth_long_amount"] = next(L.fr(b) for n, b in state["wallet"] if n == "OSQTH")
        want["osqth_net_amount"] = want["osqth_long_amount"] - short
        scale = {"net_value": coll * weth + short * mark_usd, "osqth_net_amount": want["osqth_long_amount"] + short}
        for f, x in want.items():
            if not close(obs["balance"][f], x, scale.get(f, F(0))):
                ctx.violate(f"squeeth.balance.{f}", f"after {last}: get_market_balance().{f} = {obs['balance'][f]}, raw vault state gives {float(x):.15g}", replay)
        if obs["balance"]["vault_count"] != len(state["vaults"]):
            ctx.violate("squeeth.balance.vault_count", f"vault_count {obs['balance']['vault_count']} != {len(state['vaults'])}", replay)
    elif has_osqth:
        ctx.violate(f"squeeth.balance.raises:{obs['balance_err']}", f"after {last}: get_market_balance() raised {obs['balance_err']}", replay)
    else:
        ctx.count("balance_unavailable_no_osqth_in_wallet")
    # ---- the pool counts exactly the free positions
    free = [(k, p) for k, p in sp.pos.items() if not p["transferred"]]
    uni_want = F(0)
    for k, p in free:
        w, q = sp.lp_tokens(k)
        uni_want += w + q * uni
    if "uni_net_value" in obs:
        if not close(obs["uni_net_value"], uni_want) or obs["uni_count"] != len(free):
            ctx.violate("squeeth.uni.skips-lent", f"after {last}: UniLpMarket net value {obs['uni_net_value']} / count {obs['uni_count']}, free positions are worth "
                        f"{float(uni_want):.15g} / {len(free)}", replay)
    # ---- the account: wallet + every holding once
    if "account_net_value" in obs and "balance" in obs:
        wallet = sum((L.fr(b) * (weth if n == "WETH" else mark_usd) for n, b in state["wallet"]), F(0))
        total = wallet + want["net_value"] + uni_want * weth
        if not close(obs["account_net_value"], total, wallet + coll * weth + short * mark_usd + uni_want * weth):
            ctx.violate("squeeth.account.net_value", f"after {last}: account net value {obs['account_net_value']}, independent valuation {float(total):.15g}", replay)
    return idx


def compare_views(ctx, ans, obs, replay, last):
    if "error" in ans:
        ctx.disagree(f"views after {last}: driver {ans['error']}", replay)
        return
    mb = ans["balance"]
    if "ok" in mb:
        if "balance" not in obs:
            ctx.disagree(f"views after {last}: impl raised {obs.get('balance_err')}, model answers a balance", replay)
        else:
            for f in FIELDS:
                if L.fr(mb["ok"][f]) != L.fr(obs["balance"][f]):
                    ctx.disagree(f"views after {last}: {f} impl {obs['balance'][f]} model {mb['ok'][f]}", replay)
                    break
            if int(mb["ok"]["vault_count"]) != obs["balance"]["vault_count"]:
                ctx.disagree(f"views after {last}: vault_count", replay)
    else:
        if obs.get("balance_err") != mb["err"]["cls"]:
            ctx.disagree(f"views after {last}: impl {obs.get('balance_err', 'ok')} model {mb['err']}", replay)
    if "uni_net_value" in obs:
        if L.fr(ans["uni_net_value"]) != L.fr(obs["uni_net_value"]) or int(ans["uni_count"]) != obs["uni_count"]:
            ctx.disagree(f"views after {last}: uni net value impl {obs['uni_net_value']}/{obs['uni_count']} model {ans['uni_net_value']}/{ans['uni_count']}", replay)


def sequence(ctx, pending, steps):
    rng = ctx.rng
    env = G.gen_env(rng)
    world = L.World(G.empty_state(rng, with_osqth=rng.random() > 0.04), env)
    for _ in range(rng.choice([0, 1, 1, 2, 3])):
        G.add_position(rng, world, fees=rng.random() < 0.4)
    last = "init"
    for i in range(steps + 1):
        state = world.dump_state()
        envj = L.snapshot_env(world)
        tw, to = world.sq.get_twap_price(world.weth), world.sq.get_twap_price(world.osqth)
        cur = world.cur()
        obs = observe_views(world)
        replay = {"spec": state, "env": dict(world.env), "after": last}
        oracle(ctx, state, world.env, envj, tw, to, cur, obs, replay, last)
        n_lp = sum(1 for _, v in state["vaults"] if v["nft"])
        n_free = sum(1 for _, p in state["positions"] if not p["transferred"])
        pending.append(({"fn": "views", "ctx": "py", "state": state, "env": envj}, obs, replay, last))
        ctx.case(f"{last}:lp{min(n_lp, 2)}:free{min(n_free, 2)}:v{min(len(state['vaults']), 3)}:{world.env.get('kind', '')}", {"after": last, "vaults": len(state["vaults"])})
        if i == steps:
            break
        if rng.random() < 0.3:
            env = G.shift_env(rng, world.env)
            world.set_env(env)
        st = world.dump_state()
        op, argc = G.gen_op(rng, world, st)
        err, _, _ = world.apply_op(op)
        last = f"{op['k']}:{'ok' if err is None else err}"


def run(ctx: Ctx):
    pending = []
    for _ in range(ctx.scale(110, 4000)):
        sequence(ctx, pending, ctx.rng.randint(3, 12))
    ctx.impl_traces = len(pending)
    if ctx.driver_ok and pending:
        answers = driver_json([p[0] for p in pending], exe="driver_squeeth")
        for (req, obs, replay, last), ans in zip(pending, answers):
            compare_views(ctx, ans, obs, replay, last)


def replay(ctx: Ctx, case) -> bool:
    world = L.World(G.parse_spec(case["spec"]), G.parse_env(case["env"]))
    state = world.dump_state()
    envj = L.snapshot_env(world)
    tw, to = world.sq.get_twap_price(world.weth), world.sq.get_twap_price(world.osqth)
    obs = observe_views(world)
    sub = Ctx(ctx.prop, ctx.tier, ctx.seed, False)
    oracle(sub, state, world.env, envj, tw, to, world.cur(), obs, case, case.get("after", "replay"))
    for v in sub.violations:
        print("  ", v["key"], "—", v["what"][:300])
    return not sub.violations
