"""C01, Squeeth part — SqueethMarket.get_market_balance = effective collateral (incl. the lent LP position at the index
price) − short at mark, from the raw vault state; a lent LP position is counted by the vault and skipped by the
Uniswap market: exactly once overall (demeter/squeeth/market.py:get_market_balance, uniswap/market.py:get_market_balance)."""
from __future__ import annotations

import random
from decimal import Decimal as D
from fractions import Fraction as F

from common import Ctx, driver_json
import squeeth_lib as L
import squeeth_gen as G

PROPERTY = "C01"
LEAN_MODULES = ["Proofs.C01.Squeeth"]
DRIVERS = ["driver_squeeth"]
RULE = ("the C14 operation sequences (vault operations with and without LP collateral, pool-side remove_liquidity, buy_squeeth / sell_squeeth in both "
        "parameter forms, liquidations along price / norm-factor paths); after every step the raw state is valued independently (exact fractions, closed-form Uniswap amounts) and compared "
        "with SqueethMarket.get_market_balance, UniLpMarket.get_market_balance and Broker.get_account_status, and the model's views are diffed "
        "field by field; bucket = (last operation, outcome, #vaults with LP, #free positions, path kind). "
        "interleave:* — the strategy's pool operations on the oSQTH/WETH UniLpMarket (add_liquidity on a new range / the range of a free / of a LENT position, "
        "remove_liquidity all / part / collecting or not, collect_fee all / capped, fee accrual; on free, lent and unknown positions) interleaved with vault "
        "operations (open / mint with LP collateral, deposit_uni / withdraw_uni, burn / withdraw, liquidate / reduce debt / update() after price moves): after "
        "every step the count clause (every position: not flagged and in no vault, or flagged and in exactly one vault) and the value-level exactly-once equation "
        "uniNV·WETH + squeethNV = Σ_free poolValue·WETH + Σ_vaults (coll + lent LP at the index price)·WETH − Σ short·mark on the reported figures. "
        "actuator-run-pool-ops:* — whole Actuator runs whose strategy mixes those pool operations with its vault operations (update() liquidates at bar end). "
        "direct:* / direct-directed:* — the same with DIRECT calls of the public uni_market.transfer_position_out / transfer_position_in by the strategy: "
        "the first state with a position counted 0 or 2 times ends the sequence (known findings squeeth.direct-transfer.*; without a direct call the same "
        "observation is reported under squeeth.once.flagged-without-vault / squeeth.once.vault-position-not-flagged)")
TRUSTED = ["the TWAP geometric mean is an oracle value captured from the real calc_twap_price",
           "closed-form Uniswap v3 amounts (C07) are used by the independent valuation; they are compared with the code's 35-digit values at 1e-28"]
ASSUMPTIONS = ["pool orientation token0 = WETH = quote (and the flipped pool); account prices derived from the squeeth row (WETH, OSQTH*WETH), converted into the "
               "account's quote token: USD (squeeth:account:same-quote), a stable coin with 1 USD = u of it, u in {0.97, 1.03, 2000, 0.000625, 1.0000001, 1}, or WETH "
               "(squeeth:account:other-quote:u<1|u>1|u=1|pool-quote)"]

TOL = F(1, 10 ** 28)


def close(a, b, scale=F(0)):
    """equal up to the 35-digit rounding of the operands (`scale` = magnitude of what was added / subtracted)"""
    a, b = L.fr(a), L.fr(b)
    return a == b or abs(a - b) <= TOL * max(abs(a), abs(b), abs(scale), F(1, 10 ** 6))


FIELDS = ["net_value", "collateral_amount", "collateral_value", "osqth_long_amount", "osqth_short_amount", "osqth_short_in_eth",
          "osqth_net_amount", "collateral_ratio"]


# The unit of a market's value.  SqueethMarket.quote_token is USD (its data's WETH column is the USD price of ETH, its oSQTH column is in ETH:
# net value = coll·WETH − short·oSQTH·WETH is in USD); the pool market is quoted in WETH.  Besides the USD-quoted account (Squeeth same-quote,
# pool other-quote) the account is valued quoted in a stable coin Q with 1 USD = u Q (Squeeth other-quote: × prices[USD] = u, pool: × prices[WETH]
# = weth·u) and quoted in WETH (pool same-quote, Squeeth other-quote with prices[USD] = 1/weth; outside what check_backtest admits, but
# get_account_status is a public method that does not ask).
ACCT_QUOTES = [["USDC", "0.97"], ["DAI", "1.03"], ["USDT", "2000"], ["WETH", None], ["USDC", "0.000625"], ["FDUSD", "1"], ["USDC", "1.0000001"]]
_acct_cycle = [0]


def next_acct_quote():
    _acct_cycle[0] += 1
    return ACCT_QUOTES[_acct_cycle[0] % len(ACCT_QUOTES)]


def acct_prices(acct_quote, w, o):
    """the account's price row when it is quoted in Q: (quote token name, {token: Decimal})"""
    q, u = acct_quote
    if q == "WETH":
        return q, {"WETH": D(1), "OSQTH": D(o), "USD": D(1) / D(w)}
    u = D(u)
    return q, {"WETH": D(w) * u, "OSQTH": D(o) * D(w) * u, "USD": u, q: D(1)}


def observe_views(world, acct_quote=None):
    """what the three valuation entry points of the real code answer in the current state"""
    from demeter._typing import USD
    from demeter import TokenInfo
    world.broker.quote_token = USD
    nf, w, o = world.cur()
    prices = {"WETH": w, "OSQTH": o * w}
    obs = {"prices": prices}
    try:
        b = world.sq.get_market_balance()
        obs["balance"] = {f: D(getattr(b, f)) for f in FIELDS}
        obs["balance"]["vault_count"] = b.vault_count
    except Exception as ex:  # noqa: BLE001
        obs["balance_err"] = type(ex).__name__
    try:
        ub = world.uni.get_market_balance()
        obs["uni_net_value"] = D(ub.net_value)
        obs["uni_count"] = ub.position_count
    except Exception as ex:  # noqa: BLE001
        obs["uni_err"] = type(ex).__name__
    try:
        st = world.broker.get_account_status(prices)
        obs["account_net_value"] = D(st.net_value)
    except Exception as ex:  # noqa: BLE001
        obs["account_err"] = type(ex).__name__
    # the same account quoted in another token than the Squeeth market
    obs["acct_quote"] = acct_quote = list(acct_quote) if acct_quote is not None else next_acct_quote()
    if D(w) > 0:
        qname, p2 = acct_prices(acct_quote, w, o)
        obs["prices_other"] = p2
        world.broker.quote_token = world.weth if qname == "WETH" else TokenInfo(qname.lower(), 6)
        try:
            obs["account_other_net_value"] = D(world.broker.get_account_status(p2).net_value)
        except Exception as ex:  # noqa: BLE001
            obs["account_other_err"] = f"{type(ex).__name__}({str(ex)[:60]})"
        finally:
            world.broker.quote_token = USD
    return obs


KEY_DIRECT_FLAGGED = "squeeth.direct-transfer.flagged-position-without-vault"
KEY_DIRECT_UNFLAGGED = "squeeth.direct-transfer.vault-position-not-flagged"


def oracle(ctx, state, env, envj, tw, to, cur, obs, replay, last, direct=None):
    """`direct`: None, or a description of the DIRECT transfer_position_out / _in calls the strategy made earlier in this sequence.
    Returns False when the count clause fails (the state is then outside the property's domain: the caller stops the sequence)."""
    nf, weth, osqth = (L.fr(x) for x in cur)
    sp = L.Spec(state, env, tw, to, nf)
    mark_usd = osqth * weth
    idx = sp.nf * sp.tw / 10000
    uni = L.fr(env["uniPrice"])
    # ---- exactly once (count level): every pool position is either free — not `transferred`, referenced by no vault: counted by the pool — or
    # lent — `transferred` and referenced by exactly one vault: counted by that vault, skipped by the pool
    refs = {}
    for vid, v in state["vaults"]:
        if v["nft"] is not None:
            refs.setdefault(tuple(v["nft"]), []).append(vid)
    for key, vids in refs.items():
        if key not in sp.pos:
            ctx.violate(f"squeeth.once.dangling:{last}", f"after {last}: vault(s) {vids} reference LP position {list(key)} which is not in the pool", replay)
            return False
    for key, p in sp.pos.items():
        vids = refs.get(key, [])
        n = (0 if p["transferred"] else 1) + len(vids)
        if n == 1:
            continue
        # a sequence in which the strategy itself called the public transfer_position_out / transfer_position_in is outside the property's
        # domain by design (known findings); without such a call the same observation is a regression and keeps its own key
        how = f" [history: {direct}]" if direct else ""
        if p["transferred"] and not vids:
            ctx.violate(KEY_DIRECT_FLAGGED if direct else "squeeth.once.flagged-without-vault",
                        f"after {last}: LP position {list(key)} (liquidity {p['liquidity']}, uncollected {p['p0']} / {p['p1']}) is flagged `transferred` and no vault "
                        f"references it: the pool skips it, nobody counts it: counted 0 times{how}", replay)
        elif not p["transferred"] and len(vids) == 1:
            ctx.violate(KEY_DIRECT_UNFLAGGED if direct else "squeeth.once.vault-position-not-flagged",
                        f"after {last}: LP position {list(key)} is collateral of vault {vids[0]} and is not flagged `transferred`: counted by the pool and by the "
                        f"vault: counted 2 times{how}", replay)
        else:
            ctx.violate(f"squeeth.once.count:{last}", f"after {last}: LP position {list(key)} (transferred={p['transferred']}) is referenced by vaults "
                        f"{vids}: counted {n} times{how}", replay)
        return False
    # ---- get_market_balance from the raw vault state
    coll = sum((sp.eff_coll(v) for _, v in state["vaults"]), F(0))
    short = sum((L.fr(v["short"]) for _, v in state["vaults"]), F(0))
    want = {"net_value": coll * weth - short * mark_usd, "collateral_amount": coll, "collateral_value": coll * weth,
            "osqth_short_amount": short, "osqth_short_in_eth": short * sp.nf * sp.tw / 10000,
            "collateral_ratio": (coll / (short * sp.nf * sp.tw / 10000)) if short * sp.nf * sp.tw != 0 else F(0)}
    has_osqth = any(n == "OSQTH" for n, _ in state["wallet"])
    if "balance" in obs:
        want["osqth_long_amount"] = next(L.fr(b) for n, b in state["wallet"] if n == "OSQTH")
        want["osqth_net_amount"] = want["osqth_long_amount"] - short
        scale = {"net_value": coll * weth + short * mark_usd, "osqth_net_amount": want["osqth_long_amount"] + short}
        for f, x in want.items():
            if not close(obs["balance"][f], x, scale.get(f, F(0))):
                ctx.violate(f"squeeth.balance.{f}", f"after {last}: get_market_balance().{f} = {obs['balance'][f]}, raw vault state gives {float(x):.15g}", replay)
        if obs["balance"]["vault_count"] != len(state["vaults"]):
            ctx.violate("squeeth.balance.vault_count", f"vault_count {obs['balance']['vault_count']} != {len(state['vaults'])}", replay)
    elif has_osqth:
        ctx.violate(f"squeeth.balance.raises:{obs['balance_err']}", f"after {last}: get_market_balance() raised {obs['balance_err']}", replay)
    else:
        ctx.count("balance_unavailable_no_osqth_in_wallet")
    # ---- the pool counts exactly the free positions
    free = [(k, p) for k, p in sp.pos.items() if not p["transferred"]]
    uni_want = F(0)
    for k, p in free:
        w, q = sp.lp_tokens(k)
        uni_want += w + q * uni
    if "uni_net_value" in obs:
        if not close(obs["uni_net_value"], uni_want) or obs["uni_count"] != len(free):
            ctx.violate("squeeth.uni.skips-lent", f"after {last}: UniLpMarket net value {obs['uni_net_value']} / count {obs['uni_count']}, free positions are worth "
                        f"{float(uni_want):.15g} / {len(free)}", replay)
    # ---- exactly once (value level), on what the two markets REPORT:  uniNV·WETH + squeethNV = Σ_free poolValue·WETH + Σ_vaults (coll + lent LP at
    # the index price)·WETH − Σ short · mark   (lean: C01_squeeth_balance_from_raw_state, Squeeth.lpCollateral / effColl, Views.uniNetValue)
    if "uni_net_value" in obs and "balance" in obs:
        lhs = L.fr(obs["uni_net_value"]) * weth + L.fr(obs["balance"]["net_value"])
        free_val = sum(((lambda wq: wq[0] + wq[1] * uni)(sp.lp_tokens(k)) for k, p in sp.pos.items() if not p["transferred"]), F(0))
        lent_val = F(0)
        for _, v in state["vaults"]:
            if v["nft"] is not None:
                lw, lq = sp.lp_tokens(v["nft"])
                lent_val += lw + lq * idx
        plain = sum((L.fr(v["coll"]) for _, v in state["vaults"]), F(0))
        rhs = free_val * weth + (plain + lent_val) * weth - short * mark_usd
        if not close(lhs, rhs, (free_val + plain + lent_val) * weth + short * mark_usd):
            ctx.violate("squeeth.once.value", f"after {last}: pool net value {obs['uni_net_value']} WETH x {weth} + squeeth net value {obs['balance']['net_value']} = "
                        f"{float(lhs):.15g}, the raw state is worth {float(rhs):.15g} (free positions {float(free_val):.12g} WETH, vault ETH {float(plain):.12g}, "
                        f"lent positions at the index price {float(lent_val):.12g} WETH, short {float(short):.12g} oSQTH at {float(mark_usd):.10g})", replay)
    # ---- the account: wallet + every holding once
    if "account_net_value" in obs and "balance" in obs:
        wallet = sum((L.fr(b) * (weth if n == "WETH" else mark_usd) for n, b in state["wallet"]), F(0))
        total = wallet + want["net_value"] + uni_want * weth
        ctx.case("squeeth:account:same-quote")
        if not close(obs["account_net_value"], total, wallet + coll * weth + short * mark_usd + uni_want * weth):
            ctx.violate("squeeth.account.net_value", f"after {last}: account net value {obs['account_net_value']}, independent valuation {float(total):.15g}", replay)
    # ---- the account quoted in another token than the Squeeth market: every holding once, at the ACCOUNT's price of its token
    if "prices_other" in obs and "balance" in obs and "uni_net_value" in obs:
        qn, u = obs["acct_quote"]
        P = {k: L.fr(v) for k, v in obs["prices_other"].items()}
        uclass = "pool-quote" if qn == "WETH" else ("u=1" if P["USD"] == 1 else ("u<1" if P["USD"] < 1 else "u>1"))
        ctx.case(f"squeeth:account:other-quote:{uclass}:lp{min(sum(1 for _, v in state['vaults'] if v['nft']), 1)}:free{min(len(free), 1)}:short{int(short != 0)}")
        if "account_other_err" in obs:
            ctx.violate("squeeth.account.quote-conversion:raises", f"after {last}: account quoted in {qn} (prices {obs['prices_other']}): get_account_status raised "
                        f"{obs['account_other_err']}", replay)
        else:
            wallet2 = sum((L.fr(b) * P[n] for n, b in state["wallet"]), F(0))
            total2 = wallet2 + coll * P["WETH"] - short * P["OSQTH"] + uni_want * P["WETH"]
            if not close(obs["account_other_net_value"], total2, abs(wallet2) + coll * P["WETH"] + short * P["OSQTH"] + uni_want * P["WETH"]):
                ctx.violate("squeeth.account.quote-conversion", f"after {last}: account quoted in {qn}" + (f" with 1 USD = {u} {qn}" if u else "") +
                            f", prices {({k: str(v) for k, v in obs['prices_other'].items()})}: get_account_status().net_value = "
                            f"{obs['account_other_net_value']}, every holding at the account's prices is worth {float(total2):.15g} (wallet {float(wallet2):.12g}, "
                            f"vault collateral {float(coll):.12g} WETH, short {float(short):.12g} oSQTH, free LP {float(uni_want):.12g} WETH; squeeth reports "
                            f"{obs['balance']['net_value']} USD, the pool {obs['uni_net_value']} WETH)", replay)
    return True


def compare_views(ctx, ans, obs, replay, last):
    if "error" in ans:
        ctx.disagree(f"views after {last}: driver {ans['error']}", replay)
        return
    mb = ans["balance"]
    if "ok" in mb:
        if "balance" not in obs:
            ctx.disagree(f"views after {last}: impl raised {obs.get('balance_err')}, model answers a balance", replay)
        else:
            for f in FIELDS:
                if L.fr(mb["ok"][f]) != L.fr(obs["balance"][f]):
                    ctx.disagree(f"views after {last}: {f} impl {obs['balance'][f]} model {mb['ok'][f]}", replay)
                    break
            if int(mb["ok"]["vault_count"]) != obs["balance"]["vault_count"]:
                ctx.disagree(f"views after {last}: vault_count", replay)
    else:
        if obs.get("balance_err") != mb["err"]["cls"]:
            ctx.disagree(f"views after {last}: impl {obs.get('balance_err', 'ok')} model {mb['err']}", replay)
    if "uni_net_value" in obs:
        if L.fr(ans["uni_net_value"]) != L.fr(obs["uni_net_value"]) or int(ans["uni_count"]) != obs["uni_count"]:
            ctx.disagree(f"views after {last}: uni net value impl {obs['uni_net_value']}/{obs['uni_count']} model {ans['uni_net_value']}/{ans['uni_count']}", replay)


def sequence(ctx, pending, steps):
    rng = ctx.rng
    env = G.gen_env(rng)
    world = L.World(G.empty_state(rng, with_osqth=rng.random() > 0.04), env)
    for _ in range(rng.choice([0, 1, 1, 2, 3])):
        G.add_position(rng, world, fees=rng.random() < 0.4)
    last = "init"
    for i in range(steps + 1):
        state = world.dump_state()
        envj = L.snapshot_env(world)
        tw, to = world.sq.get_twap_price(world.weth), world.sq.get_twap_price(world.osqth)
        cur = world.cur()
        obs = observe_views(world)
        replay = {"spec": state, "env": dict(world.env), "after": last, "acct_quote": obs["acct_quote"]}
        oracle(ctx, state, world.env, envj, tw, to, cur, obs, replay, last)
        n_lp = sum(1 for _, v in state["vaults"] if v["nft"])
        n_free = sum(1 for _, p in state["positions"] if not p["transferred"])
        pending.append(({"fn": "views", "ctx": "py", "state": state, "env": envj}, obs, replay, last))
        ctx.case(f"{'flip:' if world.env.get('flip') else ''}{last}:lp{min(n_lp, 2)}:free{min(n_free, 2)}:v{min(len(state['vaults']), 3)}:{world.env.get('kind', '')}", {"after": last, "vaults": len(state["vaults"])})
        if i == steps:
            break
        if rng.random() < 0.3:
            env = G.shift_env(rng, world.env)
            world.set_env(env)
        st = world.dump_state()
        op, argc = G.gen_op(rng, world, st)
        err, _, _ = world.apply_op(op)
        last = f"{op['k']}:{'ok' if err is None else err}"


def view_point(ctx, world, pending, last, tag):
    state = world.dump_state()
    envj = L.snapshot_env(world)
    tw, to = world.sq.get_twap_price(world.weth), world.sq.get_twap_price(world.osqth)
    obs = observe_views(world)
    replay = {"spec": state, "env": dict(world.env), "after": last, "acct_quote": obs["acct_quote"]}
    oracle(ctx, state, world.env, envj, tw, to, world.cur(), obs, replay, last)
    pending.append(({"fn": "views", "ctx": "py", "state": state, "env": envj}, obs, replay, last))
    ctx.case(f"{'flip:' if world.env.get('flip') else ''}{tag}:{last}", {"after": last})


def interleaved(ctx, pending, rng, direct, every=1):
    """pool operations of the strategy on the oSQTH/WETH UniLpMarket (add_liquidity on a new range / on the range of a free or of a LENT
    position, remove_liquidity, collect_fee, fee accrual) INTERLEAVED with vault operations (open / mint with an LP position as collateral,
    deposit_uni / withdraw_uni, burn / withdraw, liquidation and reduce-debt by update() after price moves).  After every step the count clause
    and the value-level exactly-once equation are evaluated on the implementation's raw state.  With `direct` the strategy also calls the public
    transfer_position_out / transfer_position_in itself: the first state in which a position is counted 0 or 2 times ends the sequence (known
    findings squeeth.direct-transfer.*).  `rng` is this stream's own generator (the draws of the other streams stay what they were)."""
    env = G.gen_env(rng, rng.choice(["spot", "twap", "twap", "shock"]))
    if rng.random() < 0.9:
        env["uniOpen"] = True
    world = L.World(G.empty_state(rng, with_osqth=True), env)
    for _ in range(rng.choice([1, 1, 2, 3])):
        G.add_position(rng, world, fees=rng.random() < 0.5)
    last, hist, side_prev, mixed = "init", [], None, 0
    steps = rng.randint(6, 16)
    pfx = "direct" if direct else "interleave"
    for i in range(steps + 1):
        state = world.dump_state()
        envj = L.snapshot_env(world)
        tw, to = world.sq.get_twap_price(world.weth), world.sq.get_twap_price(world.osqth)
        obs = observe_views(world)
        replay = {"spec": state, "env": dict(world.env), "after": last, "acct_quote": obs["acct_quote"]}
        if hist:
            replay["direct"] = "; ".join(hist)
        ok = oracle(ctx, state, world.env, envj, tw, to, world.cur(), obs, replay, last, direct="; ".join(hist) if hist else None)
        n_lp = sum(1 for _, v in state["vaults"] if v["nft"])
        n_free = sum(1 for _, p in state["positions"] if not p["transferred"])
        # remove_liquidity(pos, <int>) goes through @float_param_formatter: the position's liquidity is a Decimal from then on and the amounts are
        # computed in 35-digit Decimal arithmetic instead of integers (last-digit differences).  The Squeeth model's positions carry an integer
        # liquidity only (the Uniswap model has the flag, C01 uni part): such states are judged by the oracles alone.
        int_liq = all(isinstance(p.liquidity, int) for p in world.uni.positions.values())
        if not int_liq:
            ctx.count("interleaved_views_oracle_only_decimal_liquidity")
        elif i % every == 0 or not ok:
            pending.append(({"fn": "views", "ctx": "py", "state": state, "env": envj}, obs, replay, last))
        ctx.case(f"{'flip:' if world.env.get('flip') else ''}{pfx}:{last}:lp{min(n_lp, 2)}:free{min(n_free, 2)}{'' if ok else ':COUNT-BROKEN'}",
                 {"after": last, "vaults": len(state["vaults"]), "positions": len(state["positions"])})
        if not ok:
            ctx.count(f"{pfx}_sequences_stopped_at_count_violation")
            break
        if i == steps:
            break
        r = rng.random()
        if r < 0.18:
            world.set_env(G.shift_env(rng, world.env))
            if rng.random() < 0.85:
                world.uni.is_open = True
                world.env["uniOpen"] = True
        st = world.dump_state()
        if rng.random() < 0.5:
            op, argc = G.gen_pool_op(rng, world, st, direct=direct)
            side = "pool"
        else:
            op, argc = G.gen_lp_vault_op(rng, world, st)
            side = "vault"
        err, _, _ = world.apply_op(op)
        if side_prev is not None and side != side_prev:
            mixed += 1
        side_prev = side
        if op["k"] in ("uniTransferOut", "uniTransferIn") and err is None:
            hist.append(f"step {i + 1}: uni_market.{'transfer_position_out' if op['k'] == 'uniTransferOut' else 'transfer_position_in'}({op['pos']}) called directly")
        last = f"{op['k']}:{'ok' if err is None else err}:{argc}"
    ctx.count(f"{pfx}_sequences")
    ctx.count(f"{pfx}_side_switches", mixed)


def direct_transfer_directed(ctx, pending, rng):
    """the two shortest histories with a DIRECT call of the public transfer methods (what the Lean witness C01_fails_direct_transfer does on the
    model): (a) add liquidity, then uni_market.transfer_position_out(pos) — a flagged position no vault holds; (b) open a vault with the position
    as collateral, then uni_market.transfer_position_in(pos) — the vault's position counted by the pool as well; and the harmless round trips
    (out then in; on a lent position: in then out) after which every position is counted once again."""
    for variant in ("out", "in", "out-in", "lent-in-out"):
        env = G.gen_env(rng, rng.choice(["spot", "twap"]))
        env["uniOpen"] = True
        world = L.World(G.empty_state(rng, with_osqth=True), env)
        key = G.add_position(rng, world, fees=rng.random() < 0.5)
        if not key:
            ctx.case(f"direct-directed:{variant}:setup-rejected")
            continue
        hist = []
        if variant in ("in", "lent-in-out"):
            err, _, _ = world.apply_op({"k": "openMint", "deposit": G.dec(rng, 1, 6, 4), "mint": D(0), "vk": None, "pos": key})
            if err is not None:
                ctx.case(f"direct-directed:{variant}:setup-rejected")
                continue
        calls = {"out": ["uniTransferOut"], "in": ["uniTransferIn"], "out-in": ["uniTransferOut", "uniTransferIn"], "lent-in-out": ["uniTransferIn", "uniTransferOut"]}[variant]
        for c in calls:
            err, _, _ = world.apply_op({"k": c, "pos": key})
            hist.append(f"uni_market.{'transfer_position_out' if c == 'uniTransferOut' else 'transfer_position_in'}({key}) called directly -> {err or 'ok'}")
        state = world.dump_state()
        envj = L.snapshot_env(world)
        tw, to = world.sq.get_twap_price(world.weth), world.sq.get_twap_price(world.osqth)
        obs = observe_views(world)
        last = f"{calls[-1]}:{'ok' if err is None else err}"
        replay = {"spec": state, "env": dict(world.env), "after": last, "acct_quote": obs["acct_quote"], "direct": "; ".join(hist)}
        ok = oracle(ctx, state, world.env, envj, tw, to, world.cur(), obs, replay, last, direct="; ".join(hist))
        pending.append(({"fn": "views", "ctx": "py", "state": state, "env": envj}, obs, replay, last))
        ctx.case(f"{'flip:' if world.env.get('flip') else ''}direct-directed:{variant}:{last}{'' if ok else ':COUNT-BROKEN'}", {"after": last, "history": hist})


LP_OPS = ["reduceDebt", "reduceDebt-nobounty", "liquidate", "update", "withdrawUni", "depositUni", "uniRemove", "burnWithdraw", "openMint"]


def lent_lp_directed(ctx, pending):
    """a vault that holds an LP position as collateral (the position is `transferred`, i.e. lent), then — with the pool market open or
    CLOSED, prices as they were or shocked so that the vault is unsafe — every operation that touches the position, each from the same state.
    Whatever the call does (accepted, rejected at any point), afterwards every position is counted exactly once."""
    rng = ctx.rng
    env = G.gen_env(rng, rng.choice(["spot", "twap"]))
    env["uniOpen"] = True
    world = L.World(G.empty_state(rng, with_osqth=True), env)
    keys = [k for k in (G.add_position(rng, world, fees=rng.random() < 0.5) for _ in range(2)) if k]
    if not keys:
        return
    idx = G.index_price(world)
    dep = G.dec(rng, 1, 6, 4)
    st0 = world.dump_state()
    sp = L.Spec(st0, world.env, world.sq.get_twap_price(world.weth), world.sq.get_twap_price(world.osqth), world.cur()[0])
    lw, lq = sp.lp_tokens(keys[0])
    eff = dep + D(float(lw)) + D(float(lq)) * idx          # what the vault will hold: ETH + the position at the index price
    mint = eff / D("1.5") / idx * D(str(rng.choice([0.5, 0.9, 0.97, 0.999]))) if idx > 0 else D(1)
    err, out, _ = world.apply_op({"k": "openMint", "deposit": dep, "mint": mint, "vk": None, "pos": keys[0]})
    if err is not None:
        ctx.case("lent-lp:setup-rejected")
        return
    vk = int(out[0])
    base_spec, base_env = world.dump_state(), dict(world.env)
    for closed in (True, False):
        for shock in (None, 1.6, 0.6):
            env2 = dict(base_env)
            if shock:
                rows = [[r[0], r[1], G.q(r[2] * D(str(shock)), 4), G.q(r[3] * D(str(shock)), 10)] for r in env2["rows"]]
                env2["rows"] = rows
                env2["cur"] = [env2["cur"][0], G.q(env2["cur"][1] * D(str(shock)), 4), G.q(env2["cur"][2] * D(str(shock)), 10)]
            env2["uniOpen"] = not closed
            for name in LP_OPS:
                w = L.World(G.parse_spec(base_spec), env2)
                st = w.dump_state()
                v = dict((int(k), x) for k, x in st["vaults"])[vk]
                op = {"reduceDebt": {"k": "reduceDebt", "vk": vk, "payBounty": True}, "reduceDebt-nobounty": {"k": "reduceDebt", "vk": vk, "payBounty": False},
                      "liquidate": {"k": "liquidate", "vk": vk}, "update": {"k": "update"}, "withdrawUni": {"k": "withdrawUni", "vk": vk, "pos": keys[0]},
                      "depositUni": {"k": "depositUni", "vk": vk, "pos": keys[-1]}, "uniRemove": {"k": "uniRemove", "pos": keys[0]},
                      "burnWithdraw": {"k": "burnWithdraw", "vk": vk, "burn": v["short"] / 2, "withdraw": v["coll"] / 3},
                      "openMint": {"k": "openMint", "deposit": D(1), "mint": D(0), "vk": None, "pos": keys[0]}}[name]
                err, _, _ = w.apply_op(op)
                view_point(ctx, w, pending, f"{name}:{'ok' if err is None else err}", f"lent-lp:{'closed' if closed else 'open'}:{'shock' + str(shock) if shock else 'flat'}")


def actuator_runs(ctx, pending, rng=None, pool_ops=False):
    """whole backtests through the real Actuator: minutely oSQTH/WETH pool + SqueethMarket over a generated price / norm-factor path with a
    shock; the strategy adds liquidity, opens vaults (some with the LP position lent as collateral), deposits / withdraws the LP, burns and
    withdraws at random bars; `update()` liquidates at bar end.  At EVERY bar, after `update()`, the raw state is valued independently and
    compared with the views, and the net value the run REPORTS for that bar (`Actuator._account_status_list`) must be that same number.
    `pool_ops` (with its own `rng`): the strategy also works on the pool side — add_liquidity on new / free / lent ranges, remove_liquidity, collect_fee —
    between its vault operations."""
    import contextlib
    import io
    import logging
    import os
    import pandas as pd
    from datetime import timedelta
    os.environ["TQDM_DISABLE"] = "1"
    from demeter import Strategy, Actuator
    rng = rng or ctx.rng
    logging.disable(logging.CRITICAL)
    n = rng.randint(8, 20)
    rows = G.gen_rows(rng, n, 1, (rng.randint(2, n - 2), rng.choice([1.25, 1.5, 2.0, 0.7])))
    idx = pd.DatetimeIndex([L.BASE + timedelta(minutes=r[0]) for r in rows])
    sqdf = pd.DataFrame(index=idx, data={"norm_factor": [r[1] for r in rows], "WETH": [r[2] for r in rows], "OSQTH": [r[3] for r in rows]})
    uprices = [G.q(r[3] * D(str(1 + rng.uniform(-0.03, 0.03))), 10) for r in rows]      # pool (mark) price differs from the squeeth data's
    z = [0] * n
    unidf = pd.DataFrame(index=idx, data={"netAmount0": z, "netAmount1": z, "closeTick": z, "openTick": z, "lowestTick": z, "highestTick": z,
                                          "inAmount0": z, "inAmount1": z, "currentLiquidity": [10 ** 22] * n, "price": uprices,
                                          "volume0": [D(0)] * n, "volume1": [D(0)] * n, "open": uprices, "low": uprices, "high": uprices})
    m = L.imports()
    weth, osqth = m["TokenInfo"]("weth", 18), m["TokenInfo"]("osqth", 18)
    flip = rng.random() < 0.25
    pool = m["UniV3Pool"](osqth, weth, 0.3, weth) if flip else m["UniV3Pool"](weth, osqth, 0.3, weth)
    uni = m["UniLpMarket"](m["MarketInfo"]("Uni", m["MarketTypeEnum"].uniswap_v3), pool, data=unidf)
    sq = m["SqueethMarket"](m["MarketInfo"]("Squeeth", m["MarketTypeEnum"].squeeth), uni, data=sqdf)
    act = Actuator()
    act.broker.add_market(uni)
    act.broker.add_market(sq)
    act.broker.set_balance(weth, D(60))
    act.broker.set_balance(osqth, D(40))
    price = sqdf[["WETH", "OSQTH"]].copy()
    price["OSQTH"] = price["OSQTH"] * price["WETH"]
    act.set_price(price)
    L._patch_twap()
    view = L.World.__new__(L.World)
    view.m, view.weth, view.osqth, view.broker, view.uni, view.sq = m, weth, osqth, act.broker, uni, sq
    view.tokens = {"WETH": weth, "OSQTH": osqth}
    view.log, view.flip = [], flip
    seen = []
    kinds = set()

    class Strat(Strategy):
        def on_bar(self, snapshot):
            i = list(idx).index(snapshot.timestamp)
            view.env = {"rows": rows, "now": rows[i][0], "cur": rows[i][1:], "uniPrice": uprices[i], "uniOpen": True, "kind": "actuator-run"}
            if flip:
                view.env["flip"] = True
            for _ in range(rng.choice([0, 1, 1, 2])):
                if rng.random() < 0.25:
                    G.add_position(rng, view, fees=rng.random() < 0.3)
                    continue
                if pool_ops and rng.random() < 0.5:
                    op, _ = G.gen_pool_op(rng, view, view.dump_state())
                    view.apply_op(op)
                    kinds.add(op["k"])
                    continue
                op, _ = G.gen_lp_vault_op(rng, view, view.dump_state()) if pool_ops else G.gen_op(rng, view, view.dump_state())
                if op["k"] in ("update", "reduceDebt"):
                    continue
                view.apply_op(op)

        def after_bar(self, snapshot):
            state = view.dump_state()
            envj = L.snapshot_env(view)
            tw, to = sq.get_twap_price(weth), sq.get_twap_price(osqth)
            seen.append((state, dict(view.env), envj, tw, to, view.cur(), observe_views(view), all(isinstance(p.liquidity, int) for p in uni.positions.values())))

    act.strategy = Strat()
    try:
        with contextlib.redirect_stderr(io.StringIO()), contextlib.redirect_stdout(io.StringIO()):
            act.run(False)
    except Exception as ex:  # noqa: BLE001
        ctx.violate(f"squeeth.run.raises:{type(ex).__name__}", f"Actuator.run raised {type(ex).__name__}({str(ex)[:80]})", {"rows": rows})
    finally:
        logging.disable(logging.NOTSET)
    for k, (state, env, envj, tw, to, cur, obs, int_liq) in enumerate(seen):
        last = f"run-bar{min(k, 3)}"
        replay = {"spec": state, "env": env, "after": f"actuator run, bar {k}" + (f" (pool operations so far: {sorted(kinds)})" if pool_ops else ""), "acct_quote": obs["acct_quote"]}
        oracle(ctx, state, env, envj, tw, to, cur, obs, replay, last)
        if k < len(act._account_status_list) and "account_net_value" in obs:
            rep_nv = D(act._account_status_list[k].net_value)
            if L.fr(rep_nv) != L.fr(obs["account_net_value"]):
                ctx.violate("squeeth.run.reported-net-value", f"bar {k}: the run reports net value {rep_nv}, the account valued in the state after update() is "
                            f"{obs['account_net_value']}", replay)
        if not flip and int_liq:
            pending.append(({"fn": "views", "ctx": "py", "state": state, "env": envj}, obs, replay, last))
        n_lp = sum(1 for _, v in state["vaults"] if v["nft"])
        ctx.case(f"{'flip:' if flip else ''}actuator-run{'-pool-ops' if pool_ops else ''}:lp{min(n_lp, 2)}:v{min(len(state['vaults']), 3)}:free{min(sum(1 for _, p in state['positions'] if not p['transferred']), 2)}")
    ctx.count("actuator_runs_pool_ops" if pool_ops else "actuator_runs")


def run(ctx: Ctx):
    pending = []
    for _ in range(ctx.scale(110, 4000)):
        sequence(ctx, pending, ctx.rng.randint(3, 12))
    for _ in range(ctx.scale(6, 120)):
        lent_lp_directed(ctx, pending)
    for _ in range(ctx.scale(15, 300)):
        actuator_runs(ctx, pending)
    irng = random.Random(f"c01_squeeth.interleaved:{ctx.seed}")      # own stream
    for _ in range(ctx.scale(45, 1500)):
        interleaved(ctx, pending, irng, direct=False, every=1 if ctx.thorough else 2)
    for _ in range(ctx.scale(30, 600)):
        interleaved(ctx, pending, irng, direct=True, every=1 if ctx.thorough else 3)
    for _ in range(ctx.scale(3, 40)):
        direct_transfer_directed(ctx, pending, irng)
    for _ in range(ctx.scale(8, 200)):
        actuator_runs(ctx, pending, rng=irng, pool_ops=True)
    ctx.impl_traces = len(pending)
    if ctx.driver_ok and pending:
        modelled = [p for p in pending if not p[2]["env"].get("flip")]      # the model knows the mainnet orientation (token0 = WETH) only
        answers = driver_json([p[0] for p in modelled], exe="driver_squeeth")
        for (req, obs, replay, last), ans in zip(modelled, answers):
            compare_views(ctx, ans, obs, replay, last)


def replay(ctx: Ctx, case) -> bool:
    world = L.World(G.parse_spec(case["spec"]), G.parse_env(case["env"]))
    state = world.dump_state()
    envj = L.snapshot_env(world)
    tw, to = world.sq.get_twap_price(world.weth), world.sq.get_twap_price(world.osqth)
    obs = observe_views(world, case.get("acct_quote"))
    sub = Ctx(ctx.prop, ctx.tier, ctx.seed, False)
    oracle(sub, state, world.env, envj, tw, to, world.cur(), obs, case, case.get("after", "replay"), direct=case.get("direct"))
    for v in sub.violations:
        print("  ", v["key"], "—", v["what"][:300])
    return not sub.violations
