"""Shared by harness/c11.py and harness/c12.py (component `aaverisk`): build a real AaveV3Market in memory, dump its
raw state for the Lean model, exact-Fraction recomputation of the Aave v3 risk figures for the oracle."""
from __future__ import annotations

import glob
import os
from datetime import datetime
from decimal import Decimal as D
from fractions import Fraction as F

from common import REPO

RP_DIR = os.path.join(REPO, "tests", "aave_risk_parameters")
COLS = ["liquidity_rate", "stable_borrow_rate", "variable_borrow_rate", "liquidity_index", "variable_borrow_index"]
TS = datetime(2023, 9, 12, 15)
TOL = F(1, 10 ** 30)
_rp_cache: dict = {}
TOKEN_DECIMALS = {"USDC": 6, "USDT": 6, "WBTC": 8, "EURS": 2, "GUSD": 2, "USDC.E": 6, "USDBC": 6}


def rp_files():
    return sorted(glob.glob(os.path.join(RP_DIR, "*.csv")))


def load_rp(path):
    """the market's own loader; cached per file (the market gets a copy)"""
    from demeter.aave import helper
    if path not in _rp_cache:
        _rp_cache[path] = helper.load_risk_parameter(path)
    return _rp_cache[path]


def usable_tokens(path):
    """symbols the market can address: TokenInfo upper-cases its name, the risk table is indexed by the raw symbol"""
    rp = load_rp(path)
    return [s for s in rp.index if s == s.upper()]


def risk_sanity(path):
    """RiskParamsSane, checked on the CSV: LTV <= LT everywhere; collateral-enabled => LT > 0 and bonus > 0; 0 <= LT*(1+bonus)"""
    rp = load_rp(path)
    bad = []
    for sym, r in rp.iterrows():
        if r.baseLTVasCollateral > r.reserveLiquidationThreshold:
            bad.append(f"{sym}: LTV {r.baseLTVasCollateral} > LT {r.reserveLiquidationThreshold}")
        if r.usageAsCollateralEnabled and not (r.reserveLiquidationThreshold > 0 and r.reserveLiquidationBonus > 0):
            bad.append(f"{sym}: collateral-enabled with LT {r.reserveLiquidationThreshold}, bonus {r.reserveLiquidationBonus}")
        if r.usageAsCollateralEnabled and not (r.reserveLiquidationThreshold * (1 + r.reserveLiquidationBonus) < 1):
            bad.append(f"{sym}: LT*(1+bonus) >= 1")
        if r.baseLTVasCollateral < 0 or r.reserveLiquidationThreshold > 1:
            bad.append(f"{sym}: LTV/LT outside [0,1]")
    return bad


class Case:
    """one in-memory market: tokens with (liquidity index, borrow index, price), optional risk-parameter overrides"""

    def __init__(self, rp_path, toks: dict, supplies: list, debts: list, wallet: dict | None = None, rp_over: dict | None = None):
        self.rp_path = rp_path                  # CSV file
        self.toks = toks                        # name -> {"li","bi","p"} (strings)
        self.supplies = supplies                # [[name, base, collateral]] in dict order
        self.debts = debts                      # [[name, base]]
        self.wallet = wallet or {}              # name -> balance
        self.rp_over = rp_over or {}            # name -> {column: value-as-string | bool}

    def to_json(self):
        return {"rp": os.path.basename(self.rp_path), "toks": self.toks, "supplies": self.supplies, "debts": self.debts,
                "wallet": self.wallet, "rp_over": self.rp_over}

    @staticmethod
    def from_json(j):
        return Case(os.path.join(RP_DIR, j["rp"]), j["toks"], j["supplies"], j["debts"], j.get("wallet") or {}, j.get("rp_over") or {})


def build(case: Case):
    """-> (market, broker, token objects by name, recorded-actions list)"""
    import pandas as pd
    from demeter import MarketInfo, TokenInfo, MarketTypeEnum, Broker, MarketStatus
    from demeter.aave import AaveV3Market, SupplyInfo, BorrowInfo

    names = list(case.toks)
    tokens = {n: TokenInfo(n, TOKEN_DECIMALS.get(n.upper(), 18)) for n in names}      # decimals 6 / 8 / 18 as on chain
    m = AaveV3Market(MarketInfo("aave", MarketTypeEnum.aave_v3), case.rp_path, tokens=list(tokens.values()))
    if case.rp_over:
        rp = m._risk_parameters.copy()
        for n, cols in case.rp_over.items():
            for c, v in cols.items():
                rp.loc[n, c] = v if isinstance(v, bool) else D(v)
        m._risk_parameters = rp
    b = Broker()
    b.add_market(m)
    for n, bal in case.wallet.items():
        b.set_balance(tokens[n], D(bal))
    mi = pd.MultiIndex.from_product([names, COLS])
    data = []
    for n in names:
        t = case.toks[n]
        data += [D(0), D(0), D(0), D(t["li"]), D(t["bi"])]
    st = MarketStatus(TS)
    st.data = pd.Series(index=mi, data=data)
    m.set_market_status(data=st, price=pd.Series({n: D(case.toks[n]["p"]) for n in names}))
    for n, base, coll in case.supplies:
        m._supplies[tokens[n]] = SupplyInfo(base_amount=D(base), collateral=bool(coll), begin_supply_index=D(case.toks[n]["li"]))
    for n, base in case.debts:
        m._borrows[tokens[n]] = BorrowInfo(D(base), D(case.toks[n]["bi"]))
    acts = []
    m._record_action_callback = acts.append
    return m, b, tokens, acts


def set_bar(m, toks: dict, ts=None, refresh=False):
    """move the market to another bar: new indices and prices for the same tokens (what Actuator does once per row); `refresh`: no row is
    handed over (`MarketStatus(ts, None)`, the Actuator's second call of a bar) — the market looks it up in its own data frame"""
    import pandas as pd
    from demeter import MarketStatus
    names = list(toks)
    mi = pd.MultiIndex.from_product([names, COLS])
    data = []
    for n in names:
        t = toks[n]
        data += [D(0), D(0), D(0), D(t["li"]), D(t["bi"])]
    st = MarketStatus(ts or TS)
    if refresh:
        m._data = pd.DataFrame([data], index=[ts or TS], columns=mi, dtype=object)
    else:
        st.data = pd.Series(index=mi, data=data)
    m.set_market_status(data=st, price=pd.Series({n: D(toks[n]["p"]) for n in names}))
    if refresh:
        m._data = None      # the one-row frame was only the source of that lookup (with a frame, `is_open` would depend on its index)


def row_of(m, name):
    r = m._risk_parameters.loc[name]
    d = m._market_status.data[name]
    return {"li": D(d.liquidity_index), "bi": D(d.variable_borrow_index), "p": D(m._price_status[name]),
            "ltv": D(r.baseLTVasCollateral), "lt": D(r.reserveLiquidationThreshold), "bonus": D(r.reserveLiquidationBonus),
            "cc": bool(r.usageAsCollateralEnabled), "cb": bool(r.borrowingEnabled)}


def raw(m):
    """the raw dicts in their own iteration order (no rows)"""
    return {"supplies": [[k.name, D(v.base_amount), bool(v.collateral)] for k, v in m._supplies.items()],
            "debts": [[k.name, D(v.base_amount)] for k, v in m._borrows.items()]}


def dump(m):
    """state for the driver: every entry with its token's row for this bar"""
    return {"supplies": [{"tok": k.name, "base": D(v.base_amount), "coll": bool(v.collateral), "row": row_of(m, k.name)}
                         for k, v in m._supplies.items()],
            "debts": [{"tok": k.name, "base": D(v.base_amount), "row": row_of(m, k.name)} for k, v in m._borrows.items()]}


def wallet_of(b):
    return {k.name: D(v.balance) for k, v in b.assets.items()}


# ---------------------------------------------------------------------------------------------- exact figures (oracle)
class Exact:
    """Aave v3 definitions over an observed raw state, exact rational arithmetic (independent of the Lean model)"""

    def __init__(self, rawstate, rows):
        self.rows = rows                                    # name -> row (Decimals)
        self.sup = [(n, F(b), c) for n, b, c in rawstate["supplies"]]
        self.deb = [(n, F(b)) for n, b in rawstate["debts"]]

    def r(self, n, k):
        return F(self.rows[n][k])

    def sup_amount(self, n):
        return sum((b * self.r(n, "li") for m_, b, _ in self.sup if m_ == n), F(0))

    def deb_amount(self, n):
        return sum((b * self.r(n, "bi") for m_, b in self.deb if m_ == n), F(0))

    def sup_values(self):
        return [(n, b * self.r(n, "li") * self.r(n, "p"), c) for n, b, c in self.sup]

    def deb_values(self):
        return [(n, b * self.r(n, "bi") * self.r(n, "p")) for n, b in self.deb]

    @property
    def total_supply(self):
        return sum((v for _, v, _ in self.sup_values()), F(0))

    @property
    def total_collateral(self):
        return sum((v for _, v, c in self.sup_values() if c), F(0))

    @property
    def total_debt(self):
        return sum((v for _, v in self.deb_values()), F(0))

    @property
    def weighted_lt(self):
        return sum((v * self.r(n, "lt") for n, v, c in self.sup_values() if c), F(0))

    @property
    def weighted_ltv(self):
        return sum((v * self.r(n, "ltv") for n, v, c in self.sup_values() if c), F(0))

    @property
    def hf(self):
        """None = infinite (no debt)"""
        return None if self.total_debt == 0 else self.weighted_lt / self.total_debt

    @property
    def max_ltv(self):
        return None if self.total_collateral == 0 else self.weighted_ltv / self.total_collateral

    @property
    def liq_threshold(self):
        return None if self.total_collateral == 0 else self.weighted_lt / self.total_collateral

    @property
    def net(self):
        return self.total_supply - self.total_debt


def xfrac(x):
    """Decimal (maybe inf) -> Fraction | None"""
    x = D(x)
    return None if x.is_infinite() else F(x)


def close(a, b, tol=TOL, abs_tol=F(0)):
    if a is None or b is None:
        return a is None and b is None
    if a == b:
        return True
    return abs(a - b) <= tol * max(abs(a), abs(b)) + abs_tol


def model_num(s):
    """number printed by the driver ("inf" | decimal | n/d) -> Fraction | None"""
    return None if s == "inf" else F(s)


def rnd_dec(rng, lo_exp, hi_exp, digits):
    """log-uniform Decimal with `digits` significant digits in [10^lo_exp, 10^hi_exp)"""
    e = rng.randint(lo_exp, hi_exp - 1)
    mant = rng.randint(10 ** (digits - 1), 10 ** digits - 1)
    return D(mant).scaleb(e - digits + 1)
