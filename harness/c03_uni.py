"""C03 (Uniswap part) — at a frozen market state no UniLpMarket operation creates value, add/remove/collect conserve it up to
wallet dust, swaps lose exactly the fee, nothing becomes negative, nothing pays out more than is held."""
from __future__ import annotations

from decimal import Decimal
from fractions import Fraction

from common import Ctx, driver_json, fmt
import uni_common as U
import c04_uni as G

PROPERTY = "C03"
LEAN_MODULES = ["Proofs.C03.Uni", "Proofs.C03.UniValue", "Proofs.C03.UniKernel", "Proofs.C03.UniKeys", "Proofs.C03.UniSeq"]
DRIVERS = ["driver"]
RULE = ("[uni] sequences of 1–12 operations on one frozen status row (all public operations; amounts log-uniform 1e-9…1e12, zero, exact balance, "
        "balance*(1±1e-6), oversized x10, negative; liquidity to remove: none / part / all / more than held / zero; collect caps below / at / above "
        "pending). After every call: Broker.get_account_status net value before/after, every raw holding. "
        "Buckets = (operation, argument class, outcome, price regime of the touched range, orientation).")
TRUSTED = ["[uni] valuation theorems are for the exact rational semantics; the 35-digit rounding is covered by the dust allowance / 1e-25 relative in the oracle"]
ASSUMPTIONS = ["[uni] the account's price vector is the one derived from the same status row (base = row price, quote = 1)",
               "[uni] a caller-chosen pool price (sqrt_price_x96 / tick argument of add_liquidity_by_tick and remove_liquidity) is treated like the "
               "property's excluded 'swap with a caller-chosen execution price'; it is exercised and reported separately"]

DUST = Fraction(1, 10 ** 5)
REL = Fraction(1, 10 ** 25)


def net_value(w):
    prices = {w.pool.base_token.name: w.price, w.pool.quote_token.name: Decimal(1)}
    return Fraction(w.broker.get_account_status(prices).net_value)


def holdings_negative(w):
    bad = []
    for tok, a in w.broker.assets.items():
        if a.balance < 0:
            bad.append(f"wallet {tok.name} = {a.balance}")
    for k, p in w.market.positions.items():
        if p.liquidity < 0:
            bad.append(f"liquidity of [{k.lower_tick},{k.upper_tick}] = {p.liquidity}")
        if p.pending_amount0 < 0 or p.pending_amount1 < 0:
            bad.append(f"pending of [{k.lower_tick},{k.upper_tick}] = ({p.pending_amount0},{p.pending_amount1})")
    return bad


def amount_class(rng, bal):
    r = rng.random()
    if r < 0.08:
        return Decimal(0), "zero"
    if r < 0.2:
        return bal, "exact-balance"
    if r < 0.28:
        return bal * (1 + Decimal("0.000001")), "balance+1e-6"
    if r < 0.36:
        return bal * (1 - Decimal("0.000001")), "balance-1e-6"
    if r < 0.44:
        return bal * 10, "oversized"
    if r < 0.52:
        return -abs(G.amt(rng)), "negative"
    e = rng.randint(-9, 12)
    return Decimal(rng.randint(1, 9999)) * Decimal(10) ** (e - 3), "log-uniform"


def gen_op(rng, w, chosen_price_stream):
    pool, m, br = w.pool, w.market, w.broker
    bb, qb = br.assets[pool.base_token].balance, br.assets[pool.quote_token].balance
    keys = list(m.positions.keys())
    r = rng.random()
    if r < 0.3 or not keys:
        lo, up = G.raw_range(rng, w)
        (b, cb), (q, cq) = amount_class(rng, bb), amount_class(rng, qb)
        op = {"op": "add_by_tick", "lower": lo, "upper": up, "base": b, "quote": q, "sqrt": None, "tick": None, "trim": True}
        cls = f"{cb}/{cq}"
        if chosen_price_stream and rng.random() < 0.5:
            # any integer in the tick range is a tick, the small ones (-1, 0, 1) included
            op["tick"] = w.tick + rng.choice((-1, 1)) * rng.randint(100, 3000) if rng.random() < 0.7 else rng.choice((-1, 0, 1, -2, 2))
            cls += ":chosen-tick" + (":unit" if abs(op["tick"]) <= 2 else "")
        return op, cls
    k = rng.choice(keys)
    held = int(m.positions[k].liquidity)
    if r < 0.36:
        # more liquidity for a range that already holds a position (the position is increased, not created)
        (b, cb), (q, cq) = amount_class(rng, bb), amount_class(rng, qb)
        return {"op": "add_by_tick", "lower": k.lower_tick, "upper": k.upper_tick, "base": b, "quote": q, "sqrt": None, "tick": None, "trim": True}, f"{cb}/{cq}:again"
    if r < 0.5:
        liq, cls = rng.choice(((None, "all"), (held // 2, "part"), (held, "exact"), (held * 10 + 7, "more-than-held"), (0, "zero"), (-3, "negative")))
        op = {"op": "remove", "lower": k.lower_tick, "upper": k.upper_tick, "liq": liq, "collect": rng.random() < 0.5, "sqrt": None, "remove_dry": rng.random() < 0.8}
        if chosen_price_stream and rng.random() < 0.5:
            from demeter.uniswap.liquitidy_math import get_sqrt_ratio_at_tick
            op["sqrt"] = str(get_sqrt_ratio_at_tick(w.tick + rng.choice((-1, 1)) * rng.randint(100, 3000)))
            cls += ":chosen-sqrt"
        return op, cls
    if r < 0.62:
        p = m.positions[k]
        c0, c1, ccls = U.collect_caps(rng, p, negative=True)
        return {"op": "collect", "lower": k.lower_tick, "upper": k.upper_tick, "max0": c0, "max1": c1, "remove_dry": True,
                "to_user": rng.random() < 0.9}, ccls
    if r < 0.72:
        a, cls = amount_class(rng, bb)
        return {"op": "sell", "amount": a, "price": None}, cls
    if r < 0.82:
        a, cls = amount_class(rng, qb / w.price if w.price else Decimal(0))
        return {"op": "buy", "amount": a, "price": None}, cls
    if r < 0.88:
        a, cls = amount_class(rng, bb)
        frm, to = (pool.base_token.name, pool.quote_token.name) if rng.random() < 0.5 else (pool.quote_token.name, pool.base_token.name)
        if frm == pool.quote_token.name:
            a, cls = amount_class(rng, qb)
        return {"op": "swap", "amount": a, "from": frm, "to": to, "price": None, "log": True}, cls
    if r < 0.92:
        return {"op": "even_rebalance", "price": None}, "-"
    if r < 0.97:
        lo, up = G.raw_range(rng, w)
        v, cls = amount_class(rng, qb + bb * w.price)
        return {"op": "add_by_value", "lower": lo, "upper": up, "value": v, "trim": True}, cls
    return {"op": "remove_all"}, "-"


def touched_value(w, before, after):
    """value (in quote) of the wallet balances the call touched, before the call"""
    price = Fraction(w.price)
    tot = Fraction(0)
    wb, wa = dict((k, Fraction(v)) for k, v in before["wallet"]), dict((k, Fraction(v)) for k, v in after["wallet"])
    for k in set(wb) | set(wa):
        if wb.get(k) != wa.get(k):
            p = price if k == w.pool.base_token.name else Fraction(1)
            tot += max(abs(wb.get(k, 0)), abs(wa.get(k, 0))) * p
    return tot


def check_step(ctx, w, op, cls, err, res, before, after, nv0, nv1, rep, chosen):
    key_op = op["op"]
    dust = DUST * touched_value(w, before, after) + REL * max(abs(nv0), abs(nv1), 1)
    tag = "caller-chosen-pool-price" if chosen else "market-price"
    if nv1 - nv0 > dust:
        ctx.violate(f"uni.value_created.{key_op}.{tag}" + ("" if err is None else f".{err}"),
                    f"{key_op} ({cls}, {err or 'accepted'}) raised the net value from {float(nv0):.12g} to {float(nv1):.12g} (+{float(nv1 - nv0):.6g}, dust allowance {float(dust):.3g})", rep)
    conserving = key_op in ("add_by_tick", "remove", "remove_all") or (key_op == "collect" and op["to_user"])   # collect_to_user=False hands the tokens to the caller
    if err is None and conserving and not chosen and abs(nv1 - nv0) > dust:
        ctx.violate(f"uni.not_conserved.{key_op}", f"{key_op} ({cls}) changed the net value by {float(nv1 - nv0):.6g} (dust allowance {float(dust):.3g})", rep)
    if err is None and key_op in ("swap", "buy", "sell") and res and Fraction(op["amount"]) != 0:
        fee = Fraction(res[0])
        # the fee is charged in the token that is spent
        from_is_base = (key_op == "sell") or (key_op == "swap" and op["from"] == w.pool.base_token.name)
        fee_val = fee * (Fraction(w.price) if from_is_base else 1)
        if abs((nv0 - nv1) - fee_val) > dust:
            ctx.violate(f"uni.swap_fee.{key_op}", f"{key_op} ({cls}) changed the net value by {float(nv1 - nv0):.10g}, the reported fee is worth {float(fee_val):.10g}", rep)
    neg = holdings_negative(w)
    if neg:
        ctx.violate(f"uni.negative.{key_op}", f"after {key_op} ({cls}, {err or 'accepted'}): " + "; ".join(neg[:3]), rep)
    if err is None and key_op == "remove":
        pb = {(p["lower"], p["upper"]): p for p in before["positions"]}
        p0 = pb.get((str(op["lower"]), str(op["upper"])))
        removed = [a for a in after["actions"][len(before["actions"]):] if a["kind"] == "RemoveLiquidityAction"]
        if p0 and removed and Fraction(removed[0]["nums"][4]) > Fraction(p0["liq"]):
            ctx.violate("uni.over_redemption.remove", f"removed {removed[0]['nums'][4]} of {p0['liq']} liquidity", rep)


def directed_chosen_price(ctx, rng):
    """the two caller-chosen-pool-price holes, constructed rather than found"""
    from demeter.uniswap.liquitidy_math import get_sqrt_ratio_at_tick
    for kind in ("add_by_tick", "remove"):
        for sign in (-1, 1):
            for q0 in (True, False):
                w = U.World(rng, pool_spec=(6, 18, q0), fee=0.3, tick=60 * 3000 * (1 if q0 else -1))
                w.spec = {"pool": U.pool_json(w.pool), "tick": w.tick}
                bb, qb = w.broker.assets[w.pool.base_token].balance, w.broker.assets[w.pool.quote_token].balance
                lo, up = w.tick - 6000, w.tick + 6000
                add = {"op": "add_by_tick", "lower": lo, "upper": up, "base": bb / 2, "quote": qb / 2, "sqrt": None, "tick": None, "trim": True}
                hist = []
                if kind == "add_by_tick":
                    op = dict(add, tick=w.tick + sign * 3000)
                else:
                    U.apply_op(w, add)
                    hist.append({k: (fmt(v) if isinstance(v, Decimal) else v) for k, v in add.items()})
                    op = {"op": "remove", "lower": lo, "upper": up, "liq": None, "collect": True, "sqrt": str(get_sqrt_ratio_at_tick(w.tick + sign * 3000)), "remove_dry": True}
                before, nv0 = w.dump(), net_value(w)
                err, res = U.apply_op(w, op)
                after, nv1 = w.dump(), net_value(w)
                rep = {"world": w.spec, "prefix": hist, "op": {k: (fmt(v) if isinstance(v, Decimal) else v) for k, v in op.items()}, "cls": "directed"}
                check_step(ctx, w, op, "directed", err, res, before, after, nv0, nv1, rep, True)
                ctx.case(f"uni:{kind}:directed-chosen-price:{'up' if sign > 0 else 'down'}:{err or 'ok'}:{'q0' if q0 else 'q1'}")


def run(ctx: Ctx):
    U.cap_violations(ctx)
    rng = ctx.rng
    reqs = []
    directed_chosen_price(ctx, rng)
    n = ctx.scale(500, 12000)
    for i in range(n):
        chosen_stream = (i % 8 == 7)
        w = U.World(rng)
        w.spec = {"pool": U.pool_json(w.pool), "tick": w.tick}
        hist = []
        for _ in range(rng.randint(1, 12)):
            op, cls = gen_op(rng, w, chosen_stream)
            op = U.fill_oracles(w, op)
            before, nv0 = w.dump(), net_value(w)
            err, res = U.apply_op(w, op)
            after, nv1 = w.dump(), net_value(w)
            opj = {k: (fmt(v) if isinstance(v, Decimal) else v) for k, v in op.items()}
            rep = {"world": w.spec, "wallet0": None, "prefix": list(hist), "op": opj, "cls": cls}
            chosen = op.get("tick") is not None or op.get("sqrt") is not None
            check_step(ctx, w, op, cls, err, res, before, after, nv0, nv1, rep, chosen)
            regime = "-"
            if "lower" in op and "upper" in op:
                regime = "below" if w.tick < min(op["lower"], op["upper"]) else ("above" if w.tick >= max(op["lower"], op["upper"]) else "inside")
            ctx.case(f"uni:{op['op']}:{cls}:{err or 'ok'}:{regime}:{'q0' if w.pool.is_token0_quote else 'q1'}", rep if len(hist) < 2 else None)
            if op.get("tick_est", 0) is not None:
                reqs.append((rep, U.op_req(w, op, before), err, res, after, op["op"] + ":" + cls))
            hist.append(opj)
    ctx.impl_traces += len(reqs)
    if ctx.driver_ok and reqs:
        out = driver_json([r[1] for r in reqs])
        for (rep, req, err, res, after, tag), o in zip(reqs, out):
            if "outcome" not in o:
                ctx.disagree(f"[uni] step {tag}: driver error {o.get('error')}", rep)
                continue
            m_err = None if o["outcome"] == "ok" else o["outcome"]
            if m_err != err:
                ctx.disagree(f"[uni] step {tag}: impl {err or 'ok'} model {m_err or 'ok'}", rep)
                continue
            d = U.diff_json(after, o["state"])
            if d:
                ctx.disagree(f"[uni] step {tag} ({err or 'ok'}): state differs at {d}", rep)
            elif err is None and res is not None and U.diff_json(res, o["result"]):
                ctx.disagree(f"[uni] step {tag}: result differs at {U.diff_json(res, o['result'])}", rep)
    U.report_process_state(ctx)


def replay(ctx: Ctx, case) -> bool:
    import random
    if isinstance(case, dict) and case.get("kind") == "process-state":
        return U.replay_process_state(case)
    sub = Ctx(ctx.prop, ctx.tier, ctx.seed, False)
    U.cap_violations(sub)
    rng = random.Random(1)
    pj = case["world"]["pool"]
    w = U.World(rng, pool_spec=(pj["d0"], pj["d1"], pj["q0"]), fee=float(Fraction(pj["fee_rate"]) * 100), tick=case["world"]["tick"])
    w.spec = case["world"]
    DEC = ("a0", "a1", "base", "quote", "amount", "price", "value", "max0", "max1", "lower_price", "upper_price")
    for opj in case["prefix"] + [case["op"]]:
        op = {k: (Decimal(v) if k in DEC and v is not None else v) for k, v in opj.items() if k not in ("lt", "ut", "tick_est", "ratio_amt")}
        op = U.fill_oracles(w, op)
        before, nv0 = w.dump(), net_value(w)
        err, res = U.apply_op(w, op)
        after, nv1 = w.dump(), net_value(w)
        chosen = op.get("tick") is not None or op.get("sqrt") is not None
        check_step(sub, w, op, case.get("cls", "-"), err, res, before, after, nv0, nv1, {}, chosen)
    for v in sub.violations:
        print("  ", v["key"], v["what"])
    return not sub.violations
