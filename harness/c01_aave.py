"""C01 (Aave part) — `AaveV3Market.get_market_balance()` reports supplies − debts recomputed from the raw scaled
balances, the bar's indices and prices, every position counted once, up to the 1e-4 quantisation the code applies
(`total_supplies.quantize(0.0001) − total_borrows.quantize(0.0001)`: two half-quanta).

Oracle: exact `Fraction` valuation of the dumped `_supplies` / `_borrows` against the figure the implementation
reports after every step of random operation sequences (reads warm the caches, writes and bar changes must invalidate
them): |net_value − (Σ supplies − Σ debts)| ≤ 1e-4, each total within 0.5e-4, collateral total likewise, counts exact.
Also through `Broker.get_account_status`: account net value = wallet value + the market's reported net value, with the account quoted
in the market's quote token (USD) AND in another one (a stable coin Q with 1 USD = u Q, u != 1: 0.97, 1.03, 2000, … or 1/feed(Q) when
the market prices Q itself): every holding valued at the account's price of its token, the market's figure converted by prices[USD].
Correspondence: `get_market_balance` on the model from the same raw state (every field, exactly).
"""
from __future__ import annotations

import random
from decimal import Decimal as D
from fractions import Fraction as F

import pandas as pd

import aave_lib as A
from common import Ctx, driver_json

PROPERTY = "C01"
LEAN_MODULES = ["Proofs.C01.Aave"]
DRIVERS = ["driver_aave"]
RULE = ("[aave] random portfolios reached by operation sequences over 2-4 tokens and 1-6 bars (prices over 9 decades, 27-digit indices), "
        "valuation checked after every step; bucket = (last operation, outcome, #supplies, #debts, caches warm/cold); the account is valued after every step "
        "both quoted in USD (aave:account:same-quote) and in a stable coin with 1 USD = u of it (aave:account:other-quote:held-token|foreign-token:u<1|u>1|u=1)")
TRUSTED = ["[aave] the 1e-4 bound is proved for exact arithmetic; CPython's 35-digit rounding of the two totals is below 1e-30 relative and is "
           "covered by a 1e-28 slack in the oracle"]
ASSUMPTIONS = ["[aave] totals stay below 1e31 (quantize(0.0001) raises InvalidOperation beyond 35 digits)",
               "[aave] the price row handed to the market is in the market's quote token (USD); an account quoted in Q sees the prices feed(t)·P(USD) "
               "(the Actuator hands the same row to both and forces P(USD) = 1: there the two units coincide by construction)"]

HALF = F(1, 2 * 10 ** 4)
SLACK = F(1, 10 ** 28)


def raw_totals(state, env):
    price = {t: F(p) for t, p in env["price"].items()}
    sup = sum((F(D(v["base"])) * F(env["status"][t]["liqIdx"]) * price[t] for t, v in state["supplies"]), F(0))
    col = sum((F(D(v["base"])) * F(env["status"][t]["liqIdx"]) * price[t] for t, v in state["supplies"] if v["coll"]), F(0))
    bor = sum((F(D(v["base"])) * F(env["status"][t]["varIdx"]) * price[t] for t, v in state["borrows"]), F(0))
    return sup, col, bor


def check_balance(ctx: Ctx, m, b, env, state, case, what, acct_quote=None):
    c = A.clone_market(m, True)
    try:
        bal = c.get_market_balance()
    except Exception as e:  # noqa: BLE001
        ctx.violate("aave.balance-raises", f"{what}: get_market_balance raised {type(e).__name__}", case)
        return
    sup, col, bor = raw_totals(state, env)
    tol = lambda x: HALF + SLACK * (abs(x) + 1)
    if abs(F(bal.supplies_value) - sup) > tol(sup):
        ctx.violate("aave.supplies-value", f"{what}: reported supplies value {bal.supplies_value} vs recomputed {float(sup):.10g}", case)
    if abs(F(bal.borrows_value) - bor) > tol(bor):
        ctx.violate("aave.borrows-value", f"{what}: reported debts value {bal.borrows_value} vs recomputed {float(bor):.10g}", case)
    if abs(F(bal.collaterals_value) - col) > tol(col):
        ctx.violate("aave.collaterals-value", f"{what}: reported collateral value {bal.collaterals_value} vs recomputed {float(col):.10g}", case)
    if abs(F(bal.net_value) - (sup - bor)) > 2 * HALF + SLACK * (abs(sup) + abs(bor) + 1):
        ctx.violate("aave.net-value", f"{what}: reported net value {bal.net_value} vs supplies - debts = {float(sup - bor):.10g}", case)
    if bal.supplies_count != len(state["supplies"]) or bal.borrows_count != len(state["borrows"]):
        ctx.violate("aave.counts", f"{what}: counts {bal.supplies_count}/{bal.borrows_count} vs {len(state['supplies'])}/{len(state['borrows'])}", case)
    ctx.dev(F(bal.net_value), sup - bor) if abs(sup - bor) > 1 else None
    # through the broker: wallet value + market net value (the market's quote token is the account's)
    prices = pd.Series({t: env["price"][t] for t in env["price"]}, dtype=object)
    b.quote_token = m.quote_token      # what the actuator does: account and market are both quoted in USD
    try:
        acct = b.get_account_status(prices)
        wallet = sum((F(a.balance) * F(env["price"][k.name]) for k, a in b._assets.items() if k.name in env["price"]), F(0))
        if all(k.name in env["price"] for k, _ in b._assets.items()):
            ctx.case("aave:account:same-quote")
            if abs(F(acct.net_value) - (wallet + F(bal.net_value))) > SLACK * (abs(wallet) + abs(F(bal.net_value)) + 1):
                ctx.violate("aave.account-net-value", f"{what}: account net value {acct.net_value} vs wallet {float(wallet):.10g} + market {bal.net_value}", case)
    except Exception as e:  # noqa: BLE001
        ctx.count(f"aave_account_status_raised:{type(e).__name__}")
    if acct_quote is not None:
        check_other_quote(ctx, m, b, env, state, bal, case, what, acct_quote)


# ---------------------------------------------------------------------------------------------------------------------------------------
# The unit of the market's value.  `AaveV3Market.quote_token` is USD (broker/market.py: Market.__init__) and the market values its
# positions with the price row it is handed (`set_market_status(…, price)`), so that row is in USD.  An account quoted in another token Q
# (`Broker._check_quote_token` admits every stable coin) with 1 USD = u Q has the account prices P(t) = feed(t)·u, P(USD) = u, P(Q) = 1.
# Independent valuation: every holding at the ACCOUNT's price of its token — wallet(t)·P(t) + Σ supplies(t)·idx·P(t) − Σ debts(t)·idx·P(t).
OTHER_QUOTES = ["USDC", "DAI", "USDT", "FDUSD"]
USD_IN_QUOTE = ["0.97", "1.03", "2000", "0.000625", "1.0000001", "1"]


def pick_acct_quote(rng, env):
    """(Q, u): Q a stable coin; when the market's feed prices Q itself, 1 USD = 1/feed(Q) Q (so that P(Q) = 1), otherwise u is free"""
    q = rng.choice(OTHER_QUOTES)
    if q in env["price"]:
        return [q, None]
    return [q, rng.choice(USD_IN_QUOTE)]


def check_other_quote(ctx: Ctx, m, b, env, state, bal, case, what, acct_quote):
    q, u = acct_quote
    if any(k.name not in env["price"] for k, _ in b._assets.items()):
        return
    if u is None:
        if D(env["price"][q]) <= 0:
            return
        u = D(1) / D(env["price"][q])
        held = "held-token"
    else:
        u = D(u)
        held = "foreign-token"
    prices = {t: D(env["price"][t]) * u for t in env["price"]}          # the account's price row, 35-digit Decimals like the real one
    prices[q] = D(1)                                                    # the quote token itself (feed(Q)·u is 1 up to the 35th digit)
    prices["USD"] = u
    uclass = "u=1" if u == 1 else ("u<1" if u < 1 else "u>1")
    saved = b.quote_token
    b.quote_token = A.token(q)
    try:
        acct = b.get_account_status(prices)
    except Exception as e:  # noqa: BLE001
        ctx.violate(f"aave.account.quote-conversion:raises:{type(e).__name__}", f"{what}: account quoted in {q}, 1 USD = {u} {q}: get_account_status raised "
                    f"{type(e).__name__}({str(e)[:80]})", case)
        return
    finally:
        b.quote_token = saved
    ctx.case(f"aave:account:other-quote:{held}:{uclass}:s{min(len(state['supplies']), 2)}b{min(len(state['borrows']), 2)}")
    fu = F(u)
    P = {t: F(p) for t, p in prices.items()}
    wallet = sum((F(a.balance) * P[k.name] for k, a in b._assets.items()), F(0))
    sup = sum((F(D(v["base"])) * F(env["status"][t]["liqIdx"]) * P[t] for t, v in state["supplies"]), F(0))
    bor = sum((F(D(v["base"])) * F(env["status"][t]["varIdx"]) * P[t] for t, v in state["borrows"]), F(0))
    want = wallet + sup - bor
    # the market quantises its two totals to 1e-4 USD (two half-quanta, worth u each in Q); P(t) is feed(t)·u rounded to 35 digits
    tol = 2 * HALF * fu + SLACK * (abs(wallet) + abs(sup) + abs(bor) + 1)
    if abs(F(acct.net_value) - want) > tol:
        ctx.violate("aave.account.quote-conversion", f"{what}: account quoted in {q} with 1 USD = {u} {q} (market quoted in {m.quote_token.name}): "
                    f"get_account_status().net_value = {acct.net_value}, every holding at the account's prices is worth {float(want):.12g} "
                    f"(wallet {float(wallet):.10g}, supplies {float(sup):.10g}, debts {float(bor):.10g}; market reports {bal.net_value})", case)
    # and against the figure the market itself reports: wallet + reported net value × P(USD), exactly (35-digit slack)
    want2 = wallet + F(bal.net_value) * fu
    if abs(F(acct.net_value) - want2) > SLACK * (abs(wallet) + abs(F(bal.net_value)) * fu + 1):
        ctx.violate("aave.account.quote-conversion:reported", f"{what}: account quoted in {q}, 1 USD = {u} {q}: account net value {acct.net_value} vs wallet "
                    f"{float(wallet):.10g} + market {bal.net_value} x {u}", case)


def run_sequence(ctx: Ctx, rng, nsteps, reqs, meta, exact_env, qrng=None):
    env = A.gen_env(rng, exact=exact_env)
    m, b, actions = A.new_market(env, A.initial_wallet(rng, env))
    for i in range(nsteps):
        r = rng.random()
        env_next = None
        if r < 0.12:
            shock = {t.name: A.dec_digits(rng, 0.4, 1.3, 4) for t in m._supplies} if rng.random() < 0.5 else None
            env_next = A.next_env(rng, env, shock)
            op = {"kind": "newBar"}
        elif r < 0.2:
            op = {"kind": "update"}
        elif r < 0.35:
            op = {"kind": "read", "view": rng.choice(A.VIEWS0)}
        else:
            op = A.gen_op(rng, m, b, env, malformed=0.08)
        outcome, _ = A.apply_op(m, op, env_next)
        if env_next is not None:
            env = env_next
        st = A.dump_state(m, b, actions, len(actions))
        case = {"env": A.env_json(env), "state": st, "op": {"kind": "read", "view": "marketBalance"}, "after": op}
        acct_quote = pick_acct_quote(qrng, env) if qrng is not None else None
        if acct_quote is not None:
            case["acct_quote"] = acct_quote
        check_balance(ctx, m, b, env, st, case, f"after {op} ({outcome})", acct_quote)
        # correspondence: the model's get_market_balance on the same raw state and caches
        c = A.clone_market(m, True)
        obs = A.observe_view(c, "marketBalance")
        reqs.append(A.step_request(env, st, {"kind": "read", "view": "marketBalance"}))
        warm = "warm" if not (st["supAmtC"]["empty"] and st["borAmtC"]["empty"]) else "cold"
        meta.append((case, obs, f"aave:{op.get('view', op['kind'])}:{outcome}:s{min(len(st['supplies']), 3)}b{min(len(st['borrows']), 3)}:{warm}"))
        ctx.impl_traces += 1


def run(ctx: Ctx):
    rng = ctx.rng
    nseq = ctx.scale(60, 2500)
    reqs, meta = [], []
    qrng = random.Random(f"c01_aave.acct_quote:{ctx.seed}")     # own stream: the draws of the other parts / generators stay what they were
    for i in range(nseq):
        run_sequence(ctx, rng, rng.randint(6, 22), reqs, meta, exact_env=(i % 3 == 0), qrng=qrng)
    if ctx.driver_ok:
        outs = driver_json(reqs, exe=A.EXE)
        for (case, obs, tag), o in zip(meta, outs):
            if "error" in o:
                ctx.disagree(f"[aave] driver error {o['error']}", case)
                continue
            ctx.case(tag, {"after": case["after"], "balance": obs[1]})
            mine = [o["outcome"], o["result"]]
            if not A.same(obs, mine):
                ctx.disagree(f"[aave] get_market_balance after {case['after']}: {A.diff(obs, mine)}", case)
    else:
        for case, obs, tag in meta:
            ctx.case(tag)


def replay(ctx: Ctx, case) -> bool:
    env = A.env_from_json(case["env"])
    m, b, actions = A.new_market(env)
    A.load_state(m, b, case["state"])
    sub = Ctx(ctx.prop, ctx.tier, ctx.seed, False)
    check_balance(sub, m, b, env, case["state"], case, "replay", case.get("acct_quote"))
    for v in sub.violations:
        print("  ", v["key"], v["what"])
    return not sub.violations
