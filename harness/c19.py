"""C19 — strategies run by BacktestManager do not influence one another (demeter/core/backtest.py).

Oracle: the real BacktestManager runs 1-4 scripted strategies over a generated configuration — market mixes out of Uniswap-v3,
Aave, Deribit options, Squeeth (+ its oSQTH pool) and GMX v1, price frames given as floats or as all-Decimal frames — with
threads in {1, 2, 4} and in several orders.  Some strategies trade (also the same option in the same hourly bar with sizes that
exhaust a price level), some write into everything a strategy can reach (self.prices, the cells of self.data / market.data
including the lists nested inside cells, the market status rows, the assets of their own account).  Every strategy dumps its
account history, final positions, balances, action log and what it *found* in the objects it was handed; each dump must equal,
exactly, the dump of the same strategy run alone by a plain Actuator on freshly built objects, and so must a manager run of
that strategy alone.  Every manager run happens in a fresh subprocess (`multiprocessing.set_start_method` is once-per-process).
Correspondence: the manager model (Demeter.Manager: which of the objects a backtest receives are copies, per layer: market
objects, frame columns, frame values, objects nested in cells, price frame) is run on the projection "what did each strategy
find" of the same scripts and must predict it for every strategy — and, for strategies that end their backtest with an exception
(`raiser`), which strategies produce a result at all and whether run() returns (`managerRunF` with the failure handling read from
the source: in-process loop catching per strategy, pooled branches waiting for every task).
"""
from __future__ import annotations

import hashlib
import itertools
import json
import os
import subprocess
import sys
import tempfile
from decimal import Decimal
from fractions import Fraction

PROPERTY = "C19"
LEAN_MODULES = ["Proofs.C19", "Proofs.C19.Failure", "Proofs.C19.Process"]
DRIVERS = ["driver_metrics"]
RULE = ("1-5 scripted strategies out of 31 behaviours — trading: idle, add liquidity once/twice, add then remove, buy, sell, rebalance, add on a second "
        "Uniswap market, failing operation, Aave supply, Aave supply+borrow, Aave borrow-to-the-limit then a price drop in its own price table (liquidated), option buy / buy+sell / two buys of the same instrument in the same hourly "
        "bar (sizes: exactly the best level, more than it, small), Squeeth long / short vault, GLP buy / buy+sell; acting on what they see: add an "
        "indicator column and trade on it, act on such a column if present, watcher (notes prices, status rows, best ask and trades by them), process-state reader (results of divisions / roots / quantize / overflow / division by zero under the context it finds, everything a snapshot lists, and trades 1/3); writing "
        "into what they were handed: overwrite frame values in place, multiply a column of self.prices and set a cell by position, overwrite cells of "
        "every market's frame by position (and replace an order-book cell), decrement order-book levels nested in cells of self.data in place, write "
        "through snapshot.market_status / market.market_status (rows and nested lists), change the balances of their own account; ending their own "
        "backtest with an uncaught exception from on_bar (no result alone, none under the manager, everybody else unaffected) — over the market "
        "mixes {uni}, {uni,uni}, {uni,aave}, {deribit}, {uni,deribit}, {oSQTH pool, squeeth}, {gmx v1}, price frames float / all-Decimal, threads in "
        "{1,2,4} (fork; some pooled cases through the Windows branch), identity/reversed orders and all 6 orders of one triple (all orders in the "
        "thorough tier), plus 6 manager-level edge scenarios; bucket = (path, threads, number of strategies, market mix, price kind, multiset of "
        "behaviours, order kind)")
TRUSTED = [
    "process scheduling, fork and pickling are runtime behaviour of CPython/the OS: that part is measured (every pooled case is executed), the "
    "theorems cover the manager's data flow for every assignment of tasks to workers",
    "a strategy (with its Actuator and markets) is modelled as an arbitrary transformer of the objects it is handed, layer by layer; that "
    "copy.deepcopy, DataFrame.copy(deep=False) under pandas copy-on-write (pandas >= 3, the installed version) and DataFrame.map give independent "
    "objects of the respective layer is assumed — the harness checks after every run that the manager's own frames (with the lists nested in their "
    "cells), its price frame and its configured markets are untouched",
    "process-wide state is the layer G of the model (GStrat, managerRunG) and the hypothesis GIntact of C19_manager_isolated: of it the harness "
    "measures, before and after every backtest, in the caller's process and in every pool worker, the decimal context (precision, rounding, traps, "
    "Emin/Emax, capitals, clamp) and the class-level attributes of Snapshot (identity, keys, content hash) — a change is a violation by itself, and "
    "the proc_reader behaviour turns it into a changed result; other module-level state (logging configuration, caches of third-party modules, the "
    "strategy classes' own class attributes) is not enumerated: a strategy that keeps state in its class or module, or changes the decimal "
    "context itself, falls outside GIntact and is not generated",
    "the assignment of tasks to pool workers is observed (pid of every backtest, execution order per process) and handed to the model; that a "
    "worker executes its tasks in submission order is checked per case (otherwise the assumed assignment is used and the case is counted)",
]
ASSUMPTIONS = ["pandas copy-on-write isolates every in-place write into DataFrame.copy(deep=False) — measured on the installed pandas on every run (13 ways of "
               "writing: iloc/loc/at/iat, column arithmetic, slices, masks, update, fillna(inplace), raw buffer writes), not read off its version; if a "
               "write kind leaks the check reports it and asks the model with cow = false (the case of C19_manager_isolated_no_cow_partial, which needs "
               "strategies that do not overwrite frame values in place)",
               "start method fork (Linux); the Windows branch is executed by patching the module's platform name inside the harness's worker process"]

HERE = os.path.dirname(os.path.abspath(__file__))
try:
    import pandas as _pd
    COW = int(_pd.__version__.split(".")[0]) >= 3      # copy-on-write is always on from pandas 3
except Exception:  # noqa: BLE001
    COW = True

MARKET_SETS = [["uni_a"], ["uni_a", "uni_b"], ["uni_a", "aave"], ["deribit"], ["uni_a", "deribit"], ["uni_sq", "squeeth"], ["gmx"]]
CALL, PUT = "ETH-22SEP23-1650-C", "ETH-22SEP23-1600-P"
T0 = "2023-08-15 00:00:00"
GENERIC = ["idle", "watcher", "mut_prices", "mut_data", "mut_nested", "mut_status", "mut_assets", "trig_init", "trig_ctor", "mut_market", "raiser", "proc_reader"]
UNI = ["add1", "add2", "addremove", "buy", "sell", "rebalance", "failing", "indicator", "follower", "vandal", "bad_price"]
OPT = ["opt_buy", "opt_round", "opt_twice"]
BEHAVIOURS = GENERIC + UNI + ["add_b", "aave_s", "aave_sb", "aave_liq"] + OPT + ["sq_buy", "sq_short", "glp_buy", "glp_round"]


def measure_cow():
    """what the installed pandas does when a backtest writes into its `DataFrame.copy(deep=False)` of the shared frame (the frame
    `_own_frame` hands out): for every way of writing a value in place, is the shared frame left alone?  {write kind: isolated}.
    `C19_manager_isolated` assumes yes for all of them (copy-on-write); `C19_manager_isolated_no_cow_partial` is the statement for a pandas
    that answers no."""
    import warnings
    import numpy as np
    import pandas as pd
    idx = pd.date_range(T0, periods=4, freq="min")

    def shared():
        return pd.DataFrame({"f": [1.0, 2.0, 3.0, 4.0], "i": np.array([1, 2, 3, 4], dtype="int64"),
                             "o": pd.Series([Decimal(1), Decimal(2), Decimal(3), Decimal(4)], index=idx, dtype=object).values}, index=idx)
    writes = {
        "iloc[r,c]=": lambda d: d.iloc.__setitem__((1, 0), 99.0),
        "loc[t,c]=": lambda d: d.loc.__setitem__((idx[1], "i"), 99),
        "at[t,c]=": lambda d: d.at.__setitem__((idx[2], "o"), Decimal(99)),
        "iat[r,c]=": lambda d: d.iat.__setitem__((2, 0), 99.0),
        "col*=": lambda d: d.__setitem__("f", d["f"] * 2),
        "col-slice=": lambda d: d["f"].iloc.__setitem__(slice(0, 2), 99.0),
        "loc[:,c]=": lambda d: d.loc.__setitem__((slice(None), "i"), 7),
        "values[...]=": lambda d: d["f"].values.__setitem__(0, 99.0),
        "to_numpy()[...]=": lambda d: d["i"].to_numpy().__setitem__(0, 99),
        "iloc[r]=": lambda d: d.iloc.__setitem__(0, [9.0, 9, Decimal(9)]),
        "fillna(inplace)": lambda d: d.fillna(0, inplace=True),
        "mask-assign": lambda d: d.__setitem__(d["f"] > 2, 0),
        "update()": lambda d: d.update(pd.DataFrame({"f": [50.0]}, index=idx[:1])),
    }
    out = {}
    for kind, w in writes.items():
        base = shared()
        ref = base.copy(deep=True)
        view = base.copy(deep=False)
        with warnings.catch_warnings():
            warnings.simplefilter("ignore")
            try:
                w(view)
            except Exception:  # noqa: BLE001   (a refused write — read-only buffer — cannot leak)
                pass
        out[kind] = bool(base.equals(ref) and list(base.dtypes) == list(ref.dtypes))
    return out


def applicable(markets):
    out = list(GENERIC)
    if "uni_a" in markets:
        out += UNI
    if "uni_b" in markets:
        out += ["add_b"]
    if "aave" in markets:
        out += ["aave_s", "aave_sb", "aave_liq"]
    if "deribit" in markets:
        out += OPT + OPT
    if "squeeth" in markets:
        out += ["sq_buy", "sq_short", "add1", "sq_buy", "sq_short"]
    if "gmx" in markets:
        out += ["glp_buy", "glp_round", "glp_buy", "glp_round"]
    return out


def best_ask_size(seed):
    return 3 + seed % 5


# ============================================================================================== worker side
PRISTINE = None      # deep copies of the frames / converted price frame the manager was given (forked workers inherit it)


def make_data(pool, market, bars, seed):
    import random
    import pandas as pd
    rng = random.Random(seed)
    index = pd.date_range(T0, periods=bars, freq="min")
    tick = 201000 + rng.randint(-300, 300)      # usdc(6)/eth(18), usdc quote: about 1860 usdc per eth
    rows = []
    for _ in range(bars):
        o = tick
        tick += rng.randint(-25, 25)
        lo, hi = min(o, tick) - rng.randint(0, 5), max(o, tick) + rng.randint(0, 5)
        rows.append(dict(netAmount0=rng.randint(-10 ** 9, 10 ** 9), netAmount1=rng.randint(-10 ** 18, 10 ** 18), closeTick=tick, openTick=o,
                         lowestTick=lo, highestTick=hi, inAmount0=rng.randint(10 ** 8, 10 ** 10), inAmount1=rng.randint(10 ** 17, 10 ** 19),
                         currentLiquidity=Decimal(rng.randint(10 ** 17, 10 ** 19))))
    df = pd.DataFrame(rows, index=index)
    market.add_statistic_column(df)
    return df


def make_aave_data(bars, seed):
    import random
    import pandas as pd
    rng = random.Random(seed)
    index = pd.date_range(T0, periods=bars, freq="min")
    li, bi, rows = Decimal("1.01"), Decimal("1.03"), []
    for _ in range(bars):
        li += Decimal(rng.randint(1, 30)) / Decimal(10 ** 6)
        bi += Decimal(rng.randint(10, 60)) / Decimal(10 ** 6)
        rows.append(dict(liquidity_rate=Decimal("0.01"), stable_borrow_rate=Decimal("0.05"), variable_borrow_rate=Decimal("0.03"),
                         liquidity_index=li, variable_borrow_index=bi))
    return pd.DataFrame(rows, index=index)


def make_deribit_data(hours, seed, gap=()):
    """(time, instrument_name)-indexed frame as load_deribit_option_data builds it; asks / bids cells are Python lists of [price, amount];
    `gap`: hours for which the collected data has no snapshot at all (the hourly market is closed on those bars and publishes an empty status)"""
    import pandas as pd
    s1 = float(best_ask_size(seed))
    rows = []
    for h, hour in enumerate(pd.date_range(T0, periods=hours, freq="1h")):
        if h in gap:
            continue
        common = dict(time=hour, state="open", expiry_time=pd.Timestamp("2023-09-22 08:00:00"), underlying_price=1650.0 + h)
        rows.append(dict(common, instrument_name=CALL, type="CALL", strike_price=1650, gamma=0.00342, delta=0.52, mark_price=0.0287,
                         asks=[[0.0285, s1], [0.029, 605.0 + h], [0.0295, 200.0]], bids=[[0.028, s1 + 1], [0.0275, 300.0], [0.027, 40.0]]))
        rows.append(dict(common, instrument_name=PUT, type="PUT", strike_price=1600, gamma=0.0029, delta=-0.32, mark_price=0.0180,
                         asks=[[0.0185, 30.0], [0.019, 100.0]], bids=[[0.0175, 40.0], [0.017, 100.0]]))
    return pd.DataFrame(rows).set_index(["time", "instrument_name"])


def make_squeeth_data(bars, seed):
    import random
    import pandas as pd
    rng = random.Random(seed)
    index = pd.date_range(T0, periods=bars, freq="min")
    nf, weth, osqth, rows = Decimal("0.3"), Decimal(1800), Decimal("0.1"), []
    for _ in range(bars):
        nf -= Decimal(rng.randint(1, 9)) / Decimal(10 ** 7)
        weth += Decimal(rng.randint(-200, 200)) / Decimal(100)
        osqth += Decimal(rng.randint(-20, 20)) / Decimal(10 ** 5)
        rows.append(dict(norm_factor=nf, WETH=weth, OSQTH=osqth))
    return pd.DataFrame(rows, index=index)


def make_sq_pool_data(market, bars, seed):
    import random
    import pandas as pd
    rng = random.Random(seed + 17)
    index = pd.date_range(T0, periods=bars, freq="min")
    tick, rows = 23000 + rng.randint(-50, 50), []       # weth(18)/osqth(18), weth quote: about 0.1 weth per osqth
    for _ in range(bars):
        o = tick
        tick += rng.randint(-6, 6)
        rows.append(dict(netAmount0=0, netAmount1=0, closeTick=tick, openTick=o, lowestTick=min(o, tick), highestTick=max(o, tick),
                         inAmount0=rng.randint(10 ** 17, 10 ** 18), inAmount1=rng.randint(10 ** 18, 10 ** 19),
                         currentLiquidity=Decimal(rng.randint(10 ** 20, 10 ** 21))))
    df = pd.DataFrame(rows, index=index)
    market.add_statistic_column(df)
    return df


def make_gmx_data(bars, seed):
    import random
    import numpy as np
    import pandas as pd
    rng = random.Random(seed)
    index = pd.date_range(T0, periods=bars, freq="min")
    rows, aum, glp = [], 5 * 10 ** 38, 4 * 10 ** 26
    for _ in range(bars):
        aum += rng.randint(-10 ** 34, 10 ** 34)
        wp = int(1800 * 10 ** 6 + rng.randint(-10 ** 6, 10 ** 6)) * 10 ** 24
        usdg = 4 * 10 ** 26
        rows.append(dict(glp=Decimal(glp), aum=Decimal(aum), usdg=usdg, interval=np.float64(10 ** 13 + rng.randint(0, 10 ** 12)),
                         glp_price=(Decimal(aum) / Decimal(10 ** 30)) / (Decimal(glp) / Decimal(10 ** 18)),
                         wavax_price=Decimal(29 * 10 ** 30), weth_price=Decimal(wp), weth_usdg=usdg * 3 // 10 + rng.randint(0, 10 ** 22),
                         weth_weight=np.int64(30000), usdc_price=10 ** 30, usdc_usdg=usdg * 7 // 10, usdc_weight=np.int64(70000)))
    return pd.DataFrame({c: pd.Series([r[c] for r in rows], index=index, dtype=object) for c in rows[0]})


def frame_hash(df):
    """column labels in order, dtype of every column, index and every cell with the Python type it holds (Decimal('1'), 1 and 1.0 differ; lists
    nested in cells go in element by element): an added column, a converted cell and a changed dtype all change the hash"""
    h = hashlib.sha1()
    h.update(repr([repr(c) for c in df.columns]).encode())
    h.update(repr([str(t) for t in df.dtypes]).encode())
    h.update((str(df.index.dtype) + repr(list(df.index.names)) + repr([repr(i) for i in df.index.tolist()])).encode())
    for j in range(df.shape[1]):
        h.update("|".join(type(v).__name__ + ":" + repr(v) for v in df.iloc[:, j].tolist()).encode())
    return h.hexdigest()


def canon(x, depth=0):
    """canonical JSON-able form of positions / vaults / balances"""
    import dataclasses
    if depth > 6:
        return str(x)
    if isinstance(x, dict):
        return sorted([[str(k), canon(v, depth + 1)] for k, v in x.items()], key=lambda kv: kv[0])
    if isinstance(x, (list, tuple, set)):
        return [canon(v, depth + 1) for v in x]
    if dataclasses.is_dataclass(x) and not isinstance(x, type):
        return canon({f.name: getattr(x, f.name) for f in dataclasses.fields(x)}, depth + 1)
    if hasattr(x, "__dict__") and not callable(x) and type(x).__module__.startswith("demeter"):
        return canon({k: v for k, v in vars(x).items() if not k.startswith("_")}, depth + 1)
    return str(x)


STATE_ATTRS = ("positions", "supplies", "borrows", "vault", "glp_amount", "reward", "balance")


def count_positions(m):
    for a in ("positions", "supplies", "vault"):
        if hasattr(m, a):
            return len(getattr(m, a))
    return 1 if getattr(m, "glp_amount", 0) else 0


def dump_state(strategy):
    """what the property compares: account history, final positions, balances, action log (+ what the strategy found at the start)"""
    out = {}
    df = strategy.account_status_df
    out["account"] = [[str(ix)] + [str(v) for v in row] for ix, row in zip(df.index, df.itertuples(index=False))]
    out["columns"] = [str(c) for c in df.columns]
    out["positions"] = {}
    for mi, m in strategy.broker.markets.items():
        out["positions"][mi.name] = {a: canon(getattr(m, a)) for a in STATE_ATTRS if hasattr(m, a)}
    out["data_columns"] = {mi.name: [str(c) for c in m.data.columns] for mi, m in strategy.broker.markets.items()}
    out["assets"] = sorted([k.name, str(v.balance)] for k, v in strategy.broker.assets.items())
    out["actions"] = [[type(a).__name__, str(getattr(a, "market", "")), str(getattr(a, "timestamp", ""))] for a in strategy.actions]
    out["notes"] = list(strategy.notes)
    out["found"] = strategy.found
    out["pid"] = os.getpid()        # which process ran this backtest (not compared: the observed assignment of tasks to workers)
    return out


def status_hash(ms):
    """content of a MarketDict of status rows / frames: keys in order, default key, every value cell by cell"""
    h = hashlib.sha1()
    h.update(repr([getattr(k, "name", str(k)) for k in ms.data.keys()]).encode())
    h.update(repr(getattr(ms.get_default_key(), "name", None)).encode())
    for v in ms.data.values():
        h.update((frame_hash(v) if hasattr(v, "columns") else frame_hash(v.to_frame()) if hasattr(v, "to_frame") else repr(v)).encode())
    return h.hexdigest()


def proc_state(with_id=True):
    """the process-wide state a backtest can read and leave behind (`G` of Demeter.Manager.GStrat): the decimal context of the thread
    every backtest of this process runs on (precision, rounding, traps, exponent range, capitals, clamp) and the class-level
    attributes of `Snapshot` that hold objects (a class-level `market_status` dict is shared by every Snapshot of the process):
    identity, keys and content hash"""
    import decimal
    c = decimal.getcontext()
    out = {"dctx": [c.prec, c.rounding, sorted(t.__name__ for t, on in c.traps.items() if on), c.Emin, c.Emax, c.capitals, c.clamp]}
    try:
        from demeter.broker._typing import Snapshot
        shared = []
        for k, v in sorted(vars(Snapshot).items()):
            if k.startswith("__") or callable(v) or isinstance(v, (property, staticmethod, classmethod)):
                continue
            keys = sorted(getattr(x, "name", str(x)) for x in v.data.keys()) if hasattr(v, "data") and isinstance(v.data, dict) else None
            shared.append([k] + ([id(v)] if with_id else []) + [keys, status_hash(v) if keys is not None else repr(v)[:200]])
        out["snapshot_class"] = shared
    except Exception as e:  # noqa: BLE001
        out["snapshot_class"] = "unreadable: " + type(e).__name__
    return out


def install_proc_log(out_dir):
    """no hook in /repo: the module-level `_start` of demeter.core.backtest (looked up by name on every call, in the caller's process and —
    inherited by fork — in every pool worker) is wrapped here; every backtest appends {sid, pid, process state before / after, failed}
    to a file of its own process, so the file order is the execution order inside that process"""
    import demeter.core.backtest as bt
    inner = bt._start

    def logged(config, data, strategy, bk_config):
        rec = {"sid": getattr(strategy, "sid", None), "pid": os.getpid(), "before": proc_state()}
        try:
            return inner(config, data, strategy, bk_config)
        except BaseException as e:
            rec["failed"] = type(e).__name__
            raise
        finally:
            rec["after"] = proc_state()
            with open(os.path.join(out_dir, f"_proc_{os.getpid()}.jsonl"), "a") as f:
                f.write(json.dumps(rec) + "\n")
    bt._start = logged


def nested_columns(df):
    return [c for c in df.columns if len(df) and isinstance(df[c].iloc[0], list)]


def pd_freq_of(df):
    """the bar interval of a resampled frame, as a pandas offset (difference of the first two distinct index labels)"""
    idx = df.index.get_level_values(0).unique() if getattr(df.index, "nlevels", 1) > 1 else df.index.unique()
    return idx[1] - idx[0]


def market_frames(m):
    """(attribute name, object) of every DataFrame / Series attribute of a market object other than its data frame and the per-bar rows"""
    import pandas as pd
    return [(k, v) for k, v in vars(m).items() if isinstance(v, (pd.DataFrame, pd.Series)) and k not in ("_data", "_market_status", "_price_status")]


def probe_found(strategy):
    """what the objects handed to this backtest look like, against the pristine copies: positions already in the markets, extra
    columns, cells whose value differs, depth missing from order-book lists, price cells that differ, market cross-references"""
    f = {"pos": [], "cols": 0, "vals": 0, "cells": Fraction(0), "prices": 0, "link": True}
    for mi, m in strategy.broker.markets.items():
        f["pos"].append(count_positions(m))
        pr, df = PRISTINE["frames"][mi.name], m.data
        if len(df) != len(pr):
            # resampled (interval != 1min): the reference is the pristine frame put through the market's own `_resample` on a
            # private shallow copy of the market (uniswap aggregates per column: sum / last / first …, others take `.first()`)
            import copy
            ref = copy.copy(m)
            ref._data = copy.deepcopy(pr)
            try:
                freq = pd_freq_of(df)
                ref._resample(freq)
                pr = ref._data
            except Exception:  # noqa: BLE001
                pr = pr.loc[pr.index.intersection(df.index)]
        f["cols"] += len([c for c in df.columns if c not in pr.columns])
        nested = nested_columns(pr)
        for c in pr.columns:
            if c not in df.columns or len(df) != len(pr):
                f["vals"] += len(pr)
            elif c in nested:
                for a, b in zip(df[c], pr[c]):
                    if not isinstance(a, list) or [l[0] for l in a] != [l[0] for l in b]:
                        f["vals"] += 1
                    else:
                        f["cells"] += sum(Fraction(y[1]) - Fraction(x[1]) for x, y in zip(a, b))
            else:
                a, b = df[c], pr[c]
                f["vals"] += int((~((a == b) | (a.isna() & b.isna()))).sum())
        pool = getattr(m, "_squeeth_uni_pool", None)
        if pool is not None:
            f["link"] = f["link"] and any(pool is x for x in strategy.broker.markets.values())
    pp, p = PRISTINE["price"], strategy.prices
    if len(p) != len(pp):
        pp = pp.loc[pp.index.intersection(p.index)]
    for c in pp.columns:
        f["prices"] += len(pp) if c not in p.columns or len(p) != len(pp) else int((p[c] != pp[c]).sum())
    f["prices"] += len([c for c in p.columns if c not in pp.columns and c != "USD"])
    f["cells"] = str(f["cells"])
    # process-wide and per-object state a backtest starts with: the Decimal context, and triggers already installed that are not this strategy's
    # (the whole context — exponent range, capitals, clamp too — and whatever the Snapshot class itself holds: `proc_state`)
    ps = proc_state(with_id=False)
    f["dctx"] = ps["dctx"]
    f["snapshot_class"] = ps["snapshot_class"]
    # every pandas object a market carries besides its data frame (Aave's risk-parameter table, …): part of the market object a backtest is handed
    f["mattrs"] = [[mi.name, k, frame_hash(v if hasattr(v, "columns") else v.to_frame())] for mi, m in strategy.broker.markets.items() for k, v in sorted(market_frames(m))]
    own = getattr(strategy, "_own_triggers", [])
    f["foreign_triggers"] = len([t for t in strategy.triggers if not any(t is o for o in own)])
    return f


def make_strategy_class():
    from demeter import Strategy

    class Scripted(Strategy):
        def __init__(self, sid, behaviour, out_dir, market_names, tokens=None, arg=None):
            super().__init__()
            self.sid, self.behaviour, self.out_dir, self.market_names, self.arg = sid, behaviour, out_dir, market_names, arg
            self.tokens = tokens or {}
            self.notes = []
            self.found = None
            self._own_triggers = []
            if behaviour == "trig_ctor":          # triggers installed when the strategy object is made
                self._install_triggers()

        def _install_triggers(self):
            from datetime import timedelta
            from demeter.strategy.trigger import PeriodTrigger, AtTimeTrigger
            import pandas as pd
            mine = [PeriodTrigger(timedelta(minutes=3), self._on_trigger, trigger_immediately=True, who="period"),
                    AtTimeTrigger((pd.Timestamp(T0) + pd.Timedelta(minutes=2)).to_pydatetime(), self._on_trigger, who="at")]
            self._own_triggers += mine
            self.triggers.extend(mine)

        def _on_trigger(self, snapshot, who):
            # a trigger-driven strategy: trades on ITS OWN account (self.broker) whenever one of its triggers fires
            self.notes.append(f"trigger:{who}:{snapshot.timestamp}")
            if self._has("uni_a"):
                self._try("trigger-buy", lambda: self._m("uni_a").buy(Decimal("0.05")))
            elif self._has("gmx"):
                self._try("trigger-glp", lambda: self._m("gmx").buy_glp(self.tokens["usdc"], Decimal(50)))
            elif self._has("squeeth"):
                self._try("trigger-sq", lambda: self._m("squeeth").buy_squeeth(eth_amount=Decimal("0.1")))

        def _m(self, k):
            name = k if isinstance(k, str) else self.market_names[min(k, len(self.market_names) - 1)]
            for mi, m in self.broker.markets.items():
                if mi.name == name:
                    return m
            raise KeyError(k)

        def _has(self, name):
            return name in self.market_names

        def _try(self, what, f):
            try:
                r = f()
                self.notes.append(what + ":ok" + ("" if r is None else ":" + json.dumps(canon(r))[:300]))
            except Exception as e:  # noqa: BLE001
                self.notes.append(what + ":" + type(e).__name__)

        def initialize(self):
            import pandas as pd
            self.found = probe_found(self)
            b = self.behaviour
            if b == "trig_init":                  # the documented place to add triggers
                self._install_triggers()
            if self._has("deribit") and (b in OPT or b == "watcher"):
                self._try("deposit", lambda: self._m("deribit").deposit(Decimal(5)))
            if b == "indicator":
                # the documented way to attach an indicator: Strategy.add_column writes a column into the market's data frame
                m = self._m(0)
                self.add_column(m, "sig", pd.Series(index=m.data.index, data=[k % 3 for k in range(len(m.data.index))]))
            elif b == "mut_prices":
                c = [x for x in self.prices.columns if x != "USD"][0]
                self.prices[c] = self.prices[c] * Decimal("0.98")          # values its holdings with a haircut
            elif b == "mut_market":
                # a stress scenario written into the market object it was handed: halves the first numeric column of every table the market carries
                # (Aave: the loan-to-value column of the risk parameters), in place
                def stress():
                    import pandas as pd
                    n = 0
                    for mi, m in self.broker.markets.items():
                        for k, v in market_frames(m):
                            if isinstance(v, pd.DataFrame):
                                for j in range(v.shape[1]):
                                    x = v.iloc[0, j] if len(v) else None
                                    if isinstance(x, (Decimal, float, int)) and not isinstance(x, bool):
                                        v.iloc[:, j] = [y / 2 for y in v.iloc[:, j]]
                                        n += 1
                                        break
                            elif len(v) and isinstance(v.iloc[0], (Decimal, float, int)) and not isinstance(v.iloc[0], bool):
                                v.iloc[0] = v.iloc[0] / 2
                                n += 1
                    return n
                self._try("stress", stress)
            elif b == "mut_nested":
                # in-place writes into the Python lists stored inside cells of the frames it was handed (self.data)
                def dig():
                    n = 0
                    for mi, df in self.data.items():
                        for c in nested_columns(df):
                            for cell in df[c]:
                                cell[0][1] -= 1.0
                                n += 1
                    return n
                self._try("dig", dig)

        def on_bar(self, snapshot):
            b, r = self.behaviour, snapshot.row_id

            def add(k, width, frac):
                m = self._m(k)
                t = int(snapshot.market_status[m.market_info].closeTick)
                base = self.broker.get_token_balance(m.base_token) * Decimal(frac)
                quote = self.broker.get_token_balance(m.quote_token) * Decimal(frac)
                m.add_liquidity_by_tick(t - width, t + width, base, quote)
            # Deribit trades only on bars of its hourly grid: with minute bars (a Uniswap market is configured too) bars 0 and 60
            o1, o2 = (1, 2) if self.market_names == ["deribit"] else ((0, 60) if self._has("deribit") else (-1, -1))
            if b == "raiser" and r == 2:
                # a bug in the strategy: an exception nobody catches ends THIS backtest (no finalize); the other strategies are none of its business
                raise ValueError("raiser: bug in on_bar")
            if b == "bad_price" and r in (1, 4):
                # a computed price that came out non-positive: the call is refused, the strategy catches the exception and goes on trading
                m = self._m(0)
                if r == 1:
                    self._try("price-to-tick", lambda: m.price_to_tick(Decimal(0)))
                    self._try("add-bad", lambda: m.add_liquidity(Decimal(-5), Decimal(2000), Decimal(1), Decimal(1000)))
                self._try("buy", lambda: m.buy(Decimal("0.3")))
            elif b == "indicator" and r in (2, 5):
                sig = snapshot.market_status[self._m(0).market_info].sig
                self._try(f"sig{sig}", lambda: self._m(0).buy(Decimal("0.2")) if sig == 2 else self._m(0).sell(Decimal("0.1")))
            elif b == "vandal" and r == 1:
                # overwrites values of the data frame it was handed, in place (not an API a strategy is meant to use)
                def smash():
                    m = self._m(0)
                    m.data.loc[m.data.index[3]:, "closeTick"] = m.data.loc[m.data.index[3]:, "closeTick"] + 700
                self._try("smash", smash)
            elif b == "vandal" and r == 6:
                self._try("add", lambda: add(0, 600, "0.5"))
            elif b == "follower" and r == 4:
                # acts on an indicator column only if somebody put one there
                row = snapshot.market_status[self._m(0).market_info]
                if "sig" in getattr(row, "index", []):
                    self._try("saw-sig", lambda: self._m(0).buy(Decimal("0.5")))
                else:
                    self.notes.append("no-sig")
            elif b == "mut_prices" and r == 2:
                def cell():
                    self.prices.iloc[-1, 0] = Decimal(1)
                self._try("price-cell", cell)
            elif b == "mut_data" and r == 1:
                # positional writes into every frame it was handed: later rows of one column, and a whole order-book cell
                def smash():
                    for mi, df in self.data.items():
                        col = {"uni_a": "closeTick", "uni_b": "closeTick", "uni_sq": "closeTick", "deribit": "mark_price", "squeeth": "OSQTH",
                               "gmx": "glp_price"}.get(mi.name)
                        j = df.columns.get_loc(col) if col is not None else 0
                        k = min(3, len(df) - 1)
                        old = df.iloc[k:, j]
                        df.iloc[k:, j] = old + 700 if col == "closeTick" else old * type(old.iloc[0])("1.01")
                        for c in nested_columns(df):
                            df.iat[len(df) - 1, df.columns.get_loc(c)] = [[0.5, 1.0]]
                self._try("smash", smash)
            elif b == "mut_status" and r == 1:
                # writes through the status objects: the row handed in the snapshot and the market's own, and the lists inside them
                def poke():
                    for mi, m in self.broker.markets.items():
                        for ms in (snapshot.market_status[mi], m.market_status.data):
                            if hasattr(ms, "columns"):          # Deribit: a frame of the hour's instruments
                                if CALL in ms.index:
                                    ms.loc[CALL, "asks"][0][1] -= 0.5
                                    ms.loc[CALL, "bids"][0][1] -= 0.5
                            elif "closeTick" in ms.index:
                                ms["closeTick"] = ms["closeTick"] + 3
                self._try("poke", poke)
            elif b == "mut_assets" and r == 1:
                def pay():
                    t = next(iter(self.broker.assets.keys()))
                    self.assets[t].balance += Decimal(7)
                    self.broker.add_to_balance(t, Decimal(3))
                self._try("pay", pay)
            elif b == "proc_reader" and r in (1, 3):
                # a strategy whose numbers depend on the process-wide decimal context it happens to run under (precision, rounding mode, traps,
                # exponent range) and that looks at everything a snapshot lists: whatever an earlier backtest of this process left there shows up
                def ctx_numbers():
                    third = Decimal(1) / Decimal(3)
                    out = [str(third), str((Decimal(2) / Decimal(3)).sqrt()), str(Decimal("2.5").quantize(Decimal(1))), str(Decimal("-0.125").quantize(Decimal("0.01"))),
                           str(+Decimal("1.23456789012345678901234567890123456789012345"))]
                    for what, f in (("div0", lambda: Decimal(1) / Decimal(0)), ("huge", lambda: Decimal(10) ** 999999 * Decimal(100)),
                                    ("tiny", lambda: Decimal("1e-999999") / Decimal(10 ** 40)), ("nan", lambda: Decimal("NaN") < Decimal(1))):
                        try:
                            out.append(what + "=" + str(f()))
                        except Exception as e:  # noqa: BLE001
                            out.append(what + "!" + type(e).__name__)
                    return out
                self._try("ctx", ctx_numbers)
                self.notes.append("snapshot-lists:" + ",".join(sorted(k.name for k in snapshot.market_status.data.keys())) + ":default:" +
                                  str(getattr(snapshot.market_status.get_default_key(), "name", None)))
                if self._has("uni_a"):
                    self._try("buy-third", lambda: self._m("uni_a").buy(Decimal(1) / Decimal(3)))
                elif self._has("gmx"):
                    self._try("glp-third", lambda: self._m("gmx").buy_glp(self.tokens["usdc"], Decimal(100) / Decimal(3)))
                elif self._has("squeeth"):
                    self._try("sq-third", lambda: self._m("squeeth").buy_squeeth(eth_amount=Decimal(1) / Decimal(3)))
            elif b == "watcher" and r in ((min(3, len(self.prices) - 1),) if o2 < 60 else (3, 60)):
                # records what it sees and trades by it: anything written by somebody else into prices / data / status shows up here
                self.notes.append("price:" + ",".join(str(x) for x in snapshot.prices.values))
                for mi, m in self.broker.markets.items():
                    st = snapshot.market_status[mi]
                    if mi.name == "deribit":
                        best = st.loc[CALL, "asks"][0] if CALL in st.index else None
                        self.notes.append(f"best-ask:{best}:mark:{st.loc[CALL, 'mark_price'] if CALL in st.index else None}")
                        self._try("buy", lambda: [[str(o.price), str(o.amount)] for o in m.buy(CALL, Decimal(2))[0]])
                    elif "closeTick" in getattr(st, "index", []):
                        self.notes.append(f"tick:{st.closeTick}")
                        if mi.name != "uni_sq":
                            self._try("buy", lambda: m.buy(Decimal(int(st.closeTick) % 7 + 1) / 10))
                    else:
                        self.notes.append("row:" + ",".join(str(x) for x in list(st.values)[:6]))

            if b == "add1" and r == 1:
                self._try("add", lambda: add(0, 600, "0.5"))
            elif b == "add2" and r in (1, 4):
                self._try("add", lambda: add(0, 300 * r, "0.4"))
            elif b == "addremove":
                if r == 2:
                    self._try("add", lambda: add(0, 1000, "0.8"))
                elif r == 7:
                    self._try("remove", lambda: self._m(0).remove_all_liquidity())
            elif b == "buy" and r in (0, 5):
                self._try("buy", lambda: self._m(0).buy(Decimal("0.7")))
            elif b == "sell" and r in (3, 6):
                self._try("sell", lambda: self._m(0).sell(Decimal("1.3")))
            elif b == "rebalance" and r == 2:
                self._try("rebalance", lambda: self._m(0).even_rebalance())
            elif b == "add_b" and r == 3:
                self._try("add", lambda: add(1, 900, "0.3"))
            elif b == "failing" and r == 1:
                self._try("sell", lambda: self._m(0).sell(Decimal("100000")))
            elif b == "aave_s" and r == 3:
                self._try("supply", lambda: self._m("aave").supply(self.tokens["usdc"], Decimal("2000"), True))
            elif b == "aave_sb":
                if r == 1:
                    self._try("supply", lambda: self._m("aave").supply(self.tokens["weth"], Decimal("3"), True))
                elif r == 2:
                    self._try("borrow", lambda: self._m("aave").borrow(self.tokens["usdc"], Decimal("800")))
            elif b == "aave_liq":
                # borrows close to its limit and then marks its collateral down in the price table of ITS OWN backtest (self.prices is the
                # Actuator's private frame): from the next bar on the health factor is below 1 and the market liquidates the position
                if r == 1:
                    self._try("supply", lambda: self._m("aave").supply(self.tokens["weth"], Decimal("3"), True))
                elif r == 2:
                    self._try("borrow", lambda: self._m("aave").borrow(self.tokens["usdc"], Decimal("3500")))
                elif r == 3:
                    def crash():
                        c, later = self.tokens["weth"].name, self.prices.index[4:]
                        self.prices.loc[later, c] = [v * Decimal("0.55") for v in self.prices.loc[later, c]]
                    self._try("crash", crash)
                elif r == 6:
                    m = self._m("aave")
                    self.notes.append("after:" + json.dumps(canon({"supplies": m.supplies, "borrows": m.borrows}))[:400])
            # options: everybody trades the same instrument in the same hourly bar
            elif b in OPT and r == o1:
                self._try("opt-buy", lambda: [[str(o.price), str(o.amount)] for o in self._m("deribit").buy(CALL, Decimal(self.arg))[0]])
            elif b == "opt_round" and r == o2:
                self._try("opt-sell", lambda: [[str(o.price), str(o.amount)] for o in self._m("deribit").sell(CALL, Decimal(self.arg))[0]])
            elif b == "opt_twice" and r == o2:
                self._try("opt-buy", lambda: [[str(o.price), str(o.amount)] for o in self._m("deribit").buy(CALL, Decimal(self.arg))[0]])
            elif b == "sq_buy" and r == 2:
                self._try("sq-buy", lambda: self._m("squeeth").buy_squeeth(eth_amount=Decimal(2)))
            elif b == "sq_short" and r == 9:
                self._try("sq-short", lambda: self._m("squeeth").open_deposit_mint_by_collat_rate(Decimal(3), Decimal("2.5")))
            elif b in ("glp_buy", "glp_round") and r == 1:
                self._try("glp-buy", lambda: self._m("gmx").buy_glp(self.tokens["weth"], Decimal("1.5")))
            elif b == "glp_round" and r == 3:
                self._try("glp-sell", lambda: self._m("gmx").sell_glp(self.tokens["usdc"], self._m("gmx").glp_amount / 2))

        def finalize(self):
            with open(os.path.join(self.out_dir, self.sid + ".json"), "w") as f:
                json.dump(dump_state(self), f)
    return Scripted


Scripted = None


def build_world(spec):
    """configuration + data of one case, built from the spec alone (deterministic): fresh objects on every call"""
    import pandas as pd
    from demeter import TokenInfo, MarketInfo, MarketTypeEnum, BacktestData, StrategyConfig
    from demeter.uniswap import UniLpMarket, UniV3Pool
    from demeter.uniswap.helper import get_price_from_data
    repo = os.environ.get("DEMETER_REPO", "/repo")
    usdc, eth, weth, osqth = TokenInfo("usdc", 6), TokenInfo("eth", 18), TokenInfo("weth", 18), TokenInfo("osqth", 18)
    names, bars, seed = spec["markets"], spec["bars"], spec["data_seed"]
    markets, frames, price = [], {}, None
    assets = {}
    if "uni_a" in names:
        assets.update({usdc: Decimal(spec["usdc"]), eth: Decimal(spec["eth"])})
    pool = UniV3Pool(usdc, eth, 0.05, usdc)
    for name in names:
        if name in ("uni_a", "uni_b"):
            m = UniLpMarket(MarketInfo(name), pool)
            frames[m.market_info] = make_data(pool, m, bars, seed)   # same price path on every market: one price table
        elif name == "aave":
            from demeter.aave import AaveV3Market
            m = AaveV3Market(market_info=MarketInfo(name, MarketTypeEnum.aave_v3), tokens=[weth, usdc],
                             risk_parameters_path=os.path.join(repo, "tests", "aave_risk_parameters", "demo.csv"))
            for j, t in enumerate((weth, usdc)):
                m.set_token_data(t, make_aave_data(bars, seed + j))
            frames[m.market_info] = m.data
            assets[weth] = Decimal("5")
        elif name == "deribit":
            from demeter.deribit import DeribitOptionMarket
            m = DeribitOptionMarket(MarketInfo(name, MarketTypeEnum.deribit_option), DeribitOptionMarket.ETH)
            hours = bars if names == ["deribit"] else (bars + 59) // 60
            frames[m.market_info] = make_deribit_data(hours, seed, tuple(spec.get("deribit_gap") or ()))
            assets[eth] = Decimal(spec["eth"])
        elif name == "uni_sq":
            m = UniLpMarket(MarketInfo(name, MarketTypeEnum.uniswap_v3), UniV3Pool(weth, osqth, 0.3, weth))
            frames[m.market_info] = make_sq_pool_data(m, bars, seed)
        elif name == "squeeth":
            from demeter.squeeth import SqueethMarket
            m = SqueethMarket(MarketInfo(name, MarketTypeEnum.squeeth), markets[names.index("uni_sq")])    # refers to the pool market
            frames[m.market_info] = make_squeeth_data(bars, seed)
            assets[weth] = Decimal(spec["eth"])
        elif name == "gmx":
            from demeter.gmx import GmxMarket
            m = GmxMarket(MarketInfo(name, MarketTypeEnum.gmx_v1), tokens=[weth, usdc])
            frames[m.market_info] = make_gmx_data(bars, seed)
            assets.update({weth: Decimal(spec["eth"]), usdc: Decimal(spec["usdc"])})
        else:
            raise ValueError(name)
        markets.append(m)
    if "uni_a" in names:
        pdf, quote = get_price_from_data(frames[markets[names.index("uni_a")].market_info], pool)
        if weth in assets:
            pdf[weth.name] = pdf[eth.name]
    elif "squeeth" in names:
        from demeter.squeeth.helper import get_price_from_data as sq_price
        pdf, quote = sq_price(frames[markets[names.index("squeeth")].market_info]), None
    elif "gmx" in names:
        from demeter.gmx.helper import get_price_from_data as gmx_price
        pdf, quote = gmx_price(frames[markets[0].market_info]), None
        pdf["USDC"] = Decimal(1)
    else:       # Deribit alone: hourly bars, the underlying as the only price
        idx = pd.date_range(T0, periods=bars, freq="1h")
        pdf, quote = pd.DataFrame({"ETH": [1650.0 + i for i in range(bars)]}, index=idx), None
    if spec.get("price_kind") == "decimal":
        pdf = pdf.map(lambda v: Decimal(str(v)))       # prepared once for all backtests: every cell is a Decimal already
    else:
        pdf = pdf.map(float)
    config = StrategyConfig(assets=assets, markets=markets)
    data = BacktestData(frames, pdf if quote is None else (pdf, quote))
    return config, data, {"usdc": usdc, "weth": weth, "eth": eth, "osqth": osqth}, pdf


def set_pristine(data, pdf):
    global PRISTINE
    import copy
    from demeter.utils import to_decimal
    PRISTINE = {"frames": {mi.name: copy.deepcopy(df) for mi, df in data.data.items()}, "price": pdf.map(to_decimal)}
    for mi, df in data.data.items():        # DataFrame deep copies do not duplicate objects inside cells
        for c in nested_columns(df):
            PRISTINE["frames"][mi.name][c] = df[c].map(copy.deepcopy)


def worker(spec_path):
    """build configuration + data + strategies from the spec, run the real BacktestManager once; with `direct` also run every
    strategy alone with a plain Actuator on freshly built objects (no manager involved)"""
    global Scripted
    import logging
    logging.disable(logging.CRITICAL)
    spec = json.load(open(spec_path))
    sys.path.insert(0, os.environ.get("DEMETER_REPO", "/repo"))
    from demeter import BacktestManager, BacktestConfig, Actuator
    Scripted = make_strategy_class()
    Scripted.__qualname__ = "Scripted"
    proc0 = proc_state()            # the process state right after `import demeter`: what a backtest alone in a fresh process starts from
    install_proc_log(spec["out"])
    config, data, tokens, pdf = build_world(spec)
    set_pristine(data, pdf)
    frames = data.data
    before = {mi.name: frame_hash(df) for mi, df in frames.items()}
    before["price"] = frame_hash(pdf)
    strategies = [Scripted(s["sid"], s["behaviour"], spec["out"], spec["markets"], tokens, s.get("arg")) for s in spec["strategies"]]
    if spec.get("windows"):
        # exercise the branch that passes `data` as a task argument (no hook in /repo: the module's `platform` name is patched here)
        import types
        import demeter.core.backtest as bt
        bt.platform = types.SimpleNamespace(system=lambda: "Windows")
    mgr = BacktestManager(config=config, data=data, strategies=strategies, backtest_config=BacktestConfig(interval=spec.get("interval", "1min")),
                          threads=spec["threads"])
    raised = None
    try:
        mgr.run()
    except Exception as e:  # noqa: BLE001   (the class is the observation; what the strategies left behind is still collected)
        raised = type(e).__name__ + ": " + str(e)[:100]
    if spec["threads"] == 1 or len(strategies) == 1:
        # in-process path: the strategy objects the caller holds ARE the ones that ran; what they say once every backtest is over
        for st in strategies:
            try:
                blob = json.dumps(dump_state(st))
            except Exception:  # noqa: BLE001   (a strategy that never ran, or whose backtest ended in an exception, has no account)
                continue
            with open(os.path.join(spec["out"], st.sid + "__post.json"), "w") as f:
                f.write(blob)
    after = {mi.name: frame_hash(df) for mi, df in frames.items()}
    after["price"] = frame_hash(pdf)
    leftover = {m.market_info.name: count_positions(m) for m in config.markets}
    attached = [m.market_info.name for m in config.markets if m.broker is not None]
    with open(os.path.join(spec["out"], "_manager.json"), "w") as f:
        json.dump({"data_intact": before == after, "changed": sorted(k for k in before if before[k] != after[k]),
                   "config_positions_after": leftover, "config_attached": attached, "raised": raised,
                   "pid": os.getpid(), "proc0": proc0, "proc_after": proc_state()}, f)
    if spec.get("direct"):
        for s in spec["strategies"]:
            config, data, tokens, pdf = build_world(spec)
            set_pristine(data, pdf)
            a = Actuator()
            for m in config.markets:
                a.broker.add_market(m)
                m.data = data.data[m.market_info]
            for asset, amount in config.assets.items():
                a.broker.set_balance(asset, amount)
            a.strategy = Scripted(s["sid"] + "_direct", s["behaviour"], spec["out"], spec["markets"], tokens, s.get("arg"))
            a.set_price(data.prices)
            a.interval = spec.get("interval", "1min")
            try:
                a.run(False)
            except Exception:  # noqa: BLE001   (a strategy that raises has no result when run alone either)
                pass


def edge_worker(spec_path):
    """manager-level outcomes that are not about isolation: which exception class `run()` raises / that it returns"""
    global Scripted
    import logging
    import multiprocessing
    logging.disable(logging.CRITICAL)
    spec = json.load(open(spec_path))
    sys.path.insert(0, os.environ.get("DEMETER_REPO", "/repo"))
    from demeter import BacktestManager, BacktestConfig
    Scripted = make_strategy_class()
    Scripted.__qualname__ = "Scripted"
    config, data, tokens, pdf = build_world({"markets": ["uni_a"], "bars": 6, "data_seed": 1, "usdc": "1000", "eth": "1"})
    set_pristine(data, pdf)
    sc = spec["scenario"]
    n = 0 if sc == "no-strategies" else 2
    strategies = [Scripted(f"e{i}", "idle", spec["out"], ["uni_a"]) for i in range(n)]
    threads = {"too-many-threads": multiprocessing.cpu_count() + 1, "zero-threads": 0, "second-pooled-run": 2}.get(sc, 1)
    mgr = BacktestManager(config=None if sc == "no-config" else config, data=None if sc == "no-data" else data, strategies=strategies,
                          backtest_config=BacktestConfig(), threads=threads)
    outcome = []
    for _ in range(2 if sc == "second-pooled-run" else 1):
        try:
            mgr.run()
            outcome.append("ok")
        except Exception as e:  # noqa: BLE001
            outcome.append(type(e).__name__)
    with open(os.path.join(spec["out"], "_edge.json"), "w") as f:
        json.dump({"outcome": outcome, "cpu": multiprocessing.cpu_count(), "threads": threads, "n": n}, f)


def own_frame_worker(out_path):
    """which classes of objects stored inside cells does `_own_frame` duplicate?  One object column per class; a write into the cell
    of the frame handed out must not reach the shared frame.  `managerCellsCopied` / `Mode.cellsCopied` cover list, dict and set cells
    (and every other cell of a column that holds at least one of those); the other classes are recorded, not judged."""
    import logging
    logging.disable(logging.CRITICAL)
    sys.path.insert(0, os.environ.get("DEMETER_REPO", "/repo"))
    import collections
    import numpy as np
    import pandas as pd
    import demeter.core.backtest as bt

    class Box:
        def __init__(self):
            self.v = [1.0]
    idx = pd.date_range(T0, periods=3, freq="min")
    makers = {
        "list": (lambda: [[0.5, 1.0]], lambda c: c[0].__setitem__(1, 9.0), lambda c: c[0][1]),
        "dict": (lambda: {"a": [1.0]}, lambda c: c["a"].__setitem__(0, 9.0), lambda c: c["a"][0]),
        "set": (lambda: {1}, lambda c: c.add(9), lambda c: sorted(c)),
        "list+object in one column": None,
        "tuple of lists": (lambda: ([0.5, 1.0],), lambda c: c[0].__setitem__(1, 9.0), lambda c: c[0][1]),
        "numpy array": (lambda: np.array([1.0, 2.0]), lambda c: c.__setitem__(0, 9.0), lambda c: float(c[0])),
        "deque": (lambda: collections.deque([1.0]), lambda c: c.append(9.0), lambda c: list(c)),
        "user object": (lambda: Box(), lambda c: c.v.__setitem__(0, 9.0), lambda c: c.v[0]),
    }
    out = {}
    for name, mk in makers.items():
        try:
            if mk is None:
                cells = [[[0.5, 1.0]], Box(), Box()]
                write, read = (lambda c: c.v.__setitem__(0, 9.0)), (lambda c: c.v[0])
                k = 1
            else:
                cells, write, read, k = [mk[0]() for _ in idx], mk[1], mk[2], 0
            shared = pd.DataFrame({"x": [1.0, 2.0, 3.0], "cell": pd.Series(cells, index=idx, dtype=object)}, index=idx)
            before = repr(read(shared["cell"].iloc[k]))
            own = bt._own_frame(shared)
            write(own["cell"].iloc[k])
            out[name] = repr(read(shared["cell"].iloc[k])) == before
        except Exception as e:  # noqa: BLE001
            out[name] = "error: " + type(e).__name__
    json.dump(out, open(out_path, "w"))


OWN_FRAME_COVERED = ("list", "dict", "set", "list+object in one column")


def own_frame_probe(ctx):
    """the class of cell objects `cellsCopied = true` speaks about, measured on `_own_frame` itself"""
    with tempfile.TemporaryDirectory(prefix="c19o_", dir=work_dir()) as d:
        op = os.path.join(d, "_own.json")
        subprocess.run([sys.executable, os.path.abspath(__file__), "--ownframe", op], stdout=subprocess.PIPE, stderr=subprocess.PIPE, timeout=300)
        res = json.load(open(op)) if os.path.exists(op) else None
    if res is None:
        ctx.note("own_frame_probe", "no result")
        return
    ctx.note("own_frame_cell_classes_isolated", res)
    for k, v in res.items():
        ctx.case(f"own-frame:{k}:{'isolated' if v is True else 'shared' if v is False else v}")
        if k in OWN_FRAME_COVERED and v is not True:
            ctx.violate(f"manager._own_frame:cell-not-copied:{k}", f"_own_frame hands out a frame whose '{k}' cells are the shared frame's own objects ({v}): a write "
                        "into such a cell by one backtest is seen by every later backtest of the process", {"own_frame_probe": k})
    ctx.note("own_frame_not_covered", sorted(k for k, v in res.items() if k not in OWN_FRAME_COVERED and v is not True))


EDGE = ["no-config", "no-data", "no-strategies", "too-many-threads", "zero-threads", "second-pooled-run"]


def work_dir():
    w = os.path.join(os.path.dirname(HERE), ".work")
    return w if os.path.isdir(w) else None


def run_edge(scenario):
    with tempfile.TemporaryDirectory(prefix="c19e_", dir=work_dir()) as d:
        sp = os.path.join(d, "_spec.json")
        json.dump({"scenario": scenario, "out": d}, open(sp, "w"))
        subprocess.run([sys.executable, os.path.abspath(__file__), "--edge", sp], stdout=subprocess.PIPE, stderr=subprocess.PIPE, timeout=300)
        ep = os.path.join(d, "_edge.json")
        return json.load(open(ep)) if os.path.exists(ep) else None


# ============================================================================================== harness side
CONF_KEYS = ("markets", "bars", "data_seed", "usdc", "eth", "price_kind", "interval", "deribit_gap")


def run_manager(spec, timeout=600):
    """one real BacktestManager.run() in a fresh interpreter; returns {sid: dump} and the manager-level record"""
    with tempfile.TemporaryDirectory(prefix="c19_", dir=work_dir()) as d:
        spec = dict(spec, out=d)
        sp = os.path.join(d, "_spec.json")
        json.dump(spec, open(sp, "w"))
        p = subprocess.run([sys.executable, os.path.abspath(__file__), "--worker", sp], stdout=subprocess.PIPE, stderr=subprocess.PIPE,
                           timeout=timeout, env=dict(os.environ))
        res = {}
        for s in spec["strategies"]:
            for sid in (s["sid"], s["sid"] + "_direct", s["sid"] + "__post"):
                fp = os.path.join(d, sid + ".json")
                try:
                    res[sid] = json.load(open(fp)) if os.path.exists(fp) else None
                except ValueError:          # a file the worker could not finish writing
                    res[sid] = None
        mp = os.path.join(d, "_manager.json")
        mgr = json.load(open(mp)) if os.path.exists(mp) else None
        if mgr is not None:
            # one log per process that executed backtests, lines in execution order: {pid: [{sid, before, after, failed?}, …]}
            mgr["proc_log"] = {}
            for fn in sorted(os.listdir(d)):
                if fn.startswith("_proc_") and fn.endswith(".jsonl"):
                    try:
                        mgr["proc_log"][fn[6:-6]] = [json.loads(line) for line in open(os.path.join(d, fn)) if line.strip()]
                    except ValueError:
                        mgr["proc_log"][fn[6:-6]] = None
        return res, mgr, p.returncode, p.stderr.decode(errors="replace")[-1500:]


def diff_dump(a, b):
    if a is None or b is None:
        return "no result file (the run did not reach finalize())"
    for k in ("notes", "found", "positions", "assets", "actions", "columns", "data_columns"):
        if a[k] != b[k]:
            x, y = json.dumps(a[k]), json.dumps(b[k])
            i = next((t for t in range(min(len(x), len(y))) if x[t] != y[t]), 0)
            return f"{k}: …{x[max(0, i - 60):i + 100]} vs alone …{y[max(0, i - 60):i + 100]}"
    if len(a["account"]) != len(b["account"]):
        return f"account history length {len(a['account'])} vs alone {len(b['account'])}"
    for i, (x, y) in enumerate(zip(a["account"], b["account"])):
        if x != y:
            j = next(t for t in range(len(x)) if x[t] != y[t])
            return f"account history row {i} ({x[0]}) column {a['columns'][j - 1] if j else 'index'}: {x[j]} vs alone {y[j]}"
    return None


def base_spec(rng, markets, bars=None, price_kind=None, interval=None):
    if bars is None:
        bars = {"deribit": 5, "uni_a+deribit": 64, "uni_sq+squeeth": 14, "gmx": 8}.get("+".join(markets), 12)
    return {"markets": list(markets), "bars": bars, "data_seed": rng.randint(0, 10 ** 6), "usdc": "10000", "eth": "10",
            "price_kind": price_kind or rng.choice(["float", "decimal"]), "interval": interval or "1min"}


def conf_of(case):
    return {k: case.get(k, "1min") if k == "interval" else case.get(k) if k == "deribit_gap" else case[k] for k in CONF_KEYS}


def strategies_of(case):
    return [{"sid": f"s{i}", "behaviour": b, "arg": a} for i, (b, a) in enumerate(zip(case["behaviours"], case["args"]))]


def solo_key(case, behaviour, arg):
    return json.dumps([conf_of(case), behaviour, arg], sort_keys=True)


def run_solo(case, behaviour, arg):
    """the reference: the strategy alone, (a) through a manager with one strategy, (b) by a plain Actuator on fresh objects"""
    res, mgr, _, err = run_manager(dict(conf_of(case), threads=1, direct=True, strategies=[{"sid": "solo", "behaviour": behaviour, "arg": arg}]))
    return {"manager": res["solo"], "direct": res["solo_direct"], "post": res.get("solo__post"), "err": err, "mgr": mgr}


def run_case(case):
    """the manager run of one case: {markets, bars, data_seed, usdc, eth, price_kind, threads, behaviours: [...], args: [...], order}"""
    strategies = strategies_of(case)
    return run_manager(dict(conf_of(case), threads=case["threads"], strategies=[strategies[i] for i in case["order"]], windows=bool(case.get("windows"))))


def effect(case, behaviour, arg):
    """what a behaviour leaves behind, layer by layer — the projection the manager model is run on:
    [positions on market 1, positions on market 2, columns added, frame values overwritten, order-book depth taken by its own in-place
     writes, depth taken by the market's fill path, price cells overwritten]"""
    names = case["markets"]
    hours = case["bars"] if names == ["deribit"] else (case["bars"] + 59) // 60
    pos = [0, 0]

    def at(name, n=1):
        if name in names and names.index(name) < 2:
            pos[names.index(name)] += n
    b = behaviour
    if b in ("add1", "vandal"):
        at(names[0])
    elif b == "add2":
        at(names[0], 2)
    elif b == "add_b":
        at("uni_b")
    elif b in ("aave_s", "aave_sb", "aave_liq"):
        at("aave")
    elif b in OPT:
        at("deribit")
    elif b == "sq_short":
        at("squeeth")
    elif b in ("glp_buy", "glp_round"):
        at("gmx")
    if b == "watcher" and "deribit" in names:
        at("deribit")
    has_nested = "deribit" in names
    fill = {"opt_buy": 1, "opt_round": 2, "opt_twice": 2}.get(b, 0) * int(arg or 0) + (2 if b == "watcher" and has_nested else 0)
    user = (4 * hours if b == "mut_nested" else 2 if b == "mut_status" else 0) if has_nested else 0
    vals = 1 if b in ("vandal", "mut_data") else 0
    return pos + [1 if b == "indicator" else 0, vals, user, fill, 1 if b in ("mut_prices", "aave_liq") else 0]


def judge_process(ctx, case, path, mgr, ordered):
    """the hypothesis `GIntact` of C19_manager_isolated, evaluated on the implementation's own observations: every backtest finds the
    process-wide state (decimal context; class-level attributes of Snapshot: identity, keys, content) as a fresh process has it after
    `import demeter`, and leaves it as it found it — in the caller's process and in every pool worker.  None of the generated strategies
    writes that state, so whatever changes it is the code under test.  Returns (ok, observed assignment of tasks to workers or None,
    per strategy: did its backtest leave the process changed, per strategy: did it find the process changed)."""
    log, proc0 = mgr.get("proc_log") or {}, mgr.get("proc0") or {}
    where = {}
    for pid, recs in log.items():
        for k, rec in enumerate(recs or []):
            where[rec.get("sid")] = (pid, k, rec)

    def parts(a, b):
        return [k for k in ("dctx", "snapshot_class") if (a or {}).get(k) != (b or {}).get(k)]

    def show(a, b, k):
        x, y = json.dumps((a or {}).get(k)), json.dumps((b or {}).get(k))
        return f"{k} {x[:160]} -> {y[:160]}"
    ok, wrote, found_changed = True, [], []
    beh = {x["sid"]: x["behaviour"] for x in ordered}
    for s in ordered:
        if s["sid"] not in where:
            wrote.append(0)
            found_changed.append(None)
            continue
        pid, k, rec = where[s["sid"]]
        left = parts(rec["before"], rec.get("after"))
        wrote.append(1 if left else 0)
        found_changed.append(bool(parts(proc0, rec["before"])))
        if left and ok:
            ctx.violate(f"manager.{path}.process-state-left:{'+'.join(left)}",
                        f"markets {'+'.join(case['markets'])}, threads={case['threads']}: the backtest of strategy '{s['behaviour']}' (none of the generated strategies "
                        f"writes process-wide state) left the process it ran in changed — {'; '.join(show(rec['before'], rec.get('after'), c) for c in left)}; "
                        f"backtests run later in that process: {[beh.get(r.get('sid')) for r in (log[pid] or [])[k + 1:]]}", case)
            ok = False
    for s, fc in zip(ordered, found_changed):
        if fc and ok:
            pid, k, rec = where[s["sid"]]
            ctx.violate(f"manager.{path}.process-state-found:{'+'.join(parts(proc0, rec['before']))}",
                        f"markets {'+'.join(case['markets'])}, threads={case['threads']}: strategy '{s['behaviour']}' started in a process whose state is not the one after "
                        f"`import demeter` although no backtest before it left it changed — {'; '.join(show(proc0, rec['before'], c) for c in parts(proc0, rec['before']))}", case)
            ok = False
    if ok and parts(proc0, mgr.get("proc_after")):
        ctx.violate(f"manager.{path}.process-state-left-in-caller:{'+'.join(parts(proc0, mgr.get('proc_after')))}",
                    f"threads={case['threads']}: run() left the caller's process changed — "
                    f"{'; '.join(show(proc0, mgr.get('proc_after'), c) for c in parts(proc0, mgr.get('proc_after')))}", case)
        ok = False
    # which process executed which task, in which order (the scheduling the model is parametrised by: observed, not assumed)
    assign = None
    if all(s["sid"] in where for s in ordered):
        pids = []
        for s in ordered:
            if where[s["sid"]][0] not in pids:
                pids.append(where[s["sid"]][0])
        assign = [pids.index(where[s["sid"]][0]) for s in ordered]
        in_order = all([where[s["sid"]][1] for s in ordered if where[s["sid"]][0] == p] == sorted(where[s["sid"]][1] for s in ordered if where[s["sid"]][0] == p)
                       for p in pids)
        in_caller = [p == str(mgr.get("pid")) for p in pids]
        inproc = path in ("sequential", "solo")
        if inproc and in_caller != [True]:
            ctx.disagree(f"in-process path (threads={case['threads']}, {len(ordered)} strategies): backtests were executed by processes {pids}, the caller is {mgr.get('pid')}", case)
        elif not inproc and any(in_caller):
            ctx.disagree(f"pooled path (threads={case['threads']}): a backtest was executed by the caller's own process {mgr.get('pid')}", case)
        if not inproc:
            ctx.case(f"workers:{path}:t{case['threads']}:n{len(ordered)}:used{len(pids)}:maxload{max(assign.count(i) for i in range(len(pids)))}")
            if len(pids) > case["threads"]:
                ctx.disagree(f"pooled path: {len(pids)} worker processes executed tasks, threads={case['threads']}", case)
        if not in_order:
            ctx.count("worker_ran_tasks_out_of_submission_order")
            assign = None
    else:
        ctx.count("backtests_without_process_log", len([s for s in ordered if s["sid"] not in where]))
    return ok, assign, wrote, found_changed


def judge_case(ctx, case, outcome, solo_cache, model_reqs):
    strategies = strategies_of(case)
    ordered = [strategies[i] for i in case["order"]]
    res, mgr, rc, err = outcome
    path = "sequential" if len(ordered) == 1 or case["threads"] == 1 else ("pooled-args" if case.get("windows") else "pooled")
    mix = "+".join(case["markets"])
    ok = True
    has_raiser = "raiser" in case["behaviours"]
    if rc != 0 or mgr is None or (mgr.get("raised") and not has_raiser):
        ctx.violate(f"manager.{path}.crash", f"BacktestManager.run() failed (exit {rc}) with threads={case['threads']}, markets {mix}, strategies {case['behaviours']}: {err[-300:]}", case)
        ok = False
    elif not mgr["data_intact"]:
        ctx.violate(f"manager.{path}.data-modified:{'price' if mgr['changed'] == ['price'] else 'frames'}",
                    f"a run modified the manager's BacktestData ({mgr['changed']}; markets {mix}, prices {case['price_kind']}, strategies {case['behaviours']})", case)
        ok = False
    elif any(mgr["config_positions_after"].values()) or mgr["config_attached"]:
        ctx.violate(f"manager.{path}.config-modified", f"the configured market objects were used by a backtest: positions {mgr['config_positions_after']}, "
                    f"attached to a broker {mgr['config_attached']}", case)
        ok = False
    assign, wrote, found_changed = None, [0] * len(ordered), [None] * len(ordered)
    if rc == 0 and mgr is not None:
        pok, assign, wrote, found_changed = judge_process(ctx, case, path, mgr, ordered)
        ok = ok and pok
    for s in strategies:
        solo = solo_cache[solo_key(case, s["behaviour"], s["arg"])]
        if s["behaviour"] == "raiser":
            # ends its own backtest with an uncaught exception: no account history alone, none under the manager
            if res.get(s["sid"]) is not None:
                ctx.violate(f"manager.{path}.raiser-has-result", "a strategy that raises in on_bar reached finalize() under the manager", case)
                ok = False
            continue
        # reference: the plain-Actuator run; if the manager changes this strategy even when it is alone (reported by judge_solo),
        # interference is still looked for, against the manager's own solo run
        ref = solo["direct"] if diff_dump(solo["manager"], solo["direct"]) is None else solo["manager"]
        d = diff_dump(res.get(s["sid"]), ref)
        if d is not None:
            pos = [x["sid"] for x in ordered].index(s["sid"])
            before = [x["behaviour"] for x in ordered[:pos]]
            ctx.violate(f"manager.{path}.interference",
                        f"markets {mix}, prices {case['price_kind']}, threads={case['threads']}: strategy '{s['behaviour']}' run after {before} differs from running it alone — {d}", case)
            ok = False
        # in-process path: the caller's strategy object after ALL backtests are over still says what it said when its own backtest ended
        post, solo_post = res.get(s["sid"] + "__post"), solo.get("post")
        if d is None and post is not None and solo_post is not None:
            d2 = diff_dump(post, solo_post)
            if d2 is not None:
                pos = [x["sid"] for x in ordered].index(s["sid"])
                after = [x["behaviour"] for x in ordered[pos + 1:]]
                ctx.violate(f"manager.{path}.interference-after-own-backtest",
                            f"markets {mix}, threads={case['threads']}: account / positions / actions of strategy '{s['behaviour']}' read from its object after the "
                            f"manager returned differ from running it alone; the strategies run after it were {after} — {d2}", case)
                ok = False
    kinds = "+".join(sorted(case["behaviours"]))
    ctx.case(f"{path}:t{case['threads']}:n{len(strategies)}:{mix}:{case['price_kind']}:{case.get('interval', '1min')}:{kinds}:{case.get('order_kind', 'id')}:{'ok' if ok else 'bad'}", case)
    # the manager model on the projections "who produces a result at all" (a strategy that raises does not: `fails`) and "what did each
    # strategy find"; not asked when the worker itself broke down (reported above)
    if rc == 0 and mgr is not None:
        found = []
        for s in ordered:
            r = res.get(s["sid"])
            if r is None:
                found.append(None)
                continue
            f = r["found"]
            p = (f["pos"] + [0])[:2]
            found.append([p[0] > 0, p[1] > 0, bool(f["link"]), f["cols"] > 0, f["vals"] > 0, f["cells"], f["prices"] > 0])
        observed = {"results": [r is not None for r in found], "found": found, "reraised": bool(mgr.get("raised")),
                    "foundG": [None if r is None else fc for r, fc in zip(found, found_changed)]}
        req = {"fn": "manager", "threads": case["threads"], "attach": "current", "cow": COW, "windows": bool(case.get("windows")),
               "priceDec": case["price_kind"] == "decimal", "linked": "squeeth" in case["markets"],
               "effects": [effect(case, s["behaviour"], s["arg"]) for s in ordered],
               "fails": [s["behaviour"] == "raiser" for s in ordered],
               # process-wide state (`managerRunG`): which backtests were measured to leave their process changed (none, unless the code
               # under test does), and the assignment of tasks to worker processes as observed (pid per backtest), not an assumed one
               "gwrites": wrote}
        if assign is not None and path != "sequential":
            req["assign"] = assign
            ctx.count("observed_assignments")
        model_reqs.append((req, observed, case))


def judge_solo(ctx, key, solo):
    conf, behaviour, arg = json.loads(key)
    case = dict(conf, threads=1, behaviours=[behaviour], args=[arg], order=[0], order_kind="id")
    d = diff_dump(solo["manager"], solo["direct"])
    if behaviour == "raiser":
        d = None if solo["manager"] is None and solo["direct"] is None else "a strategy that raises in on_bar produced a result"
        if d is not None:
            ctx.violate("manager.solo-differs-from-actuator", d, case)
    elif solo["direct"] is None:
        ctx.disagree(f"reference run (plain Actuator) of '{behaviour}' on {conf['markets']} produced no result: {solo['err'][-300:]}", case)
    elif d is not None:
        ctx.violate("manager.solo-differs-from-actuator",
                    f"markets {'+'.join(conf['markets'])}: strategy '{behaviour}' run alone by BacktestManager differs from the same backtest run by a plain Actuator — {d}", case)
    if solo.get("mgr"):
        pok = judge_process(ctx, case, "solo", solo["mgr"], [{"sid": "solo", "behaviour": behaviour, "arg": arg}])[0]
        d = d if pok else (d or "process state")
    ctx.case(f"solo:{'+'.join(conf['markets'])}:{conf['price_kind']}:{behaviour}:{'ok' if d is None else 'bad'}", case)


def with_args(rng, case):
    """sizes of the option trades: exactly the best ask level, more than it, or small"""
    s1 = best_ask_size(case["data_seed"])
    case["args"] = [rng.choice([s1, s1, s1 + 2, 2, 1]) if b in OPT else None for b in case["behaviours"]] if "args" not in case else case["args"]
    return case


def gen_cases(ctx):
    rng = ctx.rng
    cases = []

    def fixed(markets, threads, behaviours, args=None, price_kind=None, order=None, kind="id", bars=None, windows=False, base=None):
        base = base or base_spec(rng, markets, bars, price_kind)
        c = dict(base, threads=threads, behaviours=list(behaviours), order=order or list(range(len(behaviours))), order_kind=kind, windows=windows)
        if args is not None:
            s1 = best_ask_size(c["data_seed"])
            c["args"] = [None if a is None else s1 + a for a in args]       # sizes relative to the best ask level
        cases.append(with_args(rng, c))
        return base
    # the witness of DESIGN §1.8 (an idle strategy after one that adds liquidity), every thread count
    for threads in (1, 2, 4):
        fixed(MARKET_SETS[0], threads, ["add1", "idle"])
    fixed(MARKET_SETS[1], 1, ["add_b", "add1", "idle"])
    fixed(MARKET_SETS[2], 1, ["aave_sb", "idle", "aave_s"])
    # a strategy that adds an indicator column, followed by one that would act on such a column: the data frames are shared too
    for threads in (1, 2):
        fixed(MARKET_SETS[0], threads, ["indicator", "follower", "follower"])
    # a strategy that overwrites values of its data frame in place, followed by strategies whose result depends on those values
    for threads in (1, 2):
        fixed(MARKET_SETS[0], threads, ["vandal", "add1", "indicator", "add2"])
    # the branch taken on Windows: `data` travels as a task argument
    fixed(MARKET_SETS[1], 2, ["add1", "indicator", "follower", "add_b"], windows=True)
    # all orders of one three-strategy set, sequential and pooled
    base = base_spec(rng, MARKET_SETS[2])
    for threads in (1, 2):
        for p in itertools.permutations(range(3)):
            fixed(None, threads, ["add1", "aave_sb", "idle"], order=list(p), kind="perm", base=base)
    # Deribit: several strategies take the same option in the same hourly bar; sizes exhaust / cross the best level (both price kinds, both orders)
    for pk in ("float", "decimal"):
        base = base_spec(rng, ["deribit"], price_kind=pk)
        fixed(None, 1, ["opt_buy", "opt_buy"], args=[0, -1], base=base)
        fixed(None, 1, ["opt_buy", "opt_buy"], args=[0, -1], order=[1, 0], kind="rev", base=base)
    fixed(["deribit"], 1, ["opt_buy", "opt_round", "opt_twice", "watcher"], args=[2, 0, -1, None])
    fixed(["deribit"], 2, ["opt_buy", "opt_round", "opt_twice", "watcher"], args=[2, 0, -1, None])
    # … and strategies that write into the order-book lists nested in cells, through self.data and through the status objects
    for threads in (1, 2):
        fixed(["deribit"], threads, ["mut_nested", "opt_buy", "watcher"], args=[None, 0, None])
    fixed(["deribit"], 1, ["mut_status", "opt_buy", "watcher"], args=[None, 0, None])
    fixed(["deribit"], 1, ["mut_data", "opt_buy", "watcher"], args=[None, 0, None])
    fixed(["uni_a", "deribit"], 1, ["opt_buy", "add1", "mut_nested", "opt_buy"], args=[0, None, None, 2])
    fixed(["uni_a", "deribit"], 2, ["mut_status", "opt_round", "watcher"], args=[None, 0, None])
    # the option data lacks the hour in which the backtest starts (minute pool data from 00:00, first hourly snapshot at 01:00): during the first hour
    # the hourly market publishes an empty status; a strategy that looks at it then must see 'no quotes', not what an earlier backtest published last
    for threads in (1, 2):
        fixed(None, threads, ["opt_round", "watcher", "watcher"], args=[0, None, None], base=dict(base_spec(rng, ["uni_a", "deribit"]), deribit_gap=[0]))
    fixed(None, 1, ["idle", "watcher"], order=[1, 0], kind="rev", base=dict(base_spec(rng, ["uni_a", "deribit"], 130), deribit_gap=[1]))
    # a strategy that writes into self.prices, float frame and all-Decimal frame, followed by strategies valued with those prices
    for pk in ("float", "decimal"):
        fixed(["uni_a"], 1, ["mut_prices", "buy", "add1"], price_kind=pk)
        fixed(["deribit"], 1, ["mut_prices", "opt_buy", "idle"], args=[None, 0, None], price_kind=pk)
    fixed(["uni_a"], 2, ["mut_prices", "watcher", "sell"], price_kind="decimal")
    # trigger-driven strategies (triggers installed by initialize() / at construction), in both orders, and one that provokes and catches a refusal
    fixed(["uni_a"], 1, ["trig_init", "trig_init", "buy"])
    fixed(["uni_a"], 1, ["trig_init", "idle", "trig_ctor"], order=[2, 1, 0], kind="rev")
    fixed(["uni_a"], 1, ["trig_ctor", "trig_init", "watcher"])
    fixed(["uni_a"], 2, ["trig_init", "trig_ctor", "trig_init"])
    fixed(["gmx"], 1, ["trig_init", "glp_buy", "trig_init"])
    fixed(["uni_a"], 1, ["bad_price", "buy", "add1"])
    fixed(["uni_a"], 1, ["bad_price", "rebalance", "sell"])
    fixed(["uni_a"], 2, ["bad_price", "add1", "buy", "sell"])
    fixed(["uni_a", "uni_b"], 1, ["mut_data", "add1", "watcher", "add_b"])
    fixed(["uni_a", "aave"], 1, ["mut_status", "mut_assets", "watcher", "aave_s"])
    # a strategy that writes into the tables its market objects carry (Aave risk parameters), followed by strategies that borrow under them
    fixed(["uni_a", "aave"], 1, ["mut_market", "aave_sb", "idle"])
    fixed(["uni_a", "aave"], 2, ["aave_sb", "mut_market", "aave_sb"])
    # process-wide state: strategies whose numbers depend on the decimal context and on what the Snapshot class holds, run after strategies that
    # drive the code through its rarer paths (an Aave liquidation, refused calls, a failing backtest), in the caller's process and on reused workers
    fixed(["uni_a", "aave"], 1, ["aave_liq", "proc_reader", "aave_sb"])
    fixed(["uni_a", "aave"], 2, ["aave_liq", "aave_liq", "proc_reader", "proc_reader", "proc_reader"])
    fixed(["uni_a"], 1, ["bad_price", "proc_reader", "raiser", "proc_reader"])
    fixed(["uni_a", "deribit"], 1, ["opt_round", "proc_reader"], args=[0, None])
    fixed(["gmx"], 2, ["glp_round", "proc_reader", "proc_reader"], windows=True)
    fixed(["uni_sq", "squeeth"], 1, ["sq_short", "proc_reader"])
    # a strategy that ends its own backtest with an uncaught exception, first / in the middle / last, in-process and pooled
    fixed(["uni_a"], 1, ["raiser", "add1", "buy"])
    fixed(["uni_a"], 1, ["add1", "raiser", "buy"])
    fixed(["uni_a"], 2, ["raiser", "add1", "buy"])
    fixed(["uni_a"], 2, ["add1", "buy", "raiser", "sell"])
    fixed(["uni_a"], 4, ["raiser", "raiser", "add1", "watcher"])
    fixed(["uni_a"], 2, ["raiser", "add1", "buy"], windows=True)           # … and through the pooled branch that pickles the data per task
    fixed(["uni_a", "uni_b"], 2, ["add1", "raiser", "add_b", "raiser"], windows=True)
    # more strategies than 4 x workers (the size from which Pool.map-style submission puts several tasks into one chunk), one of them failing early
    # in the list: every other strategy still has its solo result, whichever task shared a chunk / a worker with the failing one
    fixed(["uni_a"], 2, ["add1", "idle", "raiser", "buy", "idle", "sell", "add1", "idle", "buy", "idle"])
    fixed(["uni_a"], 2, ["idle", "raiser", "add1", "buy", "raiser", "sell", "idle", "add1", "buy", "sell"], windows=True)
    # Squeeth refers to its oSQTH pool market: both are configured markets
    fixed(["uni_sq", "squeeth"], 1, ["sq_buy", "sq_short", "idle", "mut_data"], price_kind="decimal")
    fixed(["uni_sq", "squeeth"], 2, ["sq_short", "sq_buy", "watcher"])
    fixed(["gmx"], 1, ["glp_buy", "glp_round", "mut_data", "watcher"])
    fixed(["gmx"], 2, ["glp_round", "mut_prices", "glp_buy"], price_kind="decimal")
    # a coarser interval: every backtest resamples its frames and its price frame
    fixed(None, 1, ["add1", "mut_data", "watcher", "indicator"], base=base_spec(rng, ["uni_a"], 40, interval="5min"))
    fixed(None, 2, ["buy", "mut_prices", "idle"], base=base_spec(rng, ["uni_a", "uni_b"], 40, "decimal", interval="5min"))
    bases = [base_spec(rng, MARKET_SETS[k % len(MARKET_SETS)], None if k % len(MARKET_SETS) > 2 else [12, 20, 40][(k // 7) % 3],
                       interval="5min" if k % len(MARKET_SETS) < 2 and (k // 7) % 3 == 2 else None)
             for k in range(ctx.scale(7, 28))]
    for _ in range(ctx.scale(14, 120)):
        n = rng.choice([1, 2, 2, 3, 3, 4])
        base = rng.choice(bases)            # a small pool of configurations: solo runs are shared between cases
        beh = [rng.choice(applicable(base["markets"])) for _ in range(n)]
        orders = [("id", list(range(n)))]
        if n > 1:
            orders.append(("rev", list(range(n - 1, -1, -1))))
        if n > 2 and ctx.thorough:
            orders += [("perm", list(p)) for p in itertools.permutations(range(n))][:24]
        proto = with_args(rng, dict(base, behaviours=beh))
        for threads in ((1, 2, 4) if ctx.thorough else (1, rng.choice([2, 4]))):
            for kind, order in (orders if ctx.thorough else orders[:1] + orders[1:2] * (threads == 1)):
                cases.append(dict(proto, threads=threads, order=order, order_kind=kind, windows=threads > 1 and rng.random() < 0.2))
    return cases


def cow_probe(ctx):
    """the copy-on-write assumption of the theorems, measured on the installed pandas instead of read off its version number"""
    global COW
    try:
        res = measure_cow()
    except Exception as e:  # noqa: BLE001
        ctx.note("pandas_cow_probe", f"failed: {type(e).__name__}: {e}"[:200])
        return
    leaks = sorted(k for k, ok in res.items() if not ok)
    ctx.note("pandas_cow_measured", {"version": _pd.__version__, "isolated_write_kinds": sorted(k for k, ok in res.items() if ok), "leaking": leaks})
    for k in res:
        ctx.case(f"cow-probe:{k}:{'isolated' if res[k] else 'leaks'}")
    if COW and leaks:
        # the unrestricted theorem's hypothesis (cow = true) does not describe this pandas: from here on the model is asked with cow = false
        # (the partial theorem's case), and the leak itself is reported — _own_frame's shallow copy does not isolate these writes
        ctx.violate("manager._own_frame:shallow-copy-leaks:" + "+".join(leaks)[:80],
                    f"pandas {_pd.__version__}: writing into DataFrame.copy(deep=False) by {leaks} changes the shared frame, so a strategy "
                    f"that overwrites values of self.data in place changes what later strategies of the same process see", {"cow_probe": leaks})
        COW = False
    elif not COW and not leaks:
        COW = True


def run(ctx):
    cow_probe(ctx)
    own_frame_probe(ctx)
    from common import driver_json
    from concurrent.futures import ThreadPoolExecutor
    cases = gen_cases(ctx)
    keys = {}
    for c in cases:
        for b, a in zip(c["behaviours"], c["args"]):
            keys.setdefault(solo_key(c, b, a), (c, b, a))
    # every solo run and every manager run is its own OS process: overlap them, then judge in a fixed order
    with ThreadPoolExecutor(max_workers=min(12, os.cpu_count() or 2)) as ex:
        solos = list(ex.map(lambda kv: run_solo(*kv), keys.values()))
        outcomes = list(ex.map(run_case, cases))
        edges = list(ex.map(run_edge, EDGE))
    solo_cache = dict(zip(keys.keys(), solos))
    for k, s in solo_cache.items():
        judge_solo(ctx, k, s)
    model_reqs = []
    for c, o in zip(cases, outcomes):
        judge_case(ctx, c, o, solo_cache, model_reqs)
    ctx.impl_traces = len(cases)
    ctx.note("manager_runs", len(cases))
    ctx.note("solo_runs", len(solo_cache))
    # outcome classes of run() itself (not part of the property; they tie `managerRun`'s dispatch to the code)
    for sc, e in zip(EDGE, edges):
        ctx.case(f"edge:{sc}:{'/'.join(e['outcome']) if e else 'no-result'}", {"edge": sc})
        if e is None:
            ctx.disagree(f"edge scenario {sc}: worker produced no result", {"edge": sc})
        elif ctx.driver_ok:
            runs = []
            for k, _ in enumerate(e["outcome"]):
                req = {"fn": "manager", "threads": e["threads"], "attach": "current", "effects": [[0] * 7] * e["n"], "cpu": e["cpu"],
                       "ctxSet": k > 0, "cfgNone": sc == "no-config", "dataNone": sc == "no-data"}
                runs.append(driver_json([req], exe="driver_metrics")[0]["outcome"])
            if runs != e["outcome"]:
                ctx.disagree(f"edge scenario {sc}: BacktestManager.run() -> {e['outcome']}, model -> {runs}", {"edge": sc})
    if ctx.driver_ok and model_reqs:
        answers = driver_json([r[0] for r in model_reqs], exe="driver_metrics")
        # the same with every task on one worker: where the two predictions differ, the answer depends on the OS's scheduling
        # (impossible with the current code, by C19_pooled_isolated) and only the violation is reported, not a disagreement
        # … and, should the pooled branches fetch their tasks with `.get()`, with none of the tasks after the first failing one finished
        # when it re-raises (the first request: all of them finished)
        one = driver_json([dict(r[0], oneWorker=True, noneFinished=True) for r in model_reqs], exe="driver_metrics")
        for (req, observed, case), a, a1 in zip(model_reqs, answers, one):
            if "error" in a:
                ctx.disagree(f"driver error: {a['error']}", case)
                continue
            if a.get("found") != a1.get("found") or a.get("outcome") != a1.get("outcome"):
                ctx.count("schedule_dependent_predictions")
                continue
            if "found" not in a:
                ctx.disagree(f"manager model predicts that run() raises {a.get('outcome')} before any backtest, the implementation ran "
                             f"{len(observed['results'])} strategies (threads {req['threads']})", case)
                continue
            # which strategies produce a result (model: `managerRunF` with the failure handling read from the source; `raiser` fails)
            has = [bool(x) for x in a["results"]]
            ctx.count("model_result_predictions", len(has))
            if has != observed["results"] or (a["outcome"] == "aborted") != observed["reraised"]:
                ctx.disagree(f"manager model predicts [has a result] = {has} and run() {'re-raises' if a['outcome'] == 'aborted' else 'returns'} for strategies "
                             f"failing = {req['fails']}; the implementation: {observed['results']}, run() {'re-raised' if observed['reraised'] else 'returned'} "
                             f"(threads {req['threads']})", case)
                continue
            predicted = [None if r is None else [int(r[0]) > 0, int(r[1]) > 0, bool(r[2]), int(r[3]) > 0, int(r[4]) > 0, str(Fraction(r[5])), int(r[6]) > 0]
                         for r in a["found"]]
            pred_g = [None if g is None else int(g) > 0 for g in a.get("foundG", [])]
            if "assign" in req or req["threads"] == 1 or len(req["effects"]) == 1:
                ctx.count("model_process_state_predictions", len(pred_g))
                if pred_g != observed["foundG"] and None not in [o for o, r in zip(observed["foundG"], observed["results"]) if r]:
                    ctx.disagree(f"manager model (process state threaded per process, observed assignment {req.get('assign', 'in-process')}, backtests measured to "
                                 f"leave their process changed: {req['gwrites']}) predicts [finds the process state changed] = {pred_g}, the implementation's "
                                 f"backtests: {observed['foundG']} (threads {req['threads']})", case)
            if predicted != observed["found"]:
                ctx.disagree(f"manager model predicts that the strategies find [positions on market 1, on market 2, market references intact, columns added, values overwritten, depth taken, prices overwritten] = {predicted}, "
                             f"the implementation's strategies found {observed['found']} (threads {req['threads']})", case)


def replay(ctx, case) -> bool:
    from common import Ctx
    sub = Ctx(ctx.prop, ctx.tier, ctx.seed, False)
    if "cow_probe" in case:
        res = measure_cow()
        return all(res.get(k, True) for k in case["cow_probe"])
    if "own_frame_probe" in case:
        own_frame_probe(sub)
        for v in sub.violations:
            print("  ", v["key"], v["what"])
        return not sub.violations
    if "args" not in case:
        case = dict(case, args=[None] * len(case["behaviours"]))
    case.setdefault("price_kind", "float")
    case.setdefault("interval", "1min")
    solo_cache = {solo_key(case, b, a): run_solo(case, b, a) for b, a in set(zip(case["behaviours"], case["args"]))}
    for k, s in solo_cache.items():
        judge_solo(sub, k, s)
    if len(case["behaviours"]) > 1 or not sub.violations:
        judge_case(sub, case, run_case(case), solo_cache, [])
    for v in sub.violations:
        print("  ", v["key"], v["what"])
    return not sub.violations


if __name__ == "__main__":
    if len(sys.argv) == 3 and sys.argv[1] == "--worker":
        worker(sys.argv[2])
    elif len(sys.argv) == 3 and sys.argv[1] == "--edge":
        edge_worker(sys.argv[2])
    elif len(sys.argv) == 3 and sys.argv[1] == "--ownframe":
        own_frame_worker(sys.argv[2])
