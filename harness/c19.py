"""C19 — strategies run by BacktestManager do not influence one another (demeter/core/backtest.py).

Oracle: the real BacktestManager runs 1-4 scripted strategies (some mutate market state: add liquidity, buy, sell, remove…)
over a generated configuration (one or two Uniswap-v3 markets, random-walk minute data) with threads in {1, 2, 4} and in
several orders; every strategy dumps its account history, final positions, balances and action log in finalize(); each dump
must equal, exactly, the dump of the same strategy run alone on a fresh configuration.  Every manager run happens in a fresh
subprocess (`multiprocessing.set_start_method` is once-per-process).
Correspondence: the manager model (Demeter.Manager: sequential path threads the configuration's market state — or a copy of it,
as the code does now — through the strategies; pooled tasks get copies) is run on the projection "position-count effect" of the
same scripts and must predict every strategy's final number of positions.
"""
from __future__ import annotations

import hashlib
import itertools
import json
import os
import subprocess
import sys
import tempfile
from decimal import Decimal

PROPERTY = "C19"
LEAN_MODULES = ["Proofs.C19"]
DRIVERS = ["driver_metrics"]
RULE = ("1-4 scripted strategies out of 14 behaviours (idle, add liquidity once/twice, add then remove, buy, sell, rebalance, add on the second "
        "Uniswap market, failing operation, Aave supply, Aave supply+borrow, add an indicator column and trade on it, act on such a column if "
        "present, overwrite the data frame in place) over the market mixes {uni}, {uni, uni}, {uni, aave}, threads in "
        "{1,2,4} (fork; some pooled cases through the Windows branch), identity/reversed orders and all 6 orders of one triple (all orders in the thorough tier), 12-40 bars, plus 6 manager-level "
        "edge scenarios; bucket = (path sequential/pooled, threads, number of strategies, market count, multiset of behaviours, order kind)")
TRUSTED = [
    "process scheduling, fork and pickling are runtime behaviour of CPython/the OS: that part is measured (every pooled case is executed), the "
    "theorems cover the manager's data flow for every assignment of tasks to workers",
    "a strategy (with its Actuator) is modelled as an arbitrary transformer of the market objects and data frames it is handed; copy.deepcopy "
    "and DataFrame.copy(deep=False) under pandas copy-on-write (pandas >= 3, the installed version) are assumed to give independent objects — "
    "the harness checks after every run that the manager's own frames and configured markets are untouched",
    "module-level / class-level state of demeter (logging, decimal context, caches) is outside the model; it is exercised only through the "
    "generated behaviours",
]
ASSUMPTIONS = ["pandas copy-on-write is on (pandas >= 3); for pandas 2 the partial theorem needs strategies that do not overwrite frame values in place",
               "start method fork (Linux); the Windows branch is executed by patching the module's platform name inside the harness's worker process"]

HERE = os.path.dirname(os.path.abspath(__file__))
try:
    import pandas as _pd
    COW = int(_pd.__version__.split(".")[0]) >= 3      # copy-on-write is always on from pandas 3
except Exception:  # noqa: BLE001
    COW = True
BEHAVIOURS = ["idle", "add1", "add2", "addremove", "buy", "sell", "rebalance", "add_b", "failing", "aave_s", "aave_sb", "indicator", "follower", "vandal"]
# effect of a behaviour on the number of open positions on the first market and on the second market (Uniswap positions, or Aave
# supplies when the second market is Aave) and on the number of indicator columns in its data frame: the projection the manager model is run on
POS_EFFECT = {"idle": (0, 0, 0), "add1": (1, 0, 0), "add2": (2, 0, 0), "addremove": (0, 0, 0), "buy": (0, 0, 0), "sell": (0, 0, 0),
              "rebalance": (0, 0, 0), "add_b": (0, 1, 0), "failing": (0, 0, 0), "aave_s": (0, 1, 0), "aave_sb": (0, 1, 0),
              "indicator": (0, 0, 1), "follower": (0, 0, 0), "vandal": (1, 0, 0)}
MARKET_SETS = [["uni_a"], ["uni_a", "uni_b"], ["uni_a", "aave"]]


# ============================================================================================== worker side
def make_data(pool, market, bars, seed):
    import random
    import pandas as pd
    rng = random.Random(seed)
    index = pd.date_range("2023-08-15 00:00:00", periods=bars, freq="min")
    tick = 201000 + rng.randint(-300, 300)      # usdc(6)/eth(18), usdc quote: about 1860 usdc per eth
    rows = []
    for _ in range(bars):
        o = tick
        tick += rng.randint(-25, 25)
        lo, hi = min(o, tick) - rng.randint(0, 5), max(o, tick) + rng.randint(0, 5)
        rows.append(dict(netAmount0=rng.randint(-10 ** 9, 10 ** 9), netAmount1=rng.randint(-10 ** 18, 10 ** 18), closeTick=tick, openTick=o,
                         lowestTick=lo, highestTick=hi, inAmount0=rng.randint(10 ** 8, 10 ** 10), inAmount1=rng.randint(10 ** 17, 10 ** 19),
                         currentLiquidity=Decimal(rng.randint(10 ** 17, 10 ** 19))))
    df = pd.DataFrame(rows, index=index)
    market.add_statistic_column(df)
    return df


def make_aave_data(bars, seed):
    import random
    import pandas as pd
    rng = random.Random(seed)
    index = pd.date_range("2023-08-15 00:00:00", periods=bars, freq="min")
    li, bi, rows = Decimal("1.01"), Decimal("1.03"), []
    for _ in range(bars):
        li += Decimal(rng.randint(1, 30)) / Decimal(10 ** 6)
        bi += Decimal(rng.randint(10, 60)) / Decimal(10 ** 6)
        rows.append(dict(liquidity_rate=Decimal("0.01"), stable_borrow_rate=Decimal("0.05"), variable_borrow_rate=Decimal("0.03"),
                         liquidity_index=li, variable_borrow_index=bi))
    return pd.DataFrame(rows, index=index)


def frame_hash(df):
    h = hashlib.sha1()
    h.update(",".join(map(str, df.columns)).encode())
    h.update(df.to_csv().encode())
    return h.hexdigest()


def dump_state(strategy):
    """what the property compares: account history, final positions, balances, action log"""
    out = {}
    df = strategy.account_status_df
    out["account"] = [[str(ix)] + [str(v) for v in row] for ix, row in zip(df.index, df.itertuples(index=False))]
    out["columns"] = [str(c) for c in df.columns]
    out["positions"] = {}
    for mi, m in strategy.broker.markets.items():
        if hasattr(m, "positions"):
            out["positions"][mi.name] = sorted([str(k), str(v.liquidity), str(v.pending_amount0), str(v.pending_amount1)] for k, v in m.positions.items())
        else:   # Aave: scaled supplies / borrows as held, and what the views report
            out["positions"][mi.name] = sorted([["supply", str(k), str(v)] for k, v in m.supplies.items()])
            out["positions"][mi.name + ".borrows"] = sorted([["borrow", str(k), str(v)] for k, v in m.borrows.items()])
    out["data_columns"] = {mi.name: [str(c) for c in m.data.columns] for mi, m in strategy.broker.markets.items()}
    out["assets"] = sorted([k.name, str(v.balance)] for k, v in strategy.broker.assets.items())
    out["actions"] = [[type(a).__name__, str(getattr(a, "market", "")), str(getattr(a, "timestamp", ""))] for a in strategy.actions]
    out["notes"] = list(strategy.notes)
    return out


def make_strategy_class():
    from demeter import Strategy

    class Scripted(Strategy):
        def __init__(self, sid, behaviour, out_dir, market_names, tokens=None):
            super().__init__()
            self.sid, self.behaviour, self.out_dir, self.market_names = sid, behaviour, out_dir, market_names
            self.tokens = tokens or {}
            self.notes = []

        def _m(self, k):
            for mi, m in self.broker.markets.items():
                if mi.name == self.market_names[min(k, len(self.market_names) - 1)]:
                    return m
            raise KeyError(k)

        def _try(self, what, f):
            try:
                f()
                self.notes.append(what + ":ok")
            except Exception as e:  # noqa: BLE001
                self.notes.append(what + ":" + type(e).__name__)

        def initialize(self):
            if self.behaviour == "indicator":
                # the documented way to attach an indicator: Strategy.add_column writes a column into the market's data frame
                import pandas as pd
                m = self._m(0)
                self.add_column(m, "sig", pd.Series(index=m.data.index, data=[k % 3 for k in range(len(m.data.index))]))

        def on_bar(self, snapshot):
            b, r = self.behaviour, snapshot.row_id

            def add(k, width, frac):
                m = self._m(k)
                t = int(snapshot.market_status[m.market_info].closeTick)
                base = self.broker.get_token_balance(m.base_token) * Decimal(frac)
                quote = self.broker.get_token_balance(m.quote_token) * Decimal(frac)
                m.add_liquidity_by_tick(t - width, t + width, base, quote)
            if b == "indicator" and r in (2, 5):
                sig = snapshot.market_status[self._m(0).market_info].sig
                self._try(f"sig{sig}", lambda: self._m(0).buy(Decimal("0.2")) if sig == 2 else self._m(0).sell(Decimal("0.1")))
            elif b == "vandal" and r == 1:
                # overwrites values of the data frame it was handed, in place (not an API a strategy is meant to use)
                def smash():
                    m = self._m(0)
                    m.data.loc[m.data.index[3]:, "closeTick"] = m.data.loc[m.data.index[3]:, "closeTick"] + 700
                self._try("smash", smash)
            elif b == "vandal" and r == 6:
                self._try("add", lambda: add(0, 600, "0.5"))
            elif b == "follower" and r == 4:
                # acts on an indicator column only if somebody put one there
                row = snapshot.market_status[self._m(0).market_info]
                if "sig" in getattr(row, "index", []):
                    self._try("saw-sig", lambda: self._m(0).buy(Decimal("0.5")))
                else:
                    self.notes.append("no-sig")

            if b == "add1" and r == 1:
                self._try("add", lambda: add(0, 600, "0.5"))
            elif b == "add2" and r in (1, 4):
                self._try("add", lambda: add(0, 300 * r, "0.4"))
            elif b == "addremove":
                if r == 2:
                    self._try("add", lambda: add(0, 1000, "0.8"))
                elif r == 7:
                    self._try("remove", lambda: self._m(0).remove_all_liquidity())
            elif b == "buy" and r in (0, 5):
                self._try("buy", lambda: self._m(0).buy(Decimal("0.7")))
            elif b == "sell" and r in (3, 6):
                self._try("sell", lambda: self._m(0).sell(Decimal("1.3")))
            elif b == "rebalance" and r == 2:
                self._try("rebalance", lambda: self._m(0).even_rebalance())
            elif b == "add_b" and r == 3:
                self._try("add", lambda: add(1, 900, "0.3"))
            elif b == "failing" and r == 1:
                self._try("sell", lambda: self._m(0).sell(Decimal("100000")))
            elif b == "aave_s" and r == 3:
                self._try("supply", lambda: self._m(1).supply(self.tokens["usdc"], Decimal("2000"), True))
            elif b == "aave_sb":
                if r == 1:
                    self._try("supply", lambda: self._m(1).supply(self.tokens["weth"], Decimal("3"), True))
                elif r == 2:
                    self._try("borrow", lambda: self._m(1).borrow(self.tokens["usdc"], Decimal("800")))

        def finalize(self):
            with open(os.path.join(self.out_dir, self.sid + ".json"), "w") as f:
                json.dump(dump_state(self), f)
    return Scripted


Scripted = None


def worker(spec_path):
    """build configuration + data + strategies from the spec, run the real BacktestManager once"""
    global Scripted
    import logging
    logging.disable(logging.CRITICAL)
    spec = json.load(open(spec_path))
    sys.path.insert(0, os.environ.get("DEMETER_REPO", "/repo"))
    from demeter import TokenInfo, MarketInfo, BacktestManager, BacktestConfig, BacktestData, StrategyConfig
    from demeter.uniswap import UniLpMarket, UniV3Pool
    from demeter.uniswap.helper import get_price_from_data
    Scripted = make_strategy_class()
    Scripted.__qualname__ = "Scripted"
    usdc, eth, weth = TokenInfo(name="usdc", decimal=6), TokenInfo(name="eth", decimal=18), TokenInfo(name="weth", decimal=18)
    pool = UniV3Pool(usdc, eth, 0.05, usdc)
    markets, frames = [], {}
    assets = {usdc: Decimal(spec["usdc"]), eth: Decimal(spec["eth"])}
    for k, name in enumerate(spec["markets"]):
        if name == "aave":
            from demeter import MarketTypeEnum
            from demeter.aave import AaveV3Market
            m = AaveV3Market(market_info=MarketInfo(name, MarketTypeEnum.aave_v3), tokens=[weth, usdc],
                             risk_parameters_path=os.path.join(os.environ.get("DEMETER_REPO", "/repo"), "tests", "aave_risk_parameters", "demo.csv"))
            for j, t in enumerate((weth, usdc)):
                m.set_token_data(t, make_aave_data(spec["bars"], spec["data_seed"] + j))
            frames[m.market_info] = m.data
            assets[weth] = Decimal("5")
        else:
            m = UniLpMarket(MarketInfo(name), pool)
            frames[m.market_info] = make_data(pool, m, spec["bars"], spec["data_seed"])   # same price path on every market: one price table
        markets.append(m)
    price = get_price_from_data(frames[markets[0].market_info], pool)
    if weth in assets:
        price[0][weth.name] = price[0][eth.name]
    config = StrategyConfig(assets=assets, markets=markets)
    data = BacktestData(frames, price)
    before = {mi.name: frame_hash(df) for mi, df in frames.items()}
    before["price"] = frame_hash(price[0])
    strategies = [Scripted(s["sid"], s["behaviour"], spec["out"], spec["markets"], {"usdc": usdc, "weth": weth}) for s in spec["strategies"]]
    if spec.get("windows"):
        # exercise the branch that passes `data` as a task argument (no hook in /repo: the module's `platform` name is patched here)
        import types
        import demeter.core.backtest as bt
        bt.platform = types.SimpleNamespace(system=lambda: "Windows")
    mgr = BacktestManager(config=config, data=data, strategies=strategies, backtest_config=BacktestConfig(), threads=spec["threads"])
    mgr.run()
    after = {mi.name: frame_hash(df) for mi, df in frames.items()}
    after["price"] = frame_hash(price[0])
    leftover = {m.market_info.name: len(m.positions) if hasattr(m, "positions") else len(m.supplies) for m in config.markets}
    with open(os.path.join(spec["out"], "_manager.json"), "w") as f:
        json.dump({"data_intact": before == after, "config_positions_after": leftover}, f)


def edge_worker(spec_path):
    """manager-level outcomes that are not about isolation: which exception class `run()` raises / that it returns"""
    global Scripted
    import logging
    import multiprocessing
    logging.disable(logging.CRITICAL)
    spec = json.load(open(spec_path))
    sys.path.insert(0, os.environ.get("DEMETER_REPO", "/repo"))
    from demeter import TokenInfo, MarketInfo, BacktestManager, BacktestConfig, BacktestData, StrategyConfig
    from demeter.uniswap import UniLpMarket, UniV3Pool
    from demeter.uniswap.helper import get_price_from_data
    Scripted = make_strategy_class()
    Scripted.__qualname__ = "Scripted"
    usdc, eth = TokenInfo(name="usdc", decimal=6), TokenInfo(name="eth", decimal=18)
    pool = UniV3Pool(usdc, eth, 0.05, usdc)
    m = UniLpMarket(MarketInfo("uni_a"), pool)
    df = make_data(pool, m, 6, 1)
    config = StrategyConfig(assets={usdc: Decimal(1000), eth: Decimal(1)}, markets=[m])
    data = BacktestData({m.market_info: df}, get_price_from_data(df, pool))
    sc = spec["scenario"]
    n = 0 if sc == "no-strategies" else 2
    strategies = [Scripted(f"e{i}", "idle", spec["out"], ["uni_a"]) for i in range(n)]
    threads = {"too-many-threads": multiprocessing.cpu_count() + 1, "zero-threads": 0, "second-pooled-run": 2}.get(sc, 1)
    mgr = BacktestManager(config=None if sc == "no-config" else config, data=None if sc == "no-data" else data, strategies=strategies,
                          backtest_config=BacktestConfig(), threads=threads)
    outcome = []
    for _ in range(2 if sc == "second-pooled-run" else 1):
        try:
            mgr.run()
            outcome.append("ok")
        except Exception as e:  # noqa: BLE001
            outcome.append(type(e).__name__)
    with open(os.path.join(spec["out"], "_edge.json"), "w") as f:
        json.dump({"outcome": outcome, "cpu": multiprocessing.cpu_count(), "threads": threads, "n": n}, f)


EDGE = ["no-config", "no-data", "no-strategies", "too-many-threads", "zero-threads", "second-pooled-run"]


def run_edge(scenario):
    work = os.path.join(os.path.dirname(HERE), ".work")
    with tempfile.TemporaryDirectory(prefix="c19e_", dir=work if os.path.isdir(work) else None) as d:
        sp = os.path.join(d, "_spec.json")
        json.dump({"scenario": scenario, "out": d}, open(sp, "w"))
        subprocess.run([sys.executable, os.path.abspath(__file__), "--edge", sp], stdout=subprocess.PIPE, stderr=subprocess.PIPE, timeout=300)
        ep = os.path.join(d, "_edge.json")
        return json.load(open(ep)) if os.path.exists(ep) else None


# ============================================================================================== harness side
def run_manager(spec, timeout=300):
    """one real BacktestManager.run() in a fresh interpreter; returns {sid: dump} and the manager-level record"""
    with tempfile.TemporaryDirectory(prefix="c19_", dir=os.path.join(os.path.dirname(HERE), ".work") if os.path.isdir(os.path.join(os.path.dirname(HERE), ".work")) else None) as d:
        spec = dict(spec, out=d)
        sp = os.path.join(d, "_spec.json")
        json.dump(spec, open(sp, "w"))
        env = dict(os.environ)
        p = subprocess.run([sys.executable, os.path.abspath(__file__), "--worker", sp], stdout=subprocess.PIPE, stderr=subprocess.PIPE, timeout=timeout, env=env)
        res = {}
        for s in spec["strategies"]:
            fp = os.path.join(d, s["sid"] + ".json")
            res[s["sid"]] = json.load(open(fp)) if os.path.exists(fp) else None
        mp = os.path.join(d, "_manager.json")
        mgr = json.load(open(mp)) if os.path.exists(mp) else None
        return res, mgr, p.returncode, p.stderr.decode(errors="replace")[-1500:]


def diff_dump(a, b):
    if a is None or b is None:
        return "no result file (the run did not reach finalize())"
    for k in ("notes", "positions", "assets", "actions", "columns", "data_columns"):
        if a[k] != b[k]:
            return f"{k}: {json.dumps(a[k])[:200]} vs alone {json.dumps(b[k])[:200]}"
    if len(a["account"]) != len(b["account"]):
        return f"account history length {len(a['account'])} vs alone {len(b['account'])}"
    for i, (x, y) in enumerate(zip(a["account"], b["account"])):
        if x != y:
            j = next(t for t in range(len(x)) if x[t] != y[t])
            return f"account history row {i} ({x[0]}) column {a['columns'][j - 1] if j else 'index'}: {x[j]} vs alone {y[j]}"
    return None


def base_spec(rng, markets, bars):
    return {"markets": list(markets), "bars": bars, "data_seed": rng.randint(0, 10 ** 6), "usdc": "10000", "eth": "10"}


def fit(behaviours, markets):
    """replace behaviours that need a market the configuration does not have"""
    out = []
    for b in behaviours:
        if b == "add_b" and "uni_b" not in markets:
            b = "aave_s" if "aave" in markets else "add1"
        if b in ("aave_s", "aave_sb") and "aave" not in markets:
            b = "add_b" if "uni_b" in markets else "add2"
        out.append(b)
    return out


def solo_key(case, behaviour):
    return json.dumps([{k: case[k] for k in ("markets", "bars", "data_seed", "usdc", "eth")}, behaviour], sort_keys=True)


def run_solo(case, behaviour):
    spec = {k: case[k] for k in ("markets", "bars", "data_seed", "usdc", "eth")}
    solo, _, _, _ = run_manager(dict(spec, threads=1, strategies=[{"sid": "solo", "behaviour": behaviour}]))
    return solo["solo"]


def run_case(case):
    """the manager run of one case: {markets, bars, data_seed, usdc, eth, threads, behaviours: [...], order}"""
    strategies = [{"sid": f"s{i}", "behaviour": b} for i, b in enumerate(case["behaviours"])]
    ordered = [strategies[i] for i in case["order"]]
    spec = {k: case[k] for k in ("markets", "bars", "data_seed", "usdc", "eth")}
    return run_manager(dict(spec, threads=case["threads"], strategies=ordered, windows=bool(case.get("windows"))))


def judge_case(ctx, case, outcome, solo_cache, model_reqs):
    strategies = [{"sid": f"s{i}", "behaviour": b} for i, b in enumerate(case["behaviours"])]
    ordered = [strategies[i] for i in case["order"]]
    res, mgr, rc, err = outcome
    path = "sequential" if len(ordered) == 1 or case["threads"] == 1 else ("pooled-args" if case.get("windows") else "pooled")
    ok = True
    if rc != 0 or mgr is None:
        ctx.violate(f"manager.{path}.crash", f"BacktestManager.run() failed (exit {rc}) with threads={case['threads']}, strategies {case['behaviours']}: {err[-300:]}", case)
        ok = False
    elif not mgr["data_intact"]:
        ctx.violate(f"manager.{path}.data-modified", f"a run modified the manager's BacktestData frames (strategies {case['behaviours']})", case)
        ok = False
    elif any(mgr["config_positions_after"].values()):
        ctx.violate(f"manager.{path}.config-modified", f"the configured market objects hold positions after run(): {mgr['config_positions_after']}", case)
        ok = False
    for s in strategies:
        d = diff_dump(res.get(s["sid"]), solo_cache[solo_key(case, s["behaviour"])])
        if d is not None:
            pos = [x["sid"] for x in ordered].index(s["sid"])
            before = [x["behaviour"] for x in ordered[:pos]]
            ctx.violate(f"manager.{path}.interference",
                        f"threads={case['threads']}: strategy '{s['behaviour']}' run after {before} differs from running it alone — {d}", case)
            ok = False
    kinds = "+".join(sorted(case["behaviours"]))
    ctx.case(f"{path}:t{case['threads']}:n{len(strategies)}:m{len(case['markets'])}:{kinds}:{case.get('order_kind', 'id')}:{'ok' if ok else 'bad'}", case)
    # the manager model on the position-count projection
    if all(res.get(s["sid"]) is not None for s in strategies):
        second = case["markets"][1] if len(case["markets"]) > 1 else "uni_b"
        observed = [[len(res[s["sid"]]["positions"].get(m, [])) for m in ("uni_a", second)] + [res[s["sid"]]["data_columns"]["uni_a"].count("sig")]
                    for s in ordered]
        model_reqs.append(({"fn": "manager", "threads": case["threads"], "attach": "current", "cow": COW, "windows": bool(case.get("windows")),
                            "effects": [list(POS_EFFECT[s["behaviour"]]) for s in ordered]}, observed, case))


def gen_cases(ctx):
    rng = ctx.rng
    cases = []
    # fixed: the witness of DESIGN §1.8 (an idle strategy after one that adds liquidity), every thread count
    for threads in (1, 2, 4):
        cases.append(dict(base_spec(rng, MARKET_SETS[0], 12), threads=threads, behaviours=["add1", "idle"], order=[0, 1], order_kind="id"))
    cases.append(dict(base_spec(rng, MARKET_SETS[1], 12), threads=1, behaviours=["add_b", "add1", "idle"], order=[0, 1, 2], order_kind="id"))
    cases.append(dict(base_spec(rng, MARKET_SETS[2], 12), threads=1, behaviours=["aave_sb", "idle", "aave_s"], order=[0, 1, 2], order_kind="id"))
    # a strategy that adds an indicator column, followed by one that would act on such a column: the data frames are shared too
    for threads in (1, 2):
        cases.append(dict(base_spec(rng, MARKET_SETS[0], 12), threads=threads, behaviours=["indicator", "follower", "follower"], order=[0, 1, 2], order_kind="id"))
    # a strategy that overwrites values of its data frame in place, followed by strategies whose result depends on those values
    for threads in (1, 2):
        cases.append(dict(base_spec(rng, MARKET_SETS[0], 12), threads=threads, behaviours=["vandal", "add1", "indicator", "add2"], order=[0, 1, 2, 3], order_kind="id"))
    # the branch taken on Windows: `data` travels as a task argument
    cases.append(dict(base_spec(rng, MARKET_SETS[1], 12), threads=2, windows=True, behaviours=["add1", "indicator", "follower", "add_b"], order=[0, 1, 2, 3], order_kind="id"))
    # all orders of one three-strategy set, sequential and pooled
    base = base_spec(rng, MARKET_SETS[2], 12)
    for threads in (1, 2):
        for p in itertools.permutations(range(3)):
            cases.append(dict(base, threads=threads, behaviours=["add1", "aave_sb", "idle"], order=list(p), order_kind="perm"))
    bases = [base_spec(rng, MARKET_SETS[k % 3], [12, 20, 40][(k // 3) % 3]) for k in range(ctx.scale(5, 18))]
    for _ in range(ctx.scale(12, 100)):
        n = rng.choice([1, 2, 2, 3, 3, 4])
        base = rng.choice(bases)            # a small pool of configurations: solo runs are shared between cases
        beh = fit([rng.choice(BEHAVIOURS) for _ in range(n)], base["markets"])
        orders = [("id", list(range(n)))]
        if n > 1:
            orders.append(("rev", list(range(n - 1, -1, -1))))
        if n > 2 and ctx.thorough:
            orders += [("perm", list(p)) for p in itertools.permutations(range(n))][:24]
        for threads in ((1, 2, 4) if ctx.thorough else (1, rng.choice([2, 4]))):
            for kind, order in (orders if ctx.thorough else orders[:1] + orders[1:2] * (threads == 1)):
                cases.append(dict(base, threads=threads, behaviours=beh, order=order, order_kind=kind, windows=threads > 1 and rng.random() < 0.2))
    return cases


def run(ctx):
    from common import driver_json
    from concurrent.futures import ThreadPoolExecutor
    cases = gen_cases(ctx)
    keys = {}
    for c in cases:
        for b in c["behaviours"]:
            keys.setdefault(solo_key(c, b), (c, b))
    # every solo run and every manager run is its own OS process: overlap them, then judge in a fixed order
    with ThreadPoolExecutor(max_workers=min(12, os.cpu_count() or 2)) as ex:
        solos = list(ex.map(lambda kv: run_solo(*kv), keys.values()))
        outcomes = list(ex.map(run_case, cases))
        edges = list(ex.map(run_edge, EDGE))
    solo_cache = dict(zip(keys.keys(), solos))
    model_reqs = []
    for c, o in zip(cases, outcomes):
        judge_case(ctx, c, o, solo_cache, model_reqs)
    ctx.impl_traces = len(cases)
    ctx.note("manager_runs", len(cases))
    ctx.note("solo_runs", len(solo_cache))
    # outcome classes of run() itself (not part of the property; they tie `managerRun`'s dispatch to the code)
    for sc, e in zip(EDGE, edges):
        ctx.case(f"edge:{sc}:{'/'.join(e['outcome']) if e else 'no-result'}", {"edge": sc})
        if e is None:
            ctx.disagree(f"edge scenario {sc}: worker produced no result", {"edge": sc})
        elif ctx.driver_ok:
            runs = []
            for k, _ in enumerate(e["outcome"]):
                req = {"fn": "manager", "threads": e["threads"], "attach": "current", "effects": [[0, 0, 0]] * e["n"], "cpu": e["cpu"],
                       "ctxSet": k > 0, "cfgNone": sc == "no-config", "dataNone": sc == "no-data"}
                runs.append(driver_json([req], exe="driver_metrics")[0]["outcome"])
            if runs != e["outcome"]:
                ctx.disagree(f"edge scenario {sc}: BacktestManager.run() -> {e['outcome']}, model -> {runs}", {"edge": sc})
    if ctx.driver_ok and model_reqs:
        answers = driver_json([r[0] for r in model_reqs], exe="driver_metrics")
        for (req, observed, case), a in zip(model_reqs, answers):
            if "error" in a:
                ctx.disagree(f"driver error: {a['error']}", case)
            elif [[int(x) for x in row] for row in a["positions"]] != observed:
                ctx.disagree(f"manager model predicts final position counts {a['positions']}, implementation has {observed} (threads {req['threads']})", case)


def replay(ctx, case) -> bool:
    from common import Ctx
    sub = Ctx(ctx.prop, ctx.tier, ctx.seed, False)
    solo_cache = {solo_key(case, b): run_solo(case, b) for b in set(case["behaviours"])}
    judge_case(sub, case, run_case(case), solo_cache, [])
    for v in sub.violations:
        print("  ", v["key"], v["what"])
    return not sub.violations


if __name__ == "__main__":
    if len(sys.argv) == 3 and sys.argv[1] == "--worker":
        worker(sys.argv[2])
    elif len(sys.argv) == 3 and sys.argv[1] == "--edge":
        edge_worker(sys.argv[2])
