"""C01 (whole-run part) — the account history a real Actuator.run writes: the row of every bar equals the wallet as the bar left it valued at
THAT bar's prices plus every market's value once (converted with that bar's price of the market's quote token), for price tables that are
not aligned row for row with the bars (they start earlier, end later, carry minutes the markets have no row for, or are resampled)."""
from __future__ import annotations

import traceback
from decimal import Decimal
from fractions import Fraction

import pandas as pd

from common import Ctx
import core_lib as cl

PROPERTY = "C01"
LEAN_MODULES = ["Proofs.C01.Broker", "Proofs.C01.Run", "Proofs.C01.SqueethValue", "Proofs.C01.SqueethDict", "Proofs.C01.UniSqueethValue", "Proofs.C01.EndToEnd", "Proofs.C01.EndToEndUni"]
DRIVERS = ["driver_core"]
RULE = ("[run] real Actuator.run over 1-2 in-memory markets (minutely with or without missing minutes, hourly; the second one quoted in a "
        "token other than the account's quote token) whose value accrues with the data of every bar, a wallet of three tokens, a strategy that "
        "moves amounts between wallet and markets from its hooks, bar interval 1/5/15/60 min, and a price table with a different price in every "
        "minute that starts 0-7 minutes before / ends 0-7 minutes after the market data (and so is never aligned with the bars by position when "
        "it starts early, when minutes are missing or when the run is resampled). After the run every row of the account history is compared "
        "with an exact valuation of the raw wallet balances and market values recorded in after_bar at the price row of the bar's own timestamp "
        "(first minute of the bar when resampled). Bucket = (interval, price table offset class, missing minutes, markets, operations made).")
TRUSTED = ["[run] the valuation reads the wallet (Asset.balance) and the markets' raw value field in after_bar; nothing happens between after_bar and the "
           "account row of the bar (C05_phase_order)"]
ASSUMPTIONS = ["[run] the price table covers the market data (otherwise _check_backtest refuses the run) and has a quote for every token in every minute"]
TOL = Fraction(1, 10 ** 28)
INTERVALS = ((1, "1min"), (1, "1min"), (5, "5min"), (15, "15min"), (60, "1h"))


def gen_case(rng):
    interval, istr = rng.choice(INTERVALS)
    nbars = rng.randint(2, 24 if interval < 60 else 4)
    start = 60 * rng.randint(0, 1300)
    if interval > 1 and rng.random() < 0.6:
        start -= start % (60 * interval)                 # mostly on the bar grid, sometimes not
    n_raw = interval * nbars - (rng.randint(0, interval - 1) if interval > 1 else 0)
    base = [start + 60 * i for i in range(max(2, n_raw))]
    gaps = interval == 1 and rng.random() < 0.4
    t0 = [t for i, t in enumerate(base) if i == 0 or i == len(base) - 1 or rng.random() < 0.8] if gaps else list(base)
    markets = [{"times": t0, "quote": "usdc", "v": [rng.randint(0, 999) for _ in t0]}]
    if rng.random() < 0.5:
        hrs = [t for t in range(start - start % 3600, base[-1] + 1, 3600) if base[0] <= t]
        if hrs:
            markets.append({"times": hrs, "quote": rng.choice(("eth", "eth", "usdc")), "v": [rng.randint(0, 999) for _ in hrs]})
    before, after = rng.choice((0, 0, 1, 3, 7)), rng.choice((0, 0, 2, 7))
    ptimes = list(range(base[0] - 60 * before, base[-1] + 60 * after + 1, 60))
    prices = {"USDC": [Decimal(1000 + rng.randint(-50, 50)) / 1000 for _ in ptimes],
              "ETH": [Decimal(1800 + rng.randint(-200, 200)) for _ in ptimes],
              "BTC": [Decimal(30000 + rng.randint(-3000, 3000)) for _ in ptimes]}
    ops = []
    dens = rng.choice((0.0, 0.2, 0.6))
    for r in range(nbars + 2):
        for hook in ("before", "on", "after"):
            if rng.random() < dens:
                ops.append([r, hook, rng.randrange(len(markets)), rng.choice(("deposit", "withdraw", "swap")), rng.randint(1, 500)])
    return {"interval": interval, "istr": istr, "markets": markets, "ptimes": ptimes, "prices": {k: [str(v) for v in vs] for k, vs in prices.items()},
            "ops": ops, "before": before, "after": after, "gaps": gaps}


def run_impl(case):
    cl.setup()
    from demeter import Strategy, TokenInfo
    from demeter import Actuator, MarketInfo
    rec = cl.Recorder()
    PM = cl.make_market_class()
    a = Actuator()
    rec.actuator = a
    usdc, eth, btc = TokenInfo("usdc", 6), TokenInfo("eth", 18), TokenInfo("btc", 8)
    toks = {"usdc": usdc, "eth": eth, "btc": btc}
    ms = []
    for i, mc in enumerate(case["markets"]):
        df = cl.frame(mc["times"])
        df["v"] = mc["v"]
        m = PM(MarketInfo(f"m{i}"), df, rec, i)
        m.accrue = True
        m.quote_token = toks[mc["quote"]]
        a.broker.add_market(m)
        ms.append(m)
    a.broker.set_balance(usdc, 100000)
    a.broker.set_balance(eth, 10)
    a.broker.set_balance(btc, 1)
    pf = pd.DataFrame({k: [Decimal(x) for x in v] for k, v in case["prices"].items()}, index=pd.DatetimeIndex([cl.at(t) for t in case["ptimes"]]))
    a.set_price(pf, usdc)
    a.interval = case["istr"]
    by = {}
    for r, hook, m, kind, k in case["ops"]:
        by.setdefault((r, hook), []).append((m, kind, k))
    seen, made = [], []

    def act(row, hook):
        for m, kind, k in by.get((row, hook), []):
            try:
                if kind == "deposit":
                    a.broker.subtract_from_balance(usdc, Decimal(k))
                    ms[m].op(f"d{row}", True, Decimal(k))
                elif kind == "withdraw":
                    ms[m].op(f"w{row}", True, -Decimal(k))
                    a.broker.add_to_balance(usdc, Decimal(k))
                else:
                    a.broker.subtract_from_balance(usdc, Decimal(k))
                    a.broker.add_to_balance(eth, Decimal(k) / 2000)
                made.append(kind)
            except Exception:  # noqa: BLE001   (closed market, short balance: refused, nothing moved except what the code itself moved)
                made.append("refused")

    class S(Strategy):
        def initialize(self):
            rec.initialized = True

        def before_bar(self, snap):
            act(snap.row_id, "before")

        def on_bar(self, snap):
            act(snap.row_id, "on")

        def after_bar(self, snap):
            act(snap.row_id, "after")
            seen.append({"ts": cl.sec(snap.timestamp), "wallet": {t.name: Decimal(x.balance) for t, x in a.broker.assets.items()},
                         "nets": [Decimal(m.net) for m in ms]})
    a.strategy = S()
    err = None
    try:
        a.run(False)
    except Exception as e:  # noqa: BLE001
        err = type(e).__name__ + ": " + str(e)[:120] + " @ " + traceback.format_exc().strip().split("\n")[-3][:120]
    rows = [{"ts": cl.sec(s.timestamp), "net": s.net_value} for s in a._account_status_list]
    df = a._account_status_df
    dfnet = None
    if df is not None and len(df):
        col = [c for c in df.columns if (c if isinstance(c, str) else c[-1]) == "net_value" and (isinstance(c, str) or c[0] in ("", "net_value", "account"))]
        if col:
            dfnet = [df[col[0]].iloc[i] for i in range(len(df))]
    return {"err": err, "seen": seen, "rows": rows, "dfnet": dfnet, "made": made}


def price_at(case, ts):
    """the price row of the bar stamped ts: the table's own row at ts, or (resampled run) its first row inside [ts, ts + interval)"""
    step = 60 * case["interval"]
    for i, t in enumerate(case["ptimes"]):
        if (case["istr"] == "1min" and t == ts) or (case["istr"] != "1min" and ts <= t < ts + step):
            return {k: Fraction(Decimal(v[i])) for k, v in case["prices"].items()}
    return None


def check_case(ctx: Ctx, case):
    obs = run_impl(case)
    rep = {"part": "c01_run", "case": case}
    off = ("early" if case["before"] else "aligned") + ("+late" if case["after"] else "")
    did = "+".join(sorted(set(obs["made"]))) or "noops"
    ctx.case(f"run:i{case['interval']}:{off}:{'gaps' if case['gaps'] else 'full'}:m{len(case['markets'])}"
             f"{'x' if any(m['quote'] != 'usdc' for m in case['markets']) else ''}:{did}:{'err' if obs['err'] else 'ok'}")
    if obs["err"]:
        ctx.violate("run.raises:" + obs["err"].split(":")[0], f"Actuator.run raised {obs['err']}", rep)
        return
    if [r["ts"] for r in obs["rows"]] != [s["ts"] for s in obs["seen"]]:
        ctx.violate("run.rows-not-per-bar", f"account rows at {[r['ts'] for r in obs['rows']][:5]}… but bars (after_bar calls) at {[s['ts'] for s in obs['seen']][:5]}…", rep)
        return
    for i, (r, s) in enumerate(zip(obs["rows"], obs["seen"])):
        p = price_at(case, s["ts"])
        if p is None:
            ctx.violate("run.no-price-row", f"bar {i} at {s['ts']} has no row in the price table", rep)
            return
        wallet = sum(Fraction(b) * p[t.upper()] for t, b in s["wallet"].items())
        mk = sum(Fraction(n) * (1 if mc["quote"] == "usdc" else p[mc["quote"].upper()]) for n, mc in zip(s["nets"], case["markets"]))
        want = wallet + mk
        got = Fraction(r["net"])
        ctx.dev(got, want)
        if abs(got - want) > TOL * max(abs(want), 1):
            # which other row of the table the reported value would fit (a positional instead of a by-timestamp lookup shows as a constant shift)
            fit = None
            for j, t in enumerate(case["ptimes"]):
                q = {k: Fraction(Decimal(v[j])) for k, v in case["prices"].items()}
                alt = sum(Fraction(b) * q[tk.upper()] for tk, b in s["wallet"].items()) + \
                    sum(Fraction(n) * (1 if mc["quote"] == "usdc" else q[mc["quote"].upper()]) for n, mc in zip(s["nets"], case["markets"]))
                if abs(got - alt) <= TOL * max(abs(alt), 1):
                    fit = t
                    break
            ctx.violate("run.account-row.net_value",
                        f"bar {i} (t={s['ts']}, interval {case['istr']}, price table starts {case['before']} min before the data): the account history reports "
                        f"{r['net']}, wallet at the bar's prices + markets = {float(want):.12g}"
                        + (f"; the reported value is the valuation at the price row of t={fit} ({(fit - s['ts']) // 60:+d} min)" if fit is not None else ""), rep)
            return
        if obs["dfnet"] is not None and i < len(obs["dfnet"]) and Fraction(Decimal(obs["dfnet"][i])) != got:
            ctx.violate("run.account_status_df.net_value", f"bar {i}: account_status_df net_value {obs['dfnet'][i]} differs from the bar's AccountStatus {r['net']}", rep)
            return


def run(ctx: Ctx):
    rng = ctx.rng
    for _ in range(ctx.scale(200, 3000)):
        check_case(ctx, gen_case(rng))


def replay(ctx: Ctx, case) -> bool:
    n = len(ctx.violations)
    check_case(ctx, case["case"])
    return len(ctx.violations) == n
