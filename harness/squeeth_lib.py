"""Shared plumbing of the Squeeth harness parts (c14.py, c04_squeeth.py, c03_squeeth.py, c01_squeeth.py).

A *world* is a real Broker + UniLpMarket (oSQTH/WETH pool, token0 = WETH = quote) + SqueethMarket built from a
plain spec (state S, environment E).  `dump_state` writes S back in the driver's JSON shape, `apply_op` runs one
operation of the real code (catching the exception class), `model_req` builds the request for driver_squeeth and
`compare` diffs the model's answer with what the implementation did.  Every number is a Decimal on the
implementation side and an exact Fraction in the oracles.
"""
from __future__ import annotations

import copy
from datetime import datetime, timedelta
from decimal import Decimal as D
from fractions import Fraction as F

import pandas as pd

BASE = datetime(2024, 1, 1)
_captured = {}          # tuple(prices as str) -> Decimal   (what the real calc_twap_price answered)
_patched = False


def _patch_twap():
    """wrap demeter.squeeth.market.calc_twap_price (from the harness, nothing is edited in /repo) to record which
    prices the code selected and what the float geometric mean came out as: that value is the model's oracle"""
    global _patched
    if _patched:
        return
    import demeter.squeeth.market as sm
    real = sm.calc_twap_price

    def wrapper(prices):
        r = real(prices)
        _captured[tuple(str(x) for x in prices)] = r
        return r
    sm.calc_twap_price = wrapper
    _patched = True


def imports():
    from demeter import MarketStatus, TokenInfo, Broker, MarketInfo, MarketTypeEnum, DemeterError
    from demeter.squeeth import VaultKey, Vault
    from demeter.squeeth.market import SqueethMarket
    from demeter.uniswap import UniLpMarket, UniV3Pool, UniswapMarketStatus, PositionInfo
    from demeter.uniswap._typing import Position
    return locals()


class World:
    """spec: {"wallet": [[name, Decimal]…], "vaults": [[id, {"coll","short","nft"}]…], "maxId", "positions":
    [[[lo,hi], {"liquidity","p0","p1","transferred"}]…]};
    env: {"rows": [[t, nf, weth, osqth]…], "now": int|None, "cur": [nf, weth, osqth] (used when now is None),
          "uniPrice": Decimal, "uniOpen": bool, "fee": pool fee in percent (optional, default 0.3), "flip": bool (optional; True = the pool is UniV3Pool(osqth, weth, …): token0 is oSQTH,
          ticks are those of WETH-per-oSQTH, i.e. negative around 0.1 — the model knows the mainnet orientation only, flipped worlds
          are judged by the independent oracles)}"""

    def __init__(self, spec, env):
        _patch_twap()
        m = imports()
        self.m = m
        TokenInfo = m["TokenInfo"]
        self.weth, self.osqth = TokenInfo("weth", 18), TokenInfo("osqth", 18)
        self.broker = m["Broker"]()
        self.uni_key = m["MarketInfo"]("Uni", m["MarketTypeEnum"].uniswap_v3)
        self.sq_key = m["MarketInfo"]("Squeeth", m["MarketTypeEnum"].squeeth)
        self.flip = bool(env.get("flip", False))
        fee = float(env.get("fee", 0.3))
        pool = m["UniV3Pool"](self.osqth, self.weth, fee, self.weth) if self.flip else m["UniV3Pool"](self.weth, self.osqth, fee, self.weth)
        self.uni = m["UniLpMarket"](self.uni_key, pool)
        self.sq = m["SqueethMarket"](self.sq_key, self.uni)
        self.broker.add_market(self.uni)
        self.broker.add_market(self.sq)
        self.log = []
        self.uni._record_action_callback = self.log.append
        self.sq._record_action_callback = self.log.append
        self.tokens = {"WETH": self.weth, "OSQTH": self.osqth}
        self.set_env(env)
        self.load_state(spec)

    # ---------------------------------------------------------------- environment
    def set_env(self, env):
        m = self.m
        self.env = env
        rows = env["rows"]
        if rows:
            idx = [BASE + timedelta(minutes=r[0]) for r in rows]
            self.sq.data = pd.DataFrame(index=pd.DatetimeIndex(idx),
                                        data={"norm_factor": [r[1] for r in rows], "WETH": [r[2] for r in rows],
                                              "OSQTH": [r[3] for r in rows]})
        tick = 0
        self.uni.set_market_status(m["UniswapMarketStatus"](timestamp=None, data=pd.Series(
            data=[0, 0, 0, tick, env["uniPrice"]], index=["inAmount0", "inAmount1", "currentLiquidity", "closeTick", "price"])), price=None)
        self.uni.is_open = bool(env["uniOpen"])
        if env["now"] is None:
            cur = env["cur"]
            self.sq.set_market_status(m["MarketStatus"](timestamp=None, data=pd.Series(data=list(cur), index=["norm_factor", "WETH", "OSQTH"])), price=None)
        else:
            self.sq.set_market_status(m["MarketStatus"](timestamp=BASE + timedelta(minutes=env["now"])), price=None)

    def cur(self):
        d = self.sq._market_status.data
        return d["norm_factor"], d["WETH"], d["OSQTH"]

    def env_json(self):
        """environment for the model, with the oracle table: both TWAPs of the current bar are asked from the
        real get_twap_price first, so whatever window the code selects is in the table"""
        e = self.env
        if e["now"] is not None:
            self.sq.get_twap_price(self.weth)
            self.sq.get_twap_price(self.osqth)
        nf, w, o = self.cur()
        return {"nf": nf, "weth": w, "osqth": o, "now": e["now"], "rows": [[r[0], r[2], r[3]] for r in e["rows"]],
                "uniPrice": e["uniPrice"], "uniOpen": bool(e["uniOpen"]), "uniFee": self.uni.pool_info.fee_rate,
                "oracle": [[list(k), v] for k, v in _captured.items()] if e["now"] is not None else []}

    # ---------------------------------------------------------------- state
    def load_state(self, spec):
        m = self.m
        for name, bal in spec["wallet"]:
            self.broker.set_balance(self.tokens[name], D(bal))
        self.uni._positions.clear()
        for (lo, hi), p in spec["positions"]:
            lo, hi = int(lo), int(hi)
            self.uni._positions[m["PositionInfo"](lo, hi)] = m["Position"](
                D(p["p0"]), D(p["p1"]), int(p["liquidity"]), self.uni.tick_to_price(lo), self.uni.tick_to_price(hi),
                self.env["uniPrice"], bool(p["transferred"]))
        self.sq.vault.clear()
        for vid, v in spec["vaults"]:
            nft = m["PositionInfo"](int(v["nft"][0]), int(v["nft"][1])) if v["nft"] is not None else None
            self.sq.vault[m["VaultKey"](int(vid))] = m["Vault"](int(vid), D(v["coll"]), D(v["short"]), nft)
        self.sq._max_vault_id = int(spec["maxId"])
        del self.log[:]

    def dump_state(self):
        return {
            "wallet": [[t.name, a.balance] for t, a in self.broker.assets.items()],
            "vaults": [[k.id, {"coll": D(v.collateral_amount), "short": D(v.osqth_short_amount),
                               "nft": [v.uni_nft_id.lower_tick, v.uni_nft_id.upper_tick] if v.uni_nft_id is not None else None}]
                       for k, v in self.sq.vault.items()],
            "maxId": self.sq._max_vault_id,
            "positions": [[[k.lower_tick, k.upper_tick], {"liquidity": int(p.liquidity), "p0": D(p.pending_amount0),
                                                          "p1": D(p.pending_amount1), "transferred": bool(p.transferred)}]
                          for k, p in self.uni.positions.items()],
        }

    def vault_ids_consistent(self):
        return all(k.id == v.id for k, v in self.sq.vault.items())

    # ---------------------------------------------------------------- operations
    def apply_op(self, op):
        """run one operation of the real code; returns (exception class name | None, returned numbers, new actions)"""
        m = self.m
        VK, PI = m["VaultKey"], m["PositionInfo"]
        n0 = len(self.log)
        k = op["k"]
        out = []
        try:
            if k == "openMint":
                vk = VK(op["vk"]) if op.get("vk") is not None else None
                pos = PI(*op["pos"]) if op.get("pos") is not None else None
                if op.get("byRate") is not None:
                    # the convenience helper: mint amount from a collateral rate, then the same transaction
                    r = self.sq.open_deposit_mint_by_collat_rate(op["deposit"], op["byRate"], vk, pos)
                else:
                    r = self.sq.open_deposit_mint(op["deposit"], op["mint"], vk, pos)
                out = [D(r[0].id), D(r[1])]
            elif k == "deposit":
                self.sq.deposit(VK(op["vk"]), op["eth"])
            elif k == "depositUni":
                self.sq.deposit_uni_position(VK(op["vk"]), PI(*op["pos"]))
            elif k == "withdrawUni":
                self.sq.withdraw_uni_position(VK(op["vk"]), PI(*op["pos"]))
            elif k == "burnWithdraw":
                self.sq.burn_and_withdraw(VK(op["vk"]), op["burn"], op["withdraw"])
            elif k == "liquidate":
                out = [D(self.sq.liquidate(VK(op["vk"])))]
            elif k == "update":
                self.sq.update()
            elif k == "reduceDebt":
                out = [D(x) for x in self.sq._reduce_debt(VK(op["vk"]), bool(op["payBounty"]))]
            elif k == "uniRemove":
                if op.get("liquidity") is None and op.get("collect", True):
                    self.uni.remove_liquidity(PI(*op["pos"]))
                else:                                 # part of the liquidity and / or without collecting (pool-side stream of C01)
                    r = self.uni.remove_liquidity(PI(*op["pos"]), op.get("liquidity"), bool(op.get("collect", True)))
                    out = [D(x) for x in r]
            elif k == "uniAdd":                       # the strategy adds liquidity to the oSQTH/WETH pool: a new range or the range of an existing position
                r = self.uni.add_liquidity_by_tick(int(op["lo"]), int(op["hi"]), op["base"], op["quote"])
                out = [D(r[1]), D(r[2]), D(r[3])]
            elif k == "uniCollect":
                out = [D(x) for x in self.uni.collect_fee(PI(*op["pos"]), op.get("max0"), op.get("max1"))]
            elif k == "uniAccrue":                    # what a bar's fee accrual does to a position: uncollected amounts grow (free or lent alike)
                pos = self.uni.positions[PI(*op["pos"])]
                pos.pending_amount0 += op["a0"]
                pos.pending_amount1 += op["a1"]
            elif k == "uniTransferOut":               # DIRECT call of the public method by the strategy, not through the Squeeth market
                self.uni.transfer_position_out(PI(*op["pos"]))
            elif k == "uniTransferIn":
                self.uni.transfer_position_in(PI(*op["pos"]))
            elif k in ("buy", "sell"):
                f = self.sq.buy_squeeth if k == "buy" else self.sq.sell_squeeth
                a, b = op.get("osqth"), op.get("eth")
                form = op.get("call", "kw")
                if form == "pos":                     # positional, as many arguments as are given
                    r = f(a) if b is None else f(a, b)
                elif form == "kw-given":              # only the keywords that are given
                    r = f(**{n: v for n, v in (("osqth_amount", a), ("eth_amount", b)) if v is not None})
                else:
                    r = f(osqth_amount=a, eth_amount=b)
                out = [D(x) for x in r]
            else:
                raise ValueError("unknown op " + k)
            err = None
        except Exception as ex:  # noqa: BLE001 — the class is the observation
            err = type(ex).__name__
            self.last_exc = ex
        return err, out, [action_json(a) for a in self.log[n0:]]


def action_json(a):
    """an action record of the real code in the shape of the model's `actions`"""
    n = type(a).__name__
    pos = lambda p: [p.lower_tick, p.upper_tick]  # noqa: E731
    if n == "AddVaultAction":
        return {"k": "addVault", "id": a.vault_id, "n": [a.vault_count]}
    if n == "UpdateShortAction":
        return {"k": "updShort", "id": a.vault_id, "n": [D(a.short_amount), D(a.short_after)]}
    if n == "UpdateCollateralAction":
        return {"k": "updColl", "id": a.vault_id, "n": [D(a.collateral_amount), D(a.collateral_after)], "fee": D(a.fee)}
    if n == "DepositLpAction":
        return {"k": "depositLp", "id": a.vault_id, "pos": pos(a.position), "n": []}
    if n == "WithdrawLpAction":
        return {"k": "withdrawLp", "id": a.vault_id, "pos": pos(a.position), "n": []}
    if n == "ReduceDebtAction":
        return {"k": "reduceDebt", "id": a.vault_id, "pos": pos(a.position),
                "n": [D(a.withdrawn_eth_amount), D(a.withdrawn_osqth_amount), D(a.burn_amount), D(a.excess), D(a.bounty),
                      D(a.short_amount_after), D(a.collateral_after)]}
    if n == "LiquidationAction":
        return {"k": "liquidation", "id": a.vault_id,
                "n": [D(a.liquidate_amount), D(a.short_amount_after), D(a.collateral_to_pay), D(a.collateral_after)]}
    if n == "RemoveLiquidityAction":
        return {"k": "uniRemove", "pos": pos(a.position),
                "n": [D(a.base_amount), D(a.quote_amount), int(a.removed_liquidity), int(a.remain_liquidity),
                      D(a.base_balance_after), D(a.quote_balance_after)]}
    if n == "CollectFeeAction":
        return {"k": "uniCollect", "pos": pos(a.position),
                "n": [D(a.base_amount), D(a.quote_amount), D(a.base_balance_after), D(a.quote_balance_after)]}
    if n in ("BuyAction", "SellAction"):
        return {"k": "uniBuy" if n == "BuyAction" else "uniSell",
                "n": [D(a.base_balance_after), D(a.quote_balance_after), D(a.amount), D(a.price), D(a.fee), D(a.base_change), D(a.quote_change)]}
    return {"k": n, "n": []}


# -------------------------------------------------------------------------------------------- comparison
def fr(x) -> F:
    if isinstance(x, F):
        return x
    if isinstance(x, str):
        return F(x)
    if isinstance(x, bool):
        raise TypeError("bool")
    return F(x)


def state_diff(a, b):
    """first difference between two dumped states (numbers compared by value), or None"""
    wa, wb = [(n, fr(x)) for n, x in a["wallet"]], [(n, fr(x)) for n, x in b["wallet"]]
    if wa != wb:
        return f"wallet {a['wallet']} vs {b['wallet']}"
    if int(a["maxId"]) != int(b["maxId"]):
        return f"maxId {a['maxId']} vs {b['maxId']}"
    va = [(int(k), fr(v["coll"]), fr(v["short"]), None if v["nft"] is None else [int(x) for x in v["nft"]]) for k, v in a["vaults"]]
    vb = [(int(k), fr(v["coll"]), fr(v["short"]), None if v["nft"] is None else [int(x) for x in v["nft"]]) for k, v in b["vaults"]]
    if va != vb:
        return f"vaults {a['vaults']} vs {b['vaults']}"
    pa = [([int(x) for x in k], int(p["liquidity"]), fr(p["p0"]), fr(p["p1"]), bool(p["transferred"])) for k, p in a["positions"]]
    pb = [([int(x) for x in k], int(p["liquidity"]), fr(p["p0"]), fr(p["p1"]), bool(p["transferred"])) for k, p in b["positions"]]
    if pa != pb:
        return f"positions {a['positions']} vs {b['positions']}"
    return None


def actions_diff(a, b):
    if len(a) != len(b):
        return f"{len(a)} vs {len(b)} actions: {[x['k'] for x in a]} vs {[x['k'] for x in b]}"
    for x, y in zip(a, b):
        if x["k"] != y["k"] or int(x.get("id", -1)) != int(y.get("id", -1)) or \
                [int(t) for t in x.get("pos", [])] != [int(t) for t in y.get("pos", [])] or \
                [fr(t) for t in x["n"]] != [fr(t) for t in y["n"]]:
            return f"action {x} vs {y}"
        if "fee" in x and fr(x["fee"]) != 0:
            return f"UpdateCollateralAction.fee = {x['fee']} (model: always 0)"
    return None


def model_req(state, envj, op, ctx="py"):
    return {"fn": "step", "ctx": ctx, "state": state, "env": envj, "op": op}


def compare_step(ans, err, out, actions, after):
    """model answer vs implementation; returns a description of the first difference or None"""
    if "error" in ans:
        return "driver: " + str(ans["error"])
    mcls = ans["err"]["cls"] if ans["err"] else None
    if mcls != err:
        return f"outcome: impl {err} model {ans['err']}"
    d = state_diff(after, ans["state"])
    if d:
        return "state after: impl/model " + d
    d = actions_diff(actions, ans["actions"])
    if d:
        return "actions: impl/model " + d
    if err is None and [fr(x) for x in out] != [fr(x) for x in ans["out"]][:len(out)] and out:
        return f"returned: impl {out} model {ans['out']}"
    return None


# -------------------------------------------------------------------------------------------- independent spec (exact)
Q96 = 2 ** 96
TWAP_POINTS = 7
MIN_COLL = F(1, 2)
TOL = F(1, 10 ** 30)


def spec_window(env):
    """the property's window: the (at most) seven one-minute points ending at the current bar"""
    now = env["now"]
    rows = env["rows"]
    first = rows[0][0]
    start = max(now - (TWAP_POINTS - 1), first)
    return [r for r in rows if start <= r[0] <= now]


def geo_mean(xs):
    """geometric mean, 50-digit Decimal arithmetic (independent of the float path of calc_twap_price)"""
    import decimal
    with decimal.localcontext() as c:
        c.prec = 60
        s = sum((D(x).ln() for x in xs), D(0)) / len(xs)
        return +s.exp()


def lp_amounts(world_or_sqrt, lo, hi, liquidity):
    """closed-form Uniswap v3 amounts (token0, token1) as exact fractions, in whole tokens (both tokens have 18 decimals)"""
    from demeter.uniswap.liquitidy_math import get_sqrt_ratio_at_tick
    s = world_or_sqrt
    sa, sb = sorted((get_sqrt_ratio_at_tick(lo), get_sqrt_ratio_at_tick(hi)))
    L = liquidity
    if L == 0 or sa == sb:
        return F(0), F(0)
    if s <= sa:
        a0, a1 = F(L * Q96 * (sb - sa), sa * sb), F(0)
    elif s < sb:
        a0, a1 = F(L * Q96 * (sb - s), s * sb), F(L * (s - sa), Q96)
    else:
        a0, a1 = F(0), F(L * (sb - sa), Q96)
    return a0 / 10 ** 18, a1 / 10 ** 18


def pool_sqrt(uni_price, flip=False):
    """sqrt price of the pool from the oSQTH price in WETH; token0 is WETH (quote) unless `flip`"""
    from demeter.uniswap.helper import base_unit_price_to_sqrt_price_x96
    return base_unit_price_to_sqrt_price_x96(D(uni_price), 18, 18, not flip)


class Spec:
    """the property's arithmetic on a dumped state, exact"""

    def __init__(self, state, env, twap_weth, twap_osqth, nf):
        self.s, self.env = state, env
        self.tw, self.to, self.nf = fr(twap_weth), fr(twap_osqth), fr(nf)
        self.flip = bool(env.get("flip", False))
        self.sqrt = pool_sqrt(env["uniPrice"], self.flip)
        self.pos = {tuple(int(x) for x in k): p for k, p in state["positions"]}

    def lp_tokens(self, key):
        """(WETH, oSQTH) held by the position incl. uncollected fees — by token, whichever of them is token0"""
        p = self.pos[tuple(key)]
        a0, a1 = lp_amounts(self.sqrt, int(key[0]), int(key[1]), int(p["liquidity"]))
        t0, t1 = a0 + fr(p["p0"]), a1 + fr(p["p1"])
        return (t1, t0) if self.flip else (t0, t1)

    def eff_coll(self, v):
        c = fr(v["coll"])
        if v["nft"] is not None:
            if tuple(v["nft"]) not in self.pos:
                return None
            w, q = self.lp_tokens(v["nft"])
            c += w + q * self.nf * self.tw / 10000
        return c

    def debt(self, v):
        return fr(v["short"]) * self.nf * self.tw / 10000

    def safe(self, v):
        """(safe, dust, margin) — margin is how far 2·coll is from 3·debt relative to the larger side"""
        if fr(v["short"]) == 0:
            return True, False, F(1)
        c = self.eff_coll(v)
        if c is None:
            return None, None, F(1)
        d = self.debt(v)
        m = max(abs(2 * c), abs(3 * d))
        return 2 * c >= 3 * d, c < MIN_COLL, (abs(2 * c - 3 * d) / m if m else F(0))


# -------------------------------------------------------------------------------------------- step runner
class Obs:
    """everything observed around one operation of the real code"""
    __slots__ = ("before", "env", "envj", "op", "argc", "err", "msg", "out", "actions", "after", "tw", "to", "nf", "weth", "osqth", "n0", "rate_ok")

    def replay(self):
        return {"spec": self.before, "env": {k: v for k, v in self.env.items()}, "op": self.op}


def observe(world, op, argc=""):
    """dump, run the real operation, dump"""
    o = Obs()
    o.before = world.dump_state()
    o.env = world.env
    o.envj = snapshot_env(world)
    o.tw = world.sq.get_twap_price(world.weth)
    o.to = world.sq.get_twap_price(world.osqth)
    o.nf, o.weth, o.osqth = world.cur()
    if op.get("k") == "openMint" and op.get("byRate") is not None:
        # `collateral_amount_to_osqth` is pure: its answer is the mint amount the model is given
        op = dict(op, mint=world.sq.collateral_amount_to_osqth(op["deposit"], op["byRate"]))
        want = L_by_rate(op["deposit"], op["byRate"], o.nf, o.tw)
        o.rate_ok = want is None or abs(F(op["mint"]) - want) <= abs(want) * F(1, 10 ** 30)
    o.op, o.argc = op, argc
    o.err, o.out, o.actions = world.apply_op(op)
    o.msg = str(getattr(world, "last_exc", "")) if o.err else ""
    o.after = world.dump_state()
    return o


def L_by_rate(deposit, rate, nf, tw):
    """deposit / rate × 10000 / norm_factor / twap(ETH), exact"""
    if F(rate) == 0 or F(nf) == 0 or F(tw) == 0:
        return None
    return F(deposit) / F(rate) * 10000 / F(nf) / F(tw)


def snapshot_env(world):
    _captured.clear()
    return world.env_json()


class Runner:
    """collects the model requests of a run, sends them in one batch, diffs and tags the buckets"""

    def __init__(self, ctx, exe="driver_squeeth"):
        self.ctx, self.exe = ctx, exe
        self.pending = []

    def add(self, obs, tag_prefix=""):
        self.pending.append((obs, tag_prefix))

    def finish(self):
        from common import driver_json
        ctx = self.ctx
        answers = None
        if ctx.driver_ok and self.pending:
            # the model is written for the mainnet orientation (token0 = WETH): flipped worlds are oracle-only
            idx = [i for i, (o, _) in enumerate(self.pending) if not o.env.get("flip")]
            reqs = [model_req(self.pending[i][0].before, self.pending[i][0].envj, self.pending[i][0].op) for i in idx]
            answers = dict(zip(idx, driver_json(reqs, exe=self.exe))) if reqs else {}
        for i, (o, pre) in enumerate(self.pending):
            cause = (o.err or "ok")
            if o.env.get("flip"):
                pre = "flip:" + pre
            if answers is not None and i in answers:
                a = answers[i]
                d = compare_step(a, o.err, o.out, o.actions, o.after)
                if d:
                    ctx.disagree(f"{o.op['k']}: {d}", o.replay())
                if "error" not in a and a.get("err"):
                    cause = a["err"]["cause"]
            else:
                cause = (o.err or "ok") + (":" + o.msg[:24] if o.msg else "")
            ctx.case(f"{pre}{o.op['k']}:{cause}:{o.argc}:{o.env.get('kind', '')}",
                     {"op": o.op, "outcome": cause, "env": o.env.get("kind", "")})
        ctx.impl_traces += len(self.pending)
        self.pending = []


# -------------------------------------------------------------------------------------------- invalid-number arguments
# Decimal NaN raises on ordering comparisons but not on == / arithmetic; float NaN compares false with everything.  Every amount slot of
# every entry point is fed with numbers that are not ordinary finite numbers, and the state is looked at with predicates that cannot pass on NaN.
SPECIALS = ["NaN", "-NaN", "sNaN", "Infinity", "-Infinity", "1E+400", "-1E+400", "-0", "1E-400", "float:nan", "float:inf", "float:-inf", "float:-0.0", "float:1e300"]
SPECIAL_SLOTS = [("openMint", "deposit"), ("openMint", "mint"), ("openMint", "byRate"), ("deposit", "eth"), ("burnWithdraw", "burn"), ("burnWithdraw", "withdraw"),
                 ("buy", "osqth"), ("buy", "eth"), ("sell", "osqth"), ("sell", "eth")]


def real_arg(x):
    if isinstance(x, str) and x.startswith("float:"):
        return float(x[6:])
    return D(x) if isinstance(x, str) else x


def nonfinite_numbers(state):
    bad = [f"wallet[{n}]" for n, b in state["wallet"] if not D(b).is_finite()]
    for k, v in state["vaults"]:
        bad += [f"vault {k}.{f}" for f in ("coll", "short") if not D(v[f]).is_finite()]
    for k, p in state["positions"]:
        bad += [f"position {k}.{f}" for f in ("p0", "p1") if not D(p[f]).is_finite()]
    return bad


def safe_state(state):
    """NaN-safe canonical form: numbers by value where finite (so 3 and 3.0 agree), by text otherwise"""
    n = lambda x: fr(x) if D(x).is_finite() else str(x)  # noqa: E731
    return ([(k, n(b)) for k, b in state["wallet"]], int(state["maxId"]),
            [(int(k), n(v["coll"]), n(v["short"]), v["nft"]) for k, v in state["vaults"]],
            [([int(t) for t in k], int(p["liquidity"]), n(p["p0"]), n(p["p1"]), bool(p["transferred"])) for k, p in state["positions"]])


def special_op(rng, state, slot, x):
    kind, field = slot
    vaults = [int(k) for k, _ in state["vaults"]]
    vk = rng.choice(vaults) if vaults else None
    if kind == "openMint":
        op = {"k": "openMint", "deposit": D(str(round(rng.uniform(0.6, 4), 3))), "mint": D(str(round(rng.uniform(0, 2), 3))), "vk": vk if rng.random() < 0.5 else None, "pos": None}
        if field == "byRate":
            op["mint"] = D(0)
        op[field] = x
        return op
    if kind in ("buy", "sell"):
        op = {"k": kind, "osqth": None, "eth": None, "call": "kw"}
        op[field] = x
        return op
    if vk is None:
        return None
    if kind == "deposit":
        return {"k": "deposit", "vk": vk, "eth": x}
    op = {"k": "burnWithdraw", "vk": vk, "burn": D(0), "withdraw": D(0)}
    op[field] = x
    return op


def special_check(ctx, world, op, pfx="", reject_intact=False):
    """run `op` (special arguments given as text, see SPECIALS) on the real objects; violations: a NaN / infinite number anywhere in wallet,
    vaults or positions afterwards; [reject_intact] a raising call that changed the state or recorded actions"""
    before = world.dump_state()
    rop = {k: real_arg(v) if k in ("deposit", "mint", "byRate", "eth", "burn", "withdraw", "osqth") else v for k, v in op.items()}
    err, out, actions = world.apply_op(rop)
    after = world.dump_state()
    rep = {"spec": before, "env": dict(world.env), "op": op, "special": True}
    bad = nonfinite_numbers(after)
    if bad:
        ctx.violate(f"{pfx}nonfinite-state:{op['k']}", f"{op['k']} {op} -> {err or 'ok'}: {', '.join(bad)} is no longer a finite number: {after['wallet']} {after['vaults']}"[:700], rep)
    for vid, v in after["vaults"]:
        if any(D(v[f]).is_finite() and D(v[f]) < 0 for f in ("coll", "short")):
            ctx.violate(f"{pfx}negative.vault:{op['k']}:special", f"{op['k']} {op} leaves vault {vid} with coll {v['coll']}, short {v['short']}", rep)
    if reject_intact and err is not None and (safe_state(before) != safe_state(after) or actions):
        ctx.violate(f"{pfx}{op['k']}:{err}:special", f"{op['k']} {op} raised {err} but changed the state: {before['wallet']} {before['vaults']} -> {after['wallet']} {after['vaults']}, "
                    f"actions {[a['k'] for a in actions]}"[:700], rep)
    return err, bool(bad)


def special_stream(ctx, n, pfx="", reject_intact=False):
    import squeeth_gen as G
    rng = ctx.rng
    for i in range(n):
        env = G.gen_env(rng)
        world = World(G.empty_state(rng, with_osqth=rng.random() > 0.1), env)
        for _ in range(rng.choice([0, 1, 2, 3])):          # a reachable state first
            op, _ = G.gen_op(rng, world, world.dump_state())
            if op["k"] in ("openMint", "deposit", "burnWithdraw"):
                world.apply_op(op)
        slot = SPECIAL_SLOTS[i % len(SPECIAL_SLOTS)]
        x = rng.choice(SPECIALS)
        op = special_op(rng, world.dump_state(), slot, x)
        if op is None:
            continue
        err, bad = special_check(ctx, world, op, pfx, reject_intact)
        ctx.impl_traces += 1
        ctx.case(f"{'flip:' if env.get('flip') else ''}special:{slot[0]}.{slot[1]}:{x}:{err or 'ok'}{':NONFINITE' if bad else ''}", {"op": {k: str(v) for k, v in op.items()}, "outcome": err or "ok"})


def special_replay(case, pfx="", reject_intact=False):
    import squeeth_gen as G
    from common import Ctx
    world = World(G.parse_spec(case["spec"]), G.parse_env(case["env"]))
    sub = Ctx("C14", "quick", 0, False)
    err, _ = special_check(sub, world, case["op"], pfx, reject_intact)
    print(f"   {case['op']} -> {err or 'ok'}")
    for v in sub.violations:
        print("  ", v["key"], "—", v["what"][:300])
    return not sub.violations
