"""C15 — option orders: best-first fills at displayed sizes; cash, fee, position exact; the visible book shrinks
until the next refresh; equity; no short sale.  (demeter/deribit/market.py buy/sell/check_transaction/
_deduct_order_amount/get_trade_fee/get_market_balance, helper.get_new_order_list/round_decimal)

Oracle = the property's arithmetic recomputed with `Fraction` from the implementation's own observations
(returned fills and fee, balance, positions, visible book before/after, emitted actions); correspondence =
every call replayed on `driver_deribit` from the implementation's dumped state and compared field by field."""
from __future__ import annotations

import copy
from decimal import Decimal, ROUND_HALF_UP
from fractions import Fraction

import deribit_lib as L
from common import Ctx

PROPERTY = "C15"
LEAN_MODULES = ["Proofs.C15", "Proofs.C15.Seq", "Proofs.C15.Float", "Proofs.C15.Norm", "Proofs.C15.Limit", "Proofs.C15.Sell", "Proofs.C15.Follow"]
DRIVERS = ["driver_deribit"]
RULE = ("random books (1-4 instruments, 0-12 levels a side, int and float sizes incl. emptied levels, prices on and off the 0.0005 grid, ETH and BTC "
        "steps; 30 % of the sides as rows in any order with price levels split over several rows; 30 % of the books with an instrument on a binary "
        "price grid whose book has an ask exactly on multiple x mark and a bid exactly on mark / multiple, traded with that multiple and amounts "
        "reaching into the tie level; 15 % of the instruments priced 0.5-1.2 so that neighbouring levels lie within the 0.1 % limit window, limit "
        "amounts up to the sum of the window; half of the books handed over as the market's own data frame) and sequences of 1-8 buys/sells inside one "
        "bar with read-only calls (estimate_cost, check_transaction, get_market_balance) in between; buckets = (side, pricing mode market/limit-exact/limit-near/limit-edge/limit-usd "
        "with or without mark cap, amount class, outcome class+cause, number of levels filled); every market order that follows a fill of the same side "
        "in the bar is also bucketed by (side, beyond / within what the side showed at the start of the bar minus the fills since, outcome); directed: limit sells and "
        "USD-priced limits rounding 6.5 -> 7, limits larger than their one level, second orders larger than the remainder")
TRUSTED = ["float arithmetic of the order-book sizes is reproduced with Lean `Float` (IEEE binary64) in the driver; theorems treat book floats as reals "
           "(DCtx.ideal) and Decimal arithmetic as exact (NumCtx.exact)",
           "shortest float repr (Decimal(str(f))) is re-implemented in the model and compared on every dumped level"]
ASSUMPTIONS = ["instrument names unique; the rows of a side may come in any order and may repeat a price (orders are matched against the side sorted "
               "best-first with one level per price, showing the sum of its rows)",
               "sizes are finite, non-negative and < 2^53; amounts < 1e20",
               "Decimal arithmetic = exact result rounded half-even to 35 digits"]

TOL = Fraction(1, 10 ** 28)
FTOL = Fraction(1, 10 ** 12)        # float subtraction noise on a level size
TRADE_FEE = Fraction(3, 10000)      # 0.03 % per contract            (property text)
MAX_FEE = Fraction(125, 1000)       # 12.5 % of the premium          (property text)
MATCH = Fraction(1, 1000)           # +-0.1 % limit match            (as coded)


def close(a, b, tol=TOL):
    a, b = Fraction(a), Fraction(b)
    return abs(a - b) <= tol * max(abs(a), abs(b), 1)


def round_step(x: Fraction, exp: int) -> Fraction:
    """round half up (away from zero) to a multiple of 10^exp"""
    q = Fraction(10) ** exp
    n = x / q
    s = -1 if n < 0 else 1
    n = abs(n)
    fl = n.numerator // n.denominator
    if n - fl >= Fraction(1, 2):
        fl += 1
    return s * fl * q


def displayed(size: Fraction, is_float: bool) -> Fraction:
    """what the level shows: the decimal the size prints as"""
    if not is_float:
        return size
    return Fraction(Decimal(repr(size.numerator / size.denominator)))


def price_str(p: Fraction) -> Fraction:
    return Fraction(Decimal(repr(p.numerator / p.denominator)))


def norm_side(levels, side):
    """one side the way an exchange shows it, from the dumped rows [price, size, is_float]: best price first, one level per price;
    a level displays what the rows at its price display together.  -> [price, displayed size, merged from several rows?]"""
    agg = {}
    for p, sz, isf in levels:
        d = displayed(sz, isf)
        agg[p] = [p, agg[p][1] + d, True] if p in agg else [p, d, False]
    return [agg[p] for p in sorted(agg, reverse=(side == "sell"))]


def totals(levels):
    """price -> total raw size of the rows at that price"""
    t = {}
    for l in levels:
        t[l[0]] = t.get(l[0], Fraction(0)) + l[1]
    return t


def find(book, name):
    for i in book:
        if i["name"] == name:
            return i
    return None


def oracle_trade(ctx, rig_token, S, op, out, res, S2, acts, rep, bar_tracker=None):
    """check one buy/sell call of the implementation against the property"""
    side = op["type"]
    mj = L.op_json(op)
    texp, fexp = L.TOKEN_STEP[rig_token]
    ins = find(S["book"], mj["name"])
    key = "asks" if side == "buy" else "bids"
    mode = "limit" if (mj["priceTok"] is not None or mj["priceUsd"] is not None) else "market"
    v = lambda k, what: ctx.violate(f"{side}.{k}", what, rep)  # noqa: E731

    # ---------- rejected call: nothing may have moved (no fill => no shrink, no cash, no position change)
    if out != "ok":
        if S2["book"] != S["book"]:
            v(f"{out}.book-shrinks-without-fill", f"{side} of {op['amount']} {mj['name']} raised {out} but the visible {key} changed")
        if S2["cash"] != S["cash"]:
            v(f"{out}.cash-moves-without-fill", f"{side} of {op['amount']} {mj['name']} raised {out} but cash went {L.fmt(S['cash'])} -> {L.fmt(S2['cash'])}")
        if S2["positions"] != S["positions"]:
            v(f"{out}.position-moves-without-fill", f"{side} raised {out} but positions changed")
        if acts:
            v(f"{out}.action-logged", f"{side} raised {out} but an action was recorded")
        if out not in ("DemeterError", "InsufficientBalanceError", "DivisionByZero", "InvalidOperation"):
            v(f"crash.{out}.{mode}", f"{side} {mode} order {op} crashed with {out} instead of filling or rejecting")
        return
    # ---------- accepted
    if ins is None or not ins["open"]:
        v("accepted-on-unknown-or-closed-instrument", f"{mj['name']}")
        return
    if not S["flagOpen"]:
        v("accepted-on-closed-market", "trade accepted while market.is_open is False")
    amt = round_step(mj["amount"], texp)
    fills = res["fills"]
    total = sum((f[1] for f in fills), Fraction(0))
    if total != amt:
        v("fill-total", f"filled {L.fmt(total)} for a request of {L.fmt(mj['amount'])} (step-rounded {L.fmt(amt)})")
    if mj["amount"] < Fraction(10) ** texp:
        v("below-min-accepted", f"amount {L.fmt(mj['amount'])} below the contract step was accepted")
    levels = norm_side(ins[key], side)
    # mark-relative cap.  A level priced *exactly* at the cap is a tie that the 35-digit rounding of `multiple x Decimal(mark)` decides
    # either way (1e-35 relative): the level may count as allowed or not, a level beyond the tie band is not allowed.  Only the
    # *membership* of the tie level is open: whichever reading is taken, the outcome has to be consistent with it -- the clauses on
    # the filled total, cash, fee, position and the book below are judged unconditionally.
    premium = sum((f[0] * f[1] for f in fills), Fraction(0))
    EPS = Fraction(1, 10 ** 30)
    if mj["mult"] is not None:
        if side == "buy":
            cap = mj["mult"] * ins["mark"]
            cands = [[l for l in levels if l[0] < cap - abs(cap) * EPS], [l for l in levels if l[0] < cap + abs(cap) * EPS]]
            what = f"the cap is {L.fmt(cap)}"
        else:
            flo = ins["mark"] / mj["mult"] if mj["mult"] != 0 else None
            cands = [[l for l in levels if flo is not None and l[0] > flo + abs(flo) * EPS], [l for l in levels if flo is not None and l[0] > flo - abs(flo) * EPS]]
            what = f"the floor is {flo}"
        if cands[0] == cands[1]:
            cands = cands[:1]
        else:
            ctx.count("cap_tie_levels")
    else:
        cands = [list(levels)]
        what = ""

    def judge(avail):
        out = []
        w = lambda k, msg: out.append((k, msg))  # noqa: E731
        for f in fills:
            if mj["mult"] is not None and not any(price_str(l[0]) == f[0] for l in avail):
                w("cap-ignored", f"{'bought' if side == 'buy' else 'sold'} at {L.fmt(f[0])} although {what}")
        if mode == "market":
            ne = [l for l in avail if l[1] != 0]
            best = sorted(ne, key=lambda l: l[0], reverse=(side == "sell"))
            if len(fills) > len(best):
                w("more-fills-than-levels", f"{len(fills)} fills from {len(best)} non-empty levels")
            else:
                for i, f in enumerate(fills):
                    l = best[i]
                    if f[0] != price_str(l[0]):
                        w("not-best-first", f"fill {i} at {L.fmt(f[0])} but the {i}-th best level is {L.fmt(price_str(l[0]))}")
                        break
                    d = l[1]
                    slack = FTOL * d if l[2] else 0        # sizes of several rows at one price are added up as floats
                    if f[1] > d + slack:
                        w("over-displayed-size", f"took {L.fmt(f[1])} from a level showing {L.fmt(d)}")
                    if i + 1 < len(fills) and abs(f[1] - d) > slack:
                        w("level-skipped-partly", f"level {i} showing {L.fmt(d)} gave only {L.fmt(f[1])} before the next level was used")
        else:
            want = mj["priceTok"] if mj["priceTok"] is not None else (mj["priceUsd"] / price_str(ins["underlying"]))
            if len(fills) != 1:
                w("limit-many-levels", f"a limit order produced {len(fills)} fills")
            for f in fills:
                if not (abs(f[0] - want) <= MATCH * abs(want) + TOL):
                    w("limit-off-price", f"limit order at {L.fmt(Fraction(want))} filled at {L.fmt(f[0])}")
                lv = [l for l in avail if price_str(l[0]) == f[0]]
                if not lv:
                    w("limit-no-such-level", f"filled at {L.fmt(f[0])}, not a visible (allowed) level")
                elif f[1] > lv[0][1] * (1 + (FTOL if lv[0][2] else 0)):
                    w("over-displayed-size", f"took {L.fmt(f[1])} from a level showing {L.fmt(lv[0][1])}")
        return out

    verdicts = [judge(a) for a in cands]
    for k, msg in min(verdicts, key=len):
        v(k, msg)
    # fee and cash
    fee = round_step(min(TRADE_FEE * amt, MAX_FEE * premium), fexp)
    if res["fee"] != fee and not close(res["fee"], fee):
        v("fee", f"fee {L.fmt(res['fee'])} but min(0.03% x {L.fmt(amt)}, 12.5% x {L.fmt(premium)}) rounded = {L.fmt(fee)}")
    want_cash = S["cash"] - premium - fee if side == "buy" else S["cash"] + premium - fee
    if not close(S2["cash"], want_cash):
        v("cash", f"cash {L.fmt(S['cash'])} -> {L.fmt(S2['cash'])}, expected {L.fmt(want_cash)}")
    if S2["cash"] < 0:
        v("cash-negative", f"cash {L.fmt(S2['cash'])} after the trade")
    if S2["wallet"] != S["wallet"]:
        v("wallet-touched", "a trade changed the broker wallet")
    # visible book afterwards = old book minus the fills
    for i2 in S2["book"]:
        i1 = find(S["book"], i2["name"])
        for k in ("asks", "bids"):
            if i2["name"] != mj["name"] or k != key:
                if i1[k] != i2[k]:
                    v("other-book-touched", f"{k} of {i2['name']} changed")
                continue
            # price by price (the rows of the data may be in any order and may repeat a price; what is written back is one row per price)
            t1, t2 = totals(i1[k]), totals(i2[k])
            if set(t1) != set(t2):
                v("book-levels-lost", f"price levels changed: {sorted(L.fmt(x) for x in set(t1) ^ set(t2))}")
                continue
            used = {}
            for f in fills:
                used[f[0]] = used.get(f[0], Fraction(0)) + f[1]
            for pr in t1:
                taken = used.pop(price_str(pr), Fraction(0))
                if not (abs(t2[pr] - (t1[pr] - taken)) <= FTOL * max(t1[pr], 1)):
                    v("book-not-old-minus-fills", f"level {L.fmt(price_str(pr))}: {L.fmt(t1[pr])} -> {L.fmt(t2[pr])} after a fill of {L.fmt(taken)}")
            if used:
                v("book-not-old-minus-fills", f"fills at {sorted(L.fmt(x) for x in used)} which are not prices of the book")
            for b in i2[k]:
                if b[1] < 0:
                    v("book-negative-size", f"level {L.fmt(price_str(b[0]))} shows {L.fmt(b[1])}")
    # positions
    p1 = {p["key"]: p for p in S["positions"]}
    p2 = {p["key"]: p for p in S2["positions"]}
    for k in set(p1) | set(p2):
        if k != mj["name"] and p1.get(k) != p2.get(k):
            v("other-position-touched", k)
    old, new = p1.get(mj["name"]), p2.get(mj["name"])
    if side == "buy":
        if new is None:
            v("position-missing", "no position after a buy")
        else:
            oa, ob, oavg = (old["amount"], old["buyAmt"], old["avgBuy"]) if old else (Fraction(0),) * 3
            if not close(new["amount"], oa + amt) or not close(new["buyAmt"], ob + amt):
                v("position-amount", f"amount {L.fmt(oa)} -> {L.fmt(new['amount'])} after buying {L.fmt(amt)}")
            if not close(new["avgBuy"], (oavg * ob + premium) / (ob + amt)):
                v("avg-price", f"avg buy price {L.fmt(new['avgBuy'])} is not the size-weighted average")
            if (new["expiry"], new["strike"], new["kind"]) != (ins["expiry"], ins["strike"], ins["kind"]) or new["name"] != mj["name"]:
                v("position-terms", "expiry/strike/kind differ from the instrument row")
            if old is None and (new["avgSell"], new["sellAmt"]) != (0, 0):
                v("position-terms", "fresh position with sell history")
    else:
        if old is None:
            v("not-held.accepted", f"sold {L.fmt(amt)} {mj['name']} with no position")
        elif amt > old["amount"]:
            v("exceeds-holding.accepted", f"sold {L.fmt(amt)} {mj['name']} while holding {L.fmt(old['amount'])}")
        else:
            left = old["amount"] - amt
            if left == 0:
                if new is not None:
                    v("position-amount", "position kept after selling everything")
            elif new is None or not close(new["amount"], left):
                v("position-amount", f"holding {L.fmt(old['amount'])}, sold {L.fmt(amt)}, left {None if new is None else L.fmt(new['amount'])}")
            if new is not None:
                if not close(new["sellAmt"], old["sellAmt"] + amt) or not close(new["avgSell"], (old["avgSell"] * old["sellAmt"] + premium) / (old["sellAmt"] + amt)):
                    v("avg-price", "avg sell price is not the size-weighted average")
    # action record
    if len(acts) != 1 or acts[0]["type"] != side:
        v("action-record", f"{len(acts)} actions recorded for one trade")
    else:
        a = acts[0]
        if a["name"] != mj["name"] or a["amount"] != amt or not close(a["premium"], premium) or a["fee"] != res["fee"] or a["orders"] != fills \
                or (amt != 0 and not close(a["avgPrice"], premium / amt)):
            v("action-record", "recorded trade differs from what was filled")
    if bar_tracker is not None:
        for f in fills:
            bar_tracker[(mj["name"], key, f[0])] = bar_tracker.get((mj["name"], key, f[0]), Fraction(0)) + f[1]


def oracle_following(ctx, token, orig, S, op, out, tracker, rep):
    """fills shrink the visible book for the orders that follow: what a market order without a mark cap can still get in this bar is what the
    side displayed when the bar began (one level per price) minus everything filled from it since -- judged on the book of the bar's start and
    on the fills the implementation reported, not on the book it wrote back.  More than that must be refused (although it may fit the book as
    it was); an order within it, on an open instrument, for at least one contract step (and, for a sell, within the holding) must not be refused
    with DemeterError (InsufficientBalanceError is the cash check, not the book)."""
    mj = L.op_json(op)
    if mj["priceTok"] is not None or mj["priceUsd"] is not None or mj["mult"] is not None:
        return
    side = op["type"]
    key = "asks" if side == "buy" else "bids"
    i0 = find(orig, mj["name"])
    if i0 is None or not i0["open"] or not S["flagOpen"]:
        return
    texp = L.TOKEN_STEP[token][0]
    if mj["amount"] < Fraction(10) ** texp:
        return
    amt = round_step(mj["amount"], texp)
    shown = sum((l[1] for l in norm_side(i0[key], side)), Fraction(0))
    filled = sum((t for (nm, k, _), t in tracker.items() if nm == mj["name"] and k == key), Fraction(0))
    left = shown - filled
    slack = FTOL * max(shown, 1)
    if filled == 0:
        return                                  # a first order: the plain depth check, judged by oracle_trade
    if amt > left + slack:
        ctx.case(f"follow:{side}:beyond-remainder:{'fits-start-of-bar' if amt <= shown else 'beyond-start-of-bar'}:{out}")
        if out == "ok":
            ctx.violate(f"{side}.follow.beyond-remainder-accepted", f"{mj['name']} {key} showed {L.fmt(shown)} when the bar began, {L.fmt(filled)} were filled "
                        f"since, yet a following market {side} of {L.fmt(amt)} (> {L.fmt(left)} left) was accepted", rep)
    elif amt < left - slack:
        held = {p["key"]: p["amount"] for p in S["positions"]}
        if side == "sell" and not (mj["name"] in held and amt <= held[mj["name"]]):
            return
        ctx.case(f"follow:{side}:within-remainder:{out}")
        if out == "DemeterError":
            ctx.violate(f"{side}.follow.within-remainder-refused", f"{mj['name']} {key} showed {L.fmt(shown)} when the bar began, {L.fmt(filled)} were filled since, "
                        f"yet a following market {side} of {L.fmt(amt)} (<= {L.fmt(left)} left) was refused", rep)


def oracle_equity(ctx, token, S, bal, rep):
    fexp = L.TOKEN_STEP[token][1]
    prem = Fraction(0)
    for p in S["positions"]:
        ins = find(S["book"], p["name"])
        if ins is not None:
            prem += p["amount"] * round_step(ins["mark"], fexp)
    if bal is None or not close(bal["netValue"], S["cash"] + prem) or bal["cash"] != S["cash"] or not close(bal["premium"], prem):
        ctx.violate("equity", f"equity {None if bal is None else L.fmt(bal['netValue'])} but cash + sum amount x round(mark) = {L.fmt(S['cash'] + prem)}", rep)
    for p in S["positions"]:
        if p["amount"] <= 0:
            ctx.violate("position-nonpositive", f"{p['key']} holds {L.fmt(p['amount'])}", rep)


def run_sequence(ctx: Ctx, spec, reqs, oracle_only=False):
    """spec: instrs, now, token, wallet, cash, positions, ops.  Runs the real market, the oracle, queues model requests."""
    rig = L.Rig(spec["instrs"], now=spec["now"], token=spec["token"], wallet=Decimal(spec["wallet"]), cash=Decimal(spec["cash"]),
                positions=spec["positions"], via_frame=spec.get("via_frame", False))
    rep = {"spec": spec}
    orig = L.dump_state(rig)["book"]
    frame0 = L.frame_cells(rig)
    tracker = {}
    for idx, (op, tag) in enumerate(spec["ops"]):
        S = L.dump_state(rig)
        n0 = len(rig.actions)
        fr = L.frame_cells(rig)
        out, res = L.apply_op(rig, op)
        S2 = L.dump_state(rig)
        acts = [L.dump_action(a) for a in rig.actions[n0:]]
        srep = dict(rep, step=idx)
        if op["type"] in ("estimate", "check", "balance"):
            # helpers that only read: nothing is filled, so nothing the property observes may move -- not the visible book, and not the
            # frame the book is refreshed from
            ctx.case(f"probe:{op['type']}:{tag}:{out}")
            for k in ("book", "cash", "positions", "wallet"):
                if S2[k] != S[k]:
                    ctx.violate(f"{op['type']}.{k}-changes-without-fill",
                                f"{op['type']}({ {a: str(b) for a, b in op.items() if a != 'type'} }) [{out}] is not an order, yet the {k} changed", srep)
            if acts:
                ctx.violate(f"{op['type']}.action-logged", f"{op['type']} recorded an action", srep)
            if L.frame_cells(rig) != fr:
                ctx.violate(f"{op['type']}.data-frame-changes", f"{op['type']}({ {a: str(b) for a, b in op.items() if a != 'type'} }) [{out}] changed the order "
                            f"book cells of the data frame the visible book is refreshed from", srep)
            continue
        if op["type"] in ("buy", "sell"):
            oracle_following(ctx, spec["token"], orig, S, op, out, tracker, srep)
            oracle_trade(ctx, spec["token"], S, op, out, res, S2, acts, srep, tracker)
            nfill = len(res["fills"]) if out == "ok" else 0
            ctx.case(f"{op['type']}:{tag}:{out}:{min(nfill, 4)}", {"op": L.canon(L.op_json(op)), "outcome": out} if out != "ok" or nfill > 1 else None)
        else:
            ctx.case(f"{op['type']}:{out}")
        if out == "ok" and op["type"] in ("buy", "sell"):
            bal = L.dump_balance(rig.market.get_market_balance())
            oracle_equity(ctx, spec["token"], S2, bal, srep)
            # the state compared with the model is the one right after the trade (the trade drops the cached valuation, fix 7a93584);
            # get_market_balance above refreshed the cache afterwards
            reqs.append((f"{op['type']}:{tag}", L.step_request(S, op, spec["token"]), out, res, S2, acts, srep))
        else:
            reqs.append((f"{op['type']}:{tag}", L.step_request(S, op, spec["token"]), out, res, S2, acts, srep))
    # the frame the book is refreshed from at the next bar is what it was: fills live in the visible copy only
    if frame0 is not None and L.frame_cells(rig) != frame0:
        ctx.violate("bar.data-frame-changed", "the order-book cells of the market's data frame changed during the bar: the next refresh does not restore "
                    "the displayed sizes", rep)
    # over the whole bar: what was taken from a level never exceeds what it showed when the bar began
    final = L.dump_state(rig)["book"]
    for (name, key, p), taken in tracker.items():
        i0, i1 = find(orig, name), find(final, name)
        t0, t1 = totals(i0[key]), totals(i1[key])
        for a in norm_side(i0[key], "buy"):
            if price_str(a[0]) == p:
                d = a[1]
                if taken > d * (1 + FTOL):
                    ctx.violate("bar.level-overdrawn", f"{name} {key} level {L.fmt(p)} showed {L.fmt(d)} at the start of the bar but {L.fmt(taken)} were filled from it", rep)
                if not (abs(t1.get(a[0], Fraction(0)) - (t0[a[0]] - taken)) <= FTOL * max(t0[a[0]], 1)):
                    ctx.violate("bar.book-drift", f"{name} {key} level {L.fmt(p)}: {L.fmt(t0[a[0]])} - fills {L.fmt(taken)} != visible {L.fmt(t1.get(a[0], Fraction(0)))}", rep)


def gen_spec(rng):
    token = "ETH" if rng.random() < 0.8 else "BTC"
    now = 60 * rng.randint(1, 200)
    instrs = L.gen_book(rng, token, now, crossed=True, rough=0.3, tie=0.3)
    cash = rng.choice((Decimal(100000), Decimal(100000), Decimal(1000), Decimal(1000), Decimal(50), Decimal(1), Decimal("0.1"), Decimal("0.002"), Decimal(0)))
    positions = []
    held = {}
    for i in instrs:
        if rng.random() < (0.8 if "tie" in i else 0.45):
            top = rng.choice((80, 80, 5000)) if "tie" not in i else 5000
            a = Decimal(rng.randint(1, top)) if token == "ETH" else Decimal(rng.randint(1, 10 * top)) / 10
            positions.append({"name": i["name"], "expiry": i["expiry"], "strike": i["strike"], "kind": i["kind"], "amount": str(a),
                              "avgBuy": str(Decimal(rng.randint(1, 900)) / 10000), "buyAmt": str(a + rng.randint(0, 5)),
                              "avgSell": str(Decimal(rng.randint(0, 900)) / 10000), "sellAmt": str(rng.randint(0, 5))})
            held[i["name"]] = a
    ops = []
    via_frame = rng.random() < 0.5
    for _ in range(rng.randint(1, 8)):
        if rng.random() < 0.25 and instrs:
            # a read-only call in between: estimate_cost (needs the market's own frame), check_transaction, get_market_balance
            t, ttag = L.gen_trade(rng, instrs, token, positions=held)
            kind = rng.choice(("estimate", "check", "check", "balance") if via_frame else ("check", "check", "balance"))
            probe = {"type": kind}
            if kind != "balance":
                probe.update({k: v for k, v in t.items() if k != "type"})
                probe["side"] = t["type"]
                if kind == "estimate":
                    probe.pop("mult", None)
                    probe.pop("priceUsd", None)
            ops.append((probe, ttag.split(":")[0]))
        op, tag = L.gen_trade(rng, instrs, token, positions=held)
        ops.append((op, tag))
        if op["type"] == "buy" and isinstance(op["amount"], (int, Decimal)) and op["amount"] >= 1:
            held[op["name"]] = held.get(op["name"], Decimal(0)) + Decimal(op["amount"])   # optimistic: later sells aim at it
    return {"instrs": instrs, "now": now, "token": token, "wallet": "5", "cash": str(cash), "positions": positions, "ops": ops, "via_frame": via_frame}


def directed_specs():
    """the hand-made cases of DESIGN §1.8 plus a second limit order at a level already filled in this bar"""
    base = [{"name": "ETH-22SEP23-1650-C", "state": "open", "kind": "CALL", "strike": 1650, "expiry": 30000, "mark": 0.0287,
             "underlying": 1651.94, "delta": 0.52071, "gamma": 0.00342,
             "asks": [[0.0285, 5], [0.029, 605], [0.0295, 197], [0.03, 40], [0.0305, 18]],
             "bids": [[0.028, 51], [0.0275, 585], [0.027, 248], [0.0265, 24]]}]
    tie = copy.deepcopy(base)
    tie[0]["asks"] = [[0.0287, 5], [0.029, 605]]
    flt = copy.deepcopy(base)
    flt[0]["asks"] = [[0.0285, 5.0], [0.029, 605.5]]
    pos = [{"name": base[0]["name"], "expiry": 30000, "strike": 1650, "kind": "CALL", "amount": "2"}]
    n = base[0]["name"]
    mk = lambda instrs, cash, positions, ops: {"instrs": instrs, "now": 360, "token": "ETH", "wallet": "5", "cash": cash,  # noqa: E731
                                               "positions": positions, "ops": [(o, "directed") for o in ops]}
    btc = [{"name": "BTC-22SEP23-30000-C", "state": "open", "kind": "CALL", "strike": 30000, "expiry": 30000, "mark": 0.0287,
            "underlying": 29876.5, "delta": 0.5, "gamma": 0.0001,
            "asks": [[0.029, 0.09999999999999999], [0.0295, 0.2]], "bids": [[0.028, 0.09999999999999999], [0.0275, 0.2]]}]
    mkb = lambda ops: {"instrs": btc, "now": 360, "token": "BTC", "wallet": "5", "cash": "10", "positions": [],  # noqa: E731
                       "ops": [(o, "directed-float-residue") for o in ops]}
    rough1 = copy.deepcopy(base)
    rough1[0]["asks"] = [[0.06, 5], [0.05, 5], [0.055, 5]]          # rows not in price order
    rough2 = copy.deepcopy(base)
    rough2[0]["asks"] = [[0.05, 5], [0.05, 7]]                      # one price level in two rows
    rough2[0]["bids"] = [[0.02, 3], [0.028, 4.0], [0.02, 2.5], [0.028, 1]]
    tie_a = copy.deepcopy(base)                                     # 2 x 0.03125 = 0.0625 exactly: the second ask sits on the cap
    tie_a[0].update({"mark": 0.03125, "asks": [[0.05, 3], [0.0625, 5], [0.07, 9]], "bids": [[0.03, 3], [0.015625, 5], [0.01, 2]]})
    pos10 = [{"name": base[0]["name"], "expiry": 30000, "strike": 1650, "kind": "CALL", "amount": "10"}]
    pos1000 = [{"name": base[0]["name"], "expiry": 30000, "strike": 1650, "kind": "CALL", "amount": "1000"}]
    near = copy.deepcopy(base)                                      # two asks / bids within 0.1 % of one another
    near[0].update({"mark": 0.8, "asks": [[0.8, 3], [0.8005, 10], [0.81, 4]], "bids": [[0.7995, 3], [0.799, 10], [0.78, 4]]})
    one = copy.deepcopy(base)                                       # exactly one level a side
    one[0].update({"asks": [[0.03, 145]], "bids": [[0.027, 70]]})
    mkf = lambda instrs, cash, positions, ops: dict(mk(instrs, cash, positions, ops), via_frame=True)  # noqa: E731
    return [
        mk(near, "100", pos10, [{"type": "buy", "name": n, "amount": 5, "priceTok": 0.8}, {"type": "sell", "name": n, "amount": 5, "priceTok": 0.7995},
                                 {"type": "buy", "name": n, "amount": 3, "priceTok": 0.8005}]),
        mkf(one, "100", pos10, [{"type": "estimate", "name": n, "amount": 5, "side": "buy"}, {"type": "estimate", "name": n, "amount": 5, "side": "sell"},
                                 {"type": "check", "name": n, "amount": 5, "side": "buy"}, {"type": "buy", "name": n, "amount": 5},
                                 {"type": "estimate", "name": n, "amount": 5, "side": "buy", "priceTok": 0.03}, {"type": "sell", "name": n, "amount": 5}]),
        mk(rough1, "100", [], [{"type": "buy", "name": n, "amount": 3}, {"type": "buy", "name": n, "amount": 8}]),
        mk(rough2, "100", [], [{"type": "buy", "name": n, "amount": 2, "priceTok": 0.05}, {"type": "buy", "name": n, "amount": 8},
                               {"type": "sell", "name": n, "amount": 6}, {"type": "sell", "name": n, "amount": 4}]),
        mk(tie_a, "100", pos10, [{"type": "buy", "name": n, "amount": 6, "mult": 2}, {"type": "sell", "name": n, "amount": 6, "mult": 2},
                                  {"type": "buy", "name": n, "amount": 3, "mult": 2.0}, {"type": "sell", "name": n, "amount": 3, "mult": Decimal("2")},
                                  {"type": "buy", "name": n, "amount": 2, "mult": 2, "priceTok": 0.0625}]),
        # sizes that are float residues (0.3 - 0.2 style): the depth check and the fill loop must read them the same way
        mkb([{"type": "buy", "name": btc[0]["name"], "amount": Decimal("0.3")}]),
        mkb([{"type": "buy", "name": btc[0]["name"], "amount": Decimal("0.2")}, {"type": "buy", "name": btc[0]["name"], "amount": Decimal("0.1")},
             {"type": "sell", "name": btc[0]["name"], "amount": Decimal("0.3")}]),
        # a level priced exactly at the cap (multiple 1.0, ask == mark): a tie decided by the 35-digit rounding of the product
        mk(tie, "100", [], [{"type": "buy", "name": n, "amount": 3, "mult": 1.0}, {"type": "buy", "name": n, "amount": 3, "mult": 1.0, "priceTok": 0.0287}]),
        mk(base, "0.1", [], [{"type": "buy", "name": n, "amount": 10}]),
        mk(base, "1", [], [{"type": "sell", "name": n, "amount": 3}]),
        mk(base, "1", pos, [{"type": "sell", "name": n, "amount": 60}]),
        mk(flt, "1", [], [{"type": "buy", "name": n, "amount": 2, "priceTok": 0.0285}]),
        mk(base, "1", [], [{"type": "buy", "name": n, "amount": 2, "priceTok": 0.029}, {"type": "buy", "name": n, "amount": 2, "priceTok": 0.029}]),
        mk(base, "1", [], [{"type": "buy", "name": n, "amount": 2, "priceUsd": 47.9}]),
        mk(base, "100", [], [{"type": "buy", "name": n, "amount": 700}, {"type": "buy", "name": n, "amount": 200}, {"type": "sell", "name": n, "amount": 900}]),
        # limit orders, sell side and USD-priced: 6.5 contracts round to 7, one fill at the 0.028 bid / the 0.029 ask (47.9 $ and 46.25 $ / 1651.94)
        mk(base, "100", pos10, [{"type": "sell", "name": n, "amount": Decimal("6.5"), "priceTok": 0.028}, {"type": "sell", "name": n, "amount": 2, "priceUsd": 46.25},
                                 {"type": "buy", "name": n, "amount": Decimal("6.5"), "priceUsd": 47.9}, {"type": "sell", "name": n, "amount": 2, "priceTok": 0.0275}]),
        # a limit order for more than its one level shows is refused (the next level is not used), on either side
        mk(base, "100", pos1000, [{"type": "buy", "name": n, "amount": 6, "priceTok": 0.0285}, {"type": "sell", "name": n, "amount": 52, "priceTok": 0.028},
                                   {"type": "sell", "name": n, "amount": 52, "priceUsd": 46.25}]),
        # the order that follows sees the shrunken book: asks show 865, after 10 bought 860 do not fit any more (855 do); bids show 908,
        # after 40 sold 880 do not fit any more (868 do)
        mk(base, "100", [], [{"type": "buy", "name": n, "amount": 10}, {"type": "buy", "name": n, "amount": 860}, {"type": "buy", "name": n, "amount": 855}]),
        mk(base, "100", pos1000, [{"type": "sell", "name": n, "amount": 40}, {"type": "sell", "name": n, "amount": 880}, {"type": "sell", "name": n, "amount": 868}]),
    ]


def flush(ctx, reqs):
    if not ctx.driver_ok or not reqs:
        return
    answers = L.model_answers([r[1] for r in reqs])
    for (tag, req, out, res, S2, acts, srep), ans in zip(reqs, answers):
        L.compare_step(ctx, tag, None, None, out, res, S2, acts, ans, srep)
        if "outcome" in ans and ans["outcome"] != "ok":
            ctx.count("model_rejections:" + ans.get("cause", ""))


def helper_diff(ctx: Ctx):
    """helper.round_decimal and Decimal(str(float)) against the model's roundDec / shortestRepr (what every price and size goes through)"""
    from demeter.deribit.helper import round_decimal
    from common import driver_json
    rng = ctx.rng
    reqs, wants = [], []
    for _ in range(ctx.scale(1500, 40000)):
        r = rng.random()
        if r < 0.5:
            e = rng.choice((-8, -6, -6, -4, -1, 0, 0, 1, 3))
            sign = rng.choice((1, 1, 1, -1))
            if rng.random() < 0.3:      # exact ties
                x = Decimal(sign * (2 * rng.randint(0, 10 ** 6) + 1)) * Decimal(5) * Decimal(10) ** (e - 1)
            else:
                x = Decimal(sign * rng.randint(0, 10 ** rng.randint(1, 18))) / Decimal(10 ** rng.randint(0, 14))
            reqs.append({"fn": "roundDec", "exp": e, "x": Fraction(x)})
            wants.append(("roundDec", (e, x), Fraction(round_decimal(x, e))))
        else:
            q = rng.random()
            if q < 0.3:
                f = round(rng.randint(1, 10 ** 6) * 0.0005, 4)
            elif q < 0.6:
                f = rng.randint(1, 10 ** 7) / 10 - rng.randint(0, 10 ** 6) / 10      # float arithmetic residue
            elif q < 0.8:
                f = rng.uniform(0, 1) * 10 ** rng.randint(-8, 12)
            else:
                f = float(rng.randint(0, 10 ** 15))
            reqs.append({"fn": "repr", "x": Fraction(f)})
            wants.append(("repr", f, Fraction(Decimal(repr(f)))))
    if not ctx.driver_ok:
        return
    out = driver_json(reqs, exe=L.EXE)
    for (kind, arg, want), o in zip(wants, out):
        ctx.case(f"helper:{kind}")
        got = Fraction(o) if isinstance(o, str) else None
        if got != want:
            ctx.disagree(f"{kind}({arg}): impl {L.fmt(want)} model {o}", {"helper": kind, "arg": str(arg)})


def run(ctx: Ctx):
    helper_diff(ctx)
    reqs = []
    for spec in directed_specs():
        run_sequence(ctx, spec, reqs)
    n = ctx.scale(450, 12000)
    for _ in range(n):
        run_sequence(ctx, gen_spec(ctx.rng), reqs)
        if len(reqs) > 4000:
            flush(ctx, reqs)
            reqs = []
    flush(ctx, reqs)
    ctx.impl_traces = n


def restore_spec(spec):
    """a stored replay went through `jsonable`: floats became repr strings, Decimals strings"""
    spec = copy.deepcopy(spec)
    for i in spec["instrs"]:
        for k in ("asks", "bids"):
            i[k] = [[float(p), float(s) if isinstance(s, str) else s] for p, s in i[k]]
    spec["ops"] = [(restore_op(o), t) for o, t in spec["ops"]]
    return spec


def replay(ctx: Ctx, case) -> bool:
    spec = restore_spec(case["spec"])
    sub = Ctx(ctx.prop, ctx.tier, ctx.seed, False)
    run_sequence(sub, spec, [])
    for v in sub.violations:
        print("  ", v["key"], v["what"])
    return not sub.violations


def restore_op(o):
    """ops in a stored replay went through `jsonable` (Decimal -> str, float -> repr str)"""
    o = dict(o)
    for k in ("amount", "priceTok", "priceUsd", "mult"):
        if isinstance(o.get(k), str):
            o[k] = Decimal(o[k])
    return o
