"""Shared code of the broker/wallet parts of C01, C03, C04 (demeter/broker/broker.py, _typing.py Asset)."""
from __future__ import annotations

from decimal import Decimal
from fractions import Fraction

from common import Ctx, driver_json, fmt

DRIVER = "driver_broker"
DUST = Fraction(0.00001)
TOKS = ["USDC", "ETH", "WBTC", "DAI", "WAVAX"]


def rnd_dec(rng, lo=-9, hi=12, digits=None, allow_zero=True):
    k = rng.random()
    if allow_zero and k < 0.07:
        return Decimal(0)
    d = digits or rng.choice((1, 2, 5, 9, 18, 30))
    m = rng.randint(1, 10 ** d)
    return Decimal(m).scaleb(rng.randint(lo, hi) - len(str(m)) + 1)


class FakeBalance:
    def __init__(self, nv):
        self.net_value = nv


class FakeMarket:
    """what Broker.get_account_status reads of a market: market_info, quote_token, get_market_balance().net_value"""

    def __init__(self, info, quote, nv):
        self.market_info = info
        self.quote_token = quote
        self._nv = nv
        self.broker = None
        self._record_action_callback = None

    def get_market_balance(self):
        return FakeBalance(self._nv)


def mk_broker(wallet, quote, actions=None, allow_negative=False):
    from demeter import Broker, TokenInfo
    b = Broker(allow_negative_balance=allow_negative, record_action_callback=(actions.append if actions is not None else None))
    toks = {}
    for name, bal in wallet:
        t = TokenInfo(name=name, decimal=18)
        toks[name] = t
        b.set_balance(t, bal)
    if quote is not None:
        b.quote_token = toks.get(quote) or TokenInfo(name=quote, decimal=18)
    return b, toks


def wallet_dump(b):
    return [[k.name, v.balance] for k, v in b.assets.items()]


def exc_class(e):
    import decimal
    if isinstance(e, decimal.DivisionByZero) or isinstance(e, decimal.InvalidOperation) or isinstance(e, ZeroDivisionError):
        return "DivisionByZero"
    return type(e).__name__


def value(wallet, prices):
    """exact valuation of a dumped wallet; None if a price is missing"""
    tot = Fraction(0)
    for k, v in wallet:
        if k not in prices:
            return None
        tot += Fraction(v) * Fraction(prices[k])
    return tot
