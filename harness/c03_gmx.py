"""C03, GMX part — on a frozen row no sequence of buy_glp/sell_glp (v1) or deposit/withdraw (v2) calls creates value, makes a holding
negative, or redeems more than is held."""
from __future__ import annotations

import math
from decimal import Decimal
from fractions import Fraction as F

from common import Ctx, driver_json
import gmx_common as G
from c17 import ser_op, de_op

PROPERTY = "C03"
LEAN_MODULES = ["Proofs.C03.Gmx"]
DRIVERS = ["driver_gmx"]
RULE = ("sequences of 1-12 operations on one frozen row (v1: recorded CSV rows and synthetic rows whose glp_price equals AUM/supply; v2: generated pools), amounts "
        "log-uniform, zero, exact balance/holding, balance x (1 +- 1e-6 .. 1.1e-5), 10 x oversized, negative, mixed tokens (buy with one token, sell for another); after every "
        "call the account's net value (Broker.get_account_status with the row's own prices) is compared with the value before; "
        "bucket = (version, op, outcome, argument class, sign of the price impact / fee branch)")
TRUSTED = ["value is measured by the implementation's own Broker.get_account_status(prices).net_value with prices taken from the same row (token price / 1e30; v2 long/short price); "
           "the dust allowance is 1e-5 x (wallet balances the call touches) x price, as the property states"]
ASSUMPTIONS = ["the bar's reward accrual (GmxMarket.update) is a bar transition, not an operation: it is not part of the frozen-market sequences",
               "v1 rows are price-consistent: glp_price x GLP supply = floor(AUM/1e12) up to the 16-digit rounding of the recorded glp_price column"]

DUST = F(1, 10 ** 5)


def v1_prices(w: G.V1World):
    r = w.market.market_status.data
    return {t.name: Decimal(r[f"{t.name.lower()}_price"]) / G.E30 for t in w.broker.assets.keys() if f"{t.name.lower()}_price" in r.index}


def v1_net_value(w):
    return F(w.broker.get_account_status(v1_prices(w)).net_value)


def check_nonneg(ctx, ver, w, op, rep, pre_hold):
    m = w.market
    hold = F(m.glp_amount) if ver == 1 else (F(m.amount) if math.isfinite(m.amount) else None)
    if hold is None or (hold < 0 <= pre_hold):
        ctx.violate(f"gmx.v{ver}.{op['kind']}.negative_holding", f"{op['kind']} leaves the share holding at {m.glp_amount if ver == 1 else m.amount}", rep)
    for k, a in w.broker.assets.items():
        if not G.is_finite_num(a.balance) or a.balance < 0:
            ctx.violate(f"gmx.v{ver}.{op['kind']}.negative_wallet", f"{op['kind']} leaves wallet {k.name} = {a.balance}", rep)


def run_v1(ctx: Ctx, n: int):
    pending = []
    for _ in range(n):
        for _ in range(20):
            row, names, kind = G.gen_v1_row(ctx.rng)
            if F(row["glp"]) > 0 and F(row["aum"]) >= G.E12:
                break
        wallet = [(x, G.rand_dec(ctx.rng, -3, 6, 8)) for x in names]
        w = G.V1World(row, names, wallet, glp=ctx.rng.choice([None, G.rand_dec(ctx.rng, -3, 6, 18)]),
                      reward=G.rand_dec(ctx.rng, -3, 3, 20) if ctx.rng.random() < 0.3 else None)
        ops = []
        for _ in range(ctx.rng.randint(1, 12)):
            op, cls = G.gen_v1_op(ctx.rng, w)
            if op["kind"] == "update":
                continue
            spec = w.spec()
            rep = {"world": spec, "ops": [ser_op(op)]}
            v0 = v1_net_value(w)
            pre = w.dump()
            t = w.token(op["tok"])
            touched = F(w.broker.assets[t].balance) if t in w.broker.assets else F(0)
            req = w.step_request(pre, w.env_json(), op)
            out, res, acts = w.apply(op)
            pending.append((op, out, res, acts, w.dump(), rep, req))
            ctx.impl_traces += 1
            try:
                v1 = v1_net_value(w)
            except KeyError:
                v1 = None          # an unknown token ended up in the wallet: cannot be valued (never happens on accepted calls)
            r = w.market.market_status.data
            pk = f"{op['tok']}_price"
            price = F(r[pk]) / G.E30 if pk in r.index else F(0)
            # the valuation prices GLP at the row's glp_price column, the trade at floor(AUM/1e12)/supply: where the column is rounded
            # (16 digits in the recorded files) the difference times the GLP moved is an inconsistency of the data, not value created
            incons = abs(F(r["glp_price"]) - F(G.floor_frac(F(r["aum"]) / G.E12)) / F(r["glp"])) * abs(F(w.market.glp_amount) - F(pre["glp"]))
            allowance = DUST * touched * price + incons + G.TOL30 * abs(v0)
            if v1 is not None and v1 - v0 > allowance:
                ctx.violate(f"gmx.v1.{op['kind']}.value_created", f"{op['kind']}_glp({op['tok']}, {op['amount']}) -> {out}: net value {float(v0)!r} -> {float(v1)!r} "
                            f"(+{float(v1 - v0)!r}, dust allowance {float(allowance)!r})", rep)
            if out == "ok" and op["kind"] == "sell":
                g = F(op["amount"]) if op["amount"] != 0 else F(pre["glp"])
                if g > F(pre["glp"]):
                    ctx.violate("gmx.v1.sell.over_redeem", f"sell_glp({op['tok']}, {op['amount']}) paid {res} while {pre['glp']} GLP is held", rep)
            check_nonneg(ctx, 1, w, op, rep, F(pre["glp"]))
            loss = "0" if v1 is None or v1 == v0 else ("+" if v1 > v0 else "-")
            ctx.case(f"v1:{op['kind']}:{out}:{cls}:{kind}:{loss}", {"op": ser_op(op), "outcome": out, "dv": float(v1 - v0) if v1 is not None else None})
    if ctx.driver_ok:
        for (op, out, res, acts, post, rep, req), a in zip(pending, driver_json([p[-1] for p in pending], exe="driver_gmx")):
            if "error" in a or a["outcome"] != out:
                ctx.disagree(f"v1 {op['kind']}: impl {out} model {a}"[:400], rep)
                continue
            d = G.state_eq_v1(a["state"], post, acts)
            if out == "ok" and F(a["result"]) != F(res):
                d.append(f"result impl {res} model {a['result']}")
            if d:
                ctx.disagree(f"v1 {op['kind']}: " + "; ".join(d)[:500], rep)


def v2_net_value(w: G.V2World):
    d = w.market._market_status.data
    prices = {w.long.name: Decimal(float(d.longPrice)), w.short.name: Decimal(float(d.shortPrice))}
    return F(w.broker.get_account_status(prices).net_value)


def run_v2(ctx: Ctx, n: int):
    pending = []
    for _ in range(n):
        for _ in range(50):
            pool, pcls = G.gen_v2_pool(ctx.rng)
            if not pcls.startswith("zero"):
                break
        cfg = G.gen_v2_cfg(ctx.rng)
        wallet = [("weth", Decimal(str(round(G._logu(ctx.rng, -2, 4), 6)))), ("usdc", Decimal(str(round(G._logu(ctx.rng, 0, 7), 4))))]
        w = G.V2World(pool, cfg, wallet, amount=ctx.rng.choice([0.0, round(G._logu(ctx.rng, -2, 6), 4)]))
        for _ in range(ctx.rng.randint(1, 10)):
            op, cls = G.gen_v2_op(ctx.rng, w)
            spec = w.spec()
            rep = {"world": spec, "ops": [ser_op(op)]}
            try:
                v0 = v2_net_value(w)
            except ZeroDivisionError:
                break
            pre = w.dump()
            d = w.market._market_status.data
            touched = F(0)
            if op["kind"] == "deposit":
                touched = F(w.broker.assets[w.long].balance) * F(float(d.longPrice)) + F(w.broker.assets[w.short].balance) * F(float(d.shortPrice))
            req = w.request(op)
            out, res, acts = w.apply(op)
            pending.append((op, out, res, acts, w.dump(), rep, req))
            ctx.impl_traces += 1
            try:
                v1 = v2_net_value(w)
            except (ZeroDivisionError, ValueError, OverflowError):
                # the account can no longer be valued (a holding on a row without supply, or a non-finite number in the state): the value
                # clause cannot be evaluated; the holdings themselves are still judged
                ctx.count("v2_value_undefined_after_op")
                check_nonneg(ctx, 2, w, op, rep, F(pre["amount"]))
                break
            allowance = DUST * touched + F(1, 10 ** 12) * abs(v0)          # float noise of the valuation itself: 1e-12 relative
            imp = "0"
            if out == "ok" and op["kind"] == "deposit":
                imp = "+" if res.price_impact_usd > 0 else ("-" if res.price_impact_usd < 0 else "0")
            if v1 - v0 > allowance:
                key = "gmx.v2.deposit.value_created.positive_impact" if (op["kind"] == "deposit" and imp == "+") else f"gmx.v2.{op['kind']}.value_created"
                ctx.violate(key, f"{op['kind']} {ser_op(op)} -> {out}: net value {float(v0)!r} -> {float(v1)!r} (+{float(v1 - v0)!r}, allowance {float(allowance)!r}, "
                            f"price impact {getattr(res, 'price_impact_usd', None)!r})", rep)
            if out == "ok" and op["kind"] == "withdraw":
                g = pre["amount"] if op["amount"] is None else float(op["amount"])
                if g > pre["amount"]:
                    ctx.violate("gmx.v2.withdraw.over_redeem", f"withdraw({op['amount']!r}) paid out while only {pre['amount']!r} GM is held", rep)
            check_nonneg(ctx, 2, w, op, rep, F(pre["amount"]))
            loss = "0" if v1 == v0 else ("+" if v1 > v0 else "-")
            ctx.case(f"v2:{op['kind']}:{out}:{cls}:impact{imp}:{'cfg' if cfg else 'default'}:{loss}", {"op": ser_op(op), "outcome": out, "dv": float(v1 - v0)})
    if ctx.driver_ok:
        for (op, out, res, acts, post, rep, req), a in zip(pending, driver_json([p[-1] for p in pending], exe="driver_gmx")):
            if "error" in a or a["outcome"] != out:
                ctx.disagree(f"v2 {op['kind']}: impl {out} model {a}"[:400], rep)
                continue
            d = G.state_eq_v2(a["state"], post, acts)
            if d:
                ctx.disagree(f"v2 {op['kind']}: " + "; ".join(d)[:500], rep)


def run(ctx: Ctx):
    G.cap_violations(ctx)
    run_v1(ctx, ctx.scale(350, 8000))
    run_v2(ctx, ctx.scale(500, 10000))
    G.special_stream(ctx, ctx.scale(400, 6000), "gmx.")


def replay(ctx: Ctx, case) -> bool:
    if "special" in case:
        return G.special_replay(case, "gmx.")
    sp = case["world"]
    ok = True
    if sp["ver"] == 1:
        w = G.V1World.from_spec(sp)
        for o in case["ops"]:
            op = de_op(o)
            v0 = v1_net_value(w)
            t = w.token(op["tok"])
            touched = F(w.broker.assets[t].balance) if t in w.broker.assets else F(0)
            g0 = F(w.market.glp_amount)
            out, res, _ = w.apply(op)
            v1 = v1_net_value(w)
            r = w.market.market_status.data
            price = F(r[f"{op['tok']}_price"]) / G.E30
            good = v1 - v0 <= DUST * touched * price + G.TOL30 * abs(v0) and F(w.market.glp_amount) >= min(0, g0)
            print(f"   {op} -> {out}: value {float(v0)!r} -> {float(v1)!r}, glp {w.market.glp_amount}: {'ok' if good else 'FAILS'}")
            ok = ok and good
    else:
        w = G.V2World.from_spec(sp)
        for o in case["ops"]:
            op = de_op(o)
            v0 = v2_net_value(w)
            a0 = w.market.amount
            out, res, _ = w.apply(op)
            v1 = v2_net_value(w)
            good = v1 - v0 <= F(1, 10 ** 5) * abs(v0) and w.market.amount >= min(0.0, a0)
            print(f"   {op} -> {out}: value {float(v0)!r} -> {float(v1)!r}, amount {w.market.amount!r}: {'ok' if good else 'FAILS'}")
            ok = ok and good
    return ok
