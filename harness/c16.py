"""C16 — options settle once, at the first open (whole-hour) bar at or after expiry, with the intrinsic payoff net of the
delivery fee; nothing before expiry; the hourly market trades only on bars where it is open.

The bar loop is the real `Actuator.run` with an hourly DeribitOptionMarket next to a minutely UniLpMarket (or alone on an
hourly / 5-minute grid).  A scripted strategy trades and records the market right before `update()` (end of on_bar) and
right after it (after_bar).  Oracle: the property recomputed with Fractions from those observations and from the data
frames.  Correspondence: the whole run replayed by driver_deribit (`bars`), compared bar by bar."""
from __future__ import annotations

import copy
import warnings
from decimal import Decimal
from fractions import Fraction
from types import SimpleNamespace

import pandas as pd

import deribit_lib as L
from common import Ctx, driver_json

PROPERTY = "C16"
LEAN_MODULES = ["Proofs.C16", "Proofs.C16.Run", "Proofs.C16.Trades", "Proofs.C16.General", "Proofs.C16.Guard", "Proofs.C16.Hooks", "Proofs.C16.HooksRun", "Proofs.C16.Frame"]
DRIVERS = ["driver_deribit"]
RULE = ("whole backtests through Actuator.run: 2-5 hours at interval 1min (with a minutely Uniswap co-market), 3-8 hours at 5min / 1h, 6-14 hours at "
        "2h / 4h (resampled option data, whole coarse bars without option data); calls and puts, strikes around the underlying path and around the "
        "fallback token price, 40 % of the instruments expiring within 0.02 % of the strike with a mark independent of intrinsic (payoff below the "
        "delivery fee); strategy calls from before_bar / on_bar / after_bar / notify; expiry before the first bar / on an hour / between hours / after the last bar, instrument "
        "present or gone from the book at expiry, whole hours missing from the option data; four directed families through the same loop and oracle: rolls (all of "
        "one instrument sold and a nearer-dated one bought inside one bar, in either order, once or twice, bought back later), positions whose payoff is below "
        "the delivery fee followed by bars on which the underlying has moved far into the money (row kept / gone / bought again), trades attempted on the "
        "off-hour bars and the (possibly missing) next hour after an accepted trade on an on-hour bar of the same market object, instruments absent from the "
        "book exactly at the bar that settles them (hour with other rows / hour without data) and listed again afterwards; buckets = (interval, kind, moneyness ITM/OTM/ATM, "
        "payoff>fee or not, expiry position class, row present/absent, settled at which kind of bar) and (trade attempt, bar open/closed, outcome)")
TRUSTED = ["the payoff ratio |S-K|/S is float arithmetic (numpy) on book rows: reproduced with Lean Float in the driver, exact reals in the theorems; "
           "the oracle allows one fee step (1e-6) between the exact-real payoff and the float one and counts such cases (measured: see notes)",
           "pandas resampling / Actuator plumbing is exercised, not modelled: the model's bar list is read off the frames the Actuator iterates; "
           "the option frame handed to the model (`frame`: which timestamps carry which rows, after resampling) is computed by this harness from the "
           "scenario; from it the MODEL derives each bar's is_open flag and book (Demeter/Deribit/Frame.lean, `C16_flag_follows_data`) and the flag "
           "is compared with the market's is_open after every bar"]
ASSUMPTIONS = ["token prices are Decimals (Actuator.set_price converts)",
               "underlying prices > 0 in the run-level streams: the theorems about update() carry it as the hypothesis `SettleGuard` (every due in-the-money "
               "position has an underlying price other than 0, Proofs/C16/Guard.lean); without it update() raises (DivisionByZero / InvalidOperation) half-way — "
               "modelled by `updateE`, compared step-wise in the `update:zero-underlying:*` buckets",
               "instrument names unique per hour"]

DELIVERY_FEE = Fraction(15, 100000)    # 0.015 % per contract      (property text)
MAX_FEE = Fraction(125, 1000)          # 12.5 % of the option value (property text)
STEP = Fraction(1, 10 ** 6)
KEY = None


def round6(x: Fraction) -> Fraction:
    n = x / STEP
    s = -1 if n < 0 else 1
    n = abs(n)
    fl = n.numerator // n.denominator
    if n - fl >= Fraction(1, 2):
        fl += 1
    return s * fl * STEP


# ------------------------------------------------------------------------------------------ scenario
INTERVAL_MIN = {"1min": 1, "5min": 5, "1h": 60, "2h": 120, "4h": 240}


def gen_scenario(rng, intervals=("1min", "1min", "1min", "1h", "5min", "2h", "2h", "4h")):
    interval = rng.choice(intervals)
    n_hours = rng.randint(2, 5) if interval == "1min" else (rng.randint(3, 8) if INTERVAL_MIN[interval] <= 60 else rng.randint(6, 14))
    tick = rng.randint(199000, 201000)
    n_ins = rng.choice((1, 2, 3))
    token_price_guess = 10 ** 12 / 1.0001 ** tick
    instrs = []
    for i in range(n_ins):
        kind = rng.choice(("CALL", "PUT"))
        base = rng.choice((token_price_guess, rng.uniform(1500, 2600)))
        strike = int(round(base / 25.0)) * 25 + rng.choice((-50, -25, 0, 0, 25, 50))
        if rng.random() < 0.12:
            strike = int(round(base * rng.choice((2.0, 2.5, 4.0, 0.4)) / 25.0)) * 25       # far out: also against the fallback token price
        exp_cls = rng.choice(("before-start", "on-hour", "on-hour", "between-hours", "between-hours", "after-end", "first-bar"))
        if exp_cls == "before-start":
            expiry = -rng.choice((1, 60, 600))
        elif exp_cls == "first-bar":
            expiry = 0
        elif exp_cls == "on-hour":
            expiry = 60 * rng.randint(1, n_hours - 1)
        elif exp_cls == "between-hours":
            expiry = 60 * rng.randint(0, n_hours - 2) + rng.randint(1, 59)
        else:
            expiry = 60 * n_hours + rng.choice((0, 30, 600))
        gone = rng.random() < 0.45          # does the row leave the book once expired?
        # barely in the money at expiry while the mark is still well above intrinsic: the payoff is positive but below the delivery fee
        near = rng.random() < 0.4
        itm_sign = 1 if kind == "CALL" else -1
        path = []
        for h in range(n_hours):
            r = rng.random()
            if near:
                sign = itm_sign if rng.random() < 0.85 else -itm_sign
                S = round(strike * (1 + sign * rng.choice((2e-6, 1e-5, 3e-5, 1e-4, 1.4e-4, 1.6e-4, 2e-4))), 4)    # within 0.02 % of the strike
                mark = rng.choice((0.0005, 0.0011, 0.0013, 0.002, 0.01, 0.05, round(rng.uniform(0.0001, 0.2), 4)))    # independent of intrinsic
                path.append((S, mark))
                continue
            if r < 0.12:
                # far from the strike: a put whose underlying fell to half the strike or below pays MORE than one coin per contract
                # ((K - S) / S > 1), a call deep in the money pays close to one; exactly K/2 is the tie (K - S) / S = 1
                S = round(strike * rng.choice((0.2, 0.35, 0.45, 0.5, 0.5, 0.55, 1.9, 3.0)), 2)
            elif r < 0.2:
                S = float(strike)                                   # at the money exactly
            elif r < 0.45:
                S = round(strike * (1 + rng.choice((-1, 1)) * rng.choice((1e-6, 1e-5, 1e-4, 2e-4))), 4)   # payoff about the size of the fee
            else:
                S = round(strike + rng.uniform(-300, 300), 2)
            mark = rng.choice((0.0, round(rng.uniform(0.0001, 0.2), 4), round(rng.uniform(0.000001, 0.002), 6)))
            path.append((S, mark))
        instrs.append({"name": f"ETH-X{i}-{strike}-{'C' if kind == 'CALL' else 'P'}", "kind": kind, "strike": strike, "expiry": expiry,
                       "exp_cls": exp_cls, "gone": gone, "path": path})
    # an option bought in mid-run that expires BEFORE everything held since the start: it is due at its own expiry, not at the others'
    late_buy = None
    step_h = max(1, INTERVAL_MIN[interval] // 60)
    if n_ins >= 2 and n_hours >= 3 * step_h + 1 and rng.random() < 0.5:
        a, b = instrs[0], instrs[1]
        a["expiry"], a["exp_cls"] = rng.choice((60 * n_hours + 600, 60 * (n_hours - 1))), "late-holder"
        hb = rng.randint(1, max(1, (n_hours - 2) // step_h - 1)) * step_h              # the bar it is bought on (on the grid, not the first)
        he = rng.randint(hb + step_h, n_hours - 1)                                     # it expires after that, inside the run
        b["expiry"], b["exp_cls"] = 60 * he - rng.choice((0, 0, 25)), "bought-late-expires-first"
        b["gone"] = rng.random() < 0.3
        late_buy = (60 * hb, b["name"], a["name"])
    missing = set(h for h in range(0, n_hours) if rng.random() < 0.15)
    if step_h > 1 and rng.random() < 0.7:
        # a whole bar of the coarse grid without option data, between hours that have data (resampling labels that bar all the same)
        b = rng.randint(1, max(1, (n_hours - 1) // step_h - 1))
        missing |= set(range(b * step_h, min(n_hours, (b + 1) * step_h)))
    missing.discard(0)              # the first bar has data (a run that starts in a gap is the directed case first_hour_missing)
    if late_buy is not None:
        missing.discard(late_buy[0] // 60)      # the bar of the purchase has data
    if len(missing) == n_hours:
        missing.discard(n_hours - 1)
    hours = []
    for h in range(n_hours):
        rows = []
        if h not in missing:
            for ins in instrs:
                if ins["gone"] and 60 * h >= ins["expiry"]:
                    continue
                S, mark = ins["path"][h]
                k = max(2, int(mark / 0.0005))
                rows.append({"name": ins["name"], "state": "open", "kind": ins["kind"], "strike": ins["strike"], "expiry": ins["expiry"],
                             "mark": mark, "underlying": S, "delta": 0.5, "gamma": 0.001,
                             "asks": [[L.grid_price(k + 1), rng.randint(5, 400)], [L.grid_price(k + 2), rng.randint(5, 400)]],
                             "bids": [[L.grid_price(max(1, k - 1)), rng.randint(5, 400)]]})
            if not rows:
                # keep the hour in the frame with an unrelated instrument so that the market is open
                rows.append({"name": "ETH-OTHER-9999-C", "state": "open", "kind": "CALL", "strike": 9999, "expiry": 10 ** 6, "mark": 0.001,
                             "underlying": 2000.0, "delta": 0.1, "gamma": 0.001, "asks": [[0.0015, 10]], "bids": [[0.0005, 10]]})
        hours.append((60 * h, rows))
    positions = []
    for ins in instrs:
        held = rng.random() < 0.75
        if late_buy is not None and ins["name"] in late_buy[1:]:
            held = ins["name"] == late_buy[2]
        if held:
            positions.append({"name": ins["name"], "expiry": ins["expiry"], "strike": ins["strike"], "kind": ins["kind"],
                              "amount": str(rng.choice((1, 2, 3, 10, 57, 400)))})
    # scripted strategy: minute -> ops (each with the hook it is issued from: before_bar / on_bar / after_bar / notify)
    script = {}
    last = 60 * n_hours - 1 if interval == "1min" else 60 * (n_hours - 1)
    for _ in range(rng.randint(2, 7)):
        q = rng.random()
        if q < 0.55:
            m = 60 * rng.randint(0, n_hours - 1)
        else:
            m = rng.randint(0, last)
        m -= m % INTERVAL_MIN[interval]
        ins = rng.choice(instrs)
        r = rng.random()
        if r < 0.5:
            op = {"type": "buy", "name": ins["name"], "amount": rng.randint(1, 6)}
        elif r < 0.8:
            op = {"type": "sell", "name": ins["name"], "amount": rng.randint(1, 3)}
        elif r < 0.9:
            op = {"type": "deposit", "amount": Decimal(rng.randint(1, 50)) / 100}
        else:
            op = {"type": "withdraw", "amount": Decimal(rng.randint(1, 50)) / 100}
        add_scripted(rng, script, m, op)
    if late_buy is not None:
        script.setdefault(late_buy[0], []).insert(0, {"type": "buy", "name": late_buy[1], "amount": rng.randint(1, 3)})
    return {"interval": interval, "n_hours": n_hours, "tick": tick, "instrs": instrs, "hours": hours, "positions": positions,
            "script": script, "cash": "5", "wallet": "10"}


def add_scripted(rng, script, m, op, phases=(("on", 0.7), ("before", 0.1), ("after", 0.1), ("notify", 0.1))):
    """file `op` under minute m with the hook it comes from; `notify` only runs when the bar recorded an action, so a small deposit in on_bar
    goes with it"""
    r, acc, phase = rng.random(), 0.0, "on"
    for ph, w in phases:
        acc += w
        if r < acc:
            phase = ph
            break
    if phase != "on":
        op = dict(op, phase=phase)
    if phase == "notify":
        script.setdefault(m, []).append({"type": "deposit", "amount": Decimal(rng.randint(1, 9)) / 1000})
    script.setdefault(m, []).append(op)


# ------------------------------------------------------------------------------------------ directed families (run level, with trades)
TOKEN_PRICE = lambda tick: 10 ** 12 / 1.0001 ** tick  # noqa: E731


def _row(ins, h, rng):
    S, mark = ins["path"][h]
    k = max(2, int(mark / 0.0005))
    return {"name": ins["name"], "state": "open", "kind": ins["kind"], "strike": ins["strike"], "expiry": ins["expiry"], "mark": mark, "underlying": S,
            "delta": 0.5, "gamma": 0.001, "asks": [[L.grid_price(k + 1), rng.randint(20, 400)], [L.grid_price(k + 2), rng.randint(20, 400)]],
            "bids": [[L.grid_price(max(1, k - 1)), rng.randint(20, 400)]]}


def _other_row():
    return {"name": "ETH-OTHER-9999-C", "state": "open", "kind": "CALL", "strike": 9999, "expiry": 10 ** 6, "mark": 0.001, "underlying": 2000.0,
            "delta": 0.1, "gamma": 0.001, "asks": [[0.0015, 10]], "bids": [[0.0005, 10]]}


def assemble(rng, interval, n_hours, tick, instrs, held, script, missing=()):
    """hours / positions from instruments carrying `path` (per hour: underlying, mark), `gone` (row leaves the book once expired) and
    `absent` (hours at which the row is missing although the hour has data); `held`: name -> amount"""
    hours = []
    for h in range(n_hours):
        rows = []
        if h not in missing:
            for ins in instrs:
                if (ins.get("gone") and 60 * h >= ins["expiry"]) or h in ins.get("absent", ()):
                    continue
                rows.append(_row(ins, h, rng))
            if not rows:
                rows.append(_other_row())
        hours.append((60 * h, rows))
    positions = [{"name": i["name"], "expiry": i["expiry"], "strike": i["strike"], "kind": i["kind"], "amount": str(held[i["name"]])}
                 for i in instrs if i["name"] in held]
    return {"interval": interval, "n_hours": n_hours, "tick": tick, "instrs": instrs, "hours": hours, "positions": positions, "script": script,
            "cash": "5", "wallet": "10"}


def _instr(rng, tag, kind, strike, expiry, n_hours, cls, gone=False, absent=(), moneyness=None):
    sign = 1 if kind == "CALL" else -1
    path = []
    for h in range(n_hours):
        m = moneyness(h) if moneyness else rng.choice((-0.08, -0.01, 0.01, 0.05, 0.12))
        path.append((round(strike * (1 + sign * m), 4), rng.choice((0.0, 0.0011, 0.01, round(rng.uniform(0.0001, 0.2), 4)))))
    return {"name": f"ETH-{tag}-{strike}-{'C' if kind == 'CALL' else 'P'}", "kind": kind, "strike": strike, "expiry": expiry, "exp_cls": cls,
            "gone": gone, "absent": tuple(absent), "path": path}


def first_settling_hour(expiry, step_h=1):
    """index of the first hour on the bar grid at or after `expiry` (minutes)"""
    h = max(0, -(-expiry // 60))
    return -(-h // step_h) * step_h


def gen_roll(rng):
    """a roll inside one bar: everything held of instrument A is sold and the same number of contracts of the nearer-dated B is bought (in either
    order), so the number of positions is unchanged; B then expires inside the run and is settled at its own time, A — no longer held — never is.
    Sometimes rolled once more (B into C), sometimes A is bought back later."""
    interval = rng.choice(("1min", "1min", "1h", "5min"))
    n_hours = rng.randint(5, 7)
    tick = rng.randint(199000, 201000)
    base = int(round(TOKEN_PRICE(tick) / 25.0)) * 25
    n = rng.choice((1, 2, 3, 5))
    hr = rng.randint(1, n_hours - 3)                                  # the bar of the roll
    eb = 60 * rng.randint(hr + 1, n_hours - 1) - rng.choice((0, 0, 20, 45))   # B expires after the roll, inside the run
    a = _instr(rng, "RA", rng.choice(("CALL", "PUT")), base + rng.choice((-50, 0, 50)), 60 * n_hours + rng.choice((0, 600)), n_hours, "rolled-out")
    b = _instr(rng, "RB", rng.choice(("CALL", "PUT")), base + rng.choice((-75, -25, 25, 75)), eb, n_hours, "rolled-into", gone=rng.random() < 0.4)
    instrs = [a, b]
    ops = [{"type": "sell", "name": a["name"], "amount": n}, {"type": "buy", "name": b["name"], "amount": n}]
    if rng.random() < 0.3:
        ops.reverse()
    script = {60 * hr: ops}
    if rng.random() < 0.35 and hr + 1 < first_settling_hour(eb):
        c = _instr(rng, "RC", rng.choice(("CALL", "PUT")), base + rng.choice((-100, 100)), eb - 60 * rng.randint(0, 1) if eb - 60 > 60 * (hr + 1) else eb, n_hours, "rolled-into-2")
        instrs.append(c)
        script[60 * (hr + 1)] = [{"type": "sell", "name": b["name"], "amount": n}, {"type": "buy", "name": c["name"], "amount": n}]
    if rng.random() < 0.3:
        script.setdefault(60 * rng.randint(hr + 1, n_hours - 1), []).append({"type": "buy", "name": a["name"], "amount": 1})     # bought back
    if rng.random() < 0.5:
        add_scripted(rng, script, 60 * hr + (1 if interval == "1min" else 0), {"type": "sell", "name": b["name"], "amount": 1})  # off-hour attempt right after
    sc = assemble(rng, interval, n_hours, tick, instrs, {a["name"]: n}, script)
    sc["family"] = "roll"
    return sc


def gen_below_fee_then_move(rng):
    """a position that ends barely in the money (within 0.02 % of the strike) with a mark well above intrinsic: the payoff is below the delivery
    fee, nothing is paid, the position is removed all the same; on the following bars the underlying moves far into the money (a re-settlement or a
    late payment would now be large) while the row stays listed, leaves the book, or is bought again"""
    interval = rng.choice(("1min", "1h", "5min", "2h"))
    step_h = max(1, INTERVAL_MIN[interval] // 60)
    n_hours = rng.randint(5, 8) if step_h == 1 else 10
    tick = rng.randint(199000, 201000)
    kind = rng.choice(("CALL", "PUT"))
    strike = int(round(TOKEN_PRICE(tick) / 25.0)) * 25 + rng.choice((-50, 0, 50))
    expiry = 60 * rng.randint(1, n_hours - 3) - rng.choice((0, 0, 15, 59))
    hs = first_settling_hour(expiry, step_h)
    eps = rng.choice((2e-6, 1e-5, 3e-5, 1e-4, 1.4e-4))
    later = rng.choice((0.05, 0.1, 0.3))
    x = _instr(rng, "BF", kind, strike, expiry, n_hours, "below-fee-then-move", gone=rng.random() < 0.35,
               moneyness=lambda h: eps if h <= hs + step_h - 1 else later)
    x["path"] = [(S, rng.choice((0.0011, 0.0013, 0.002, 0.01, 0.05)) if h <= hs + step_h - 1 else mk) for h, (S, mk) in enumerate(x["path"])]
    n = rng.choice((1, 2, 10, 57, 400))
    script = {}
    if rng.random() < 0.5 and hs + step_h < n_hours:
        script[60 * rng.randrange(hs + step_h, n_hours, step_h)] = [{"type": "buy", "name": x["name"], "amount": rng.randint(1, 3)}]   # bought again after expiry
    if rng.random() < 0.5 and hs >= step_h:
        script.setdefault(60 * (hs - step_h), []).append({"type": "sell", "name": x["name"], "amount": 1})
    sc = assemble(rng, interval, n_hours, tick, [x], {x["name"]: n}, script)
    sc["family"] = "below-fee-then-move"
    return sc


def gen_off_hour_after_on_hour(rng):
    """trades on an on-hour bar (accepted) followed, on the same market object, by attempts on the off-hour bars of that hour and on the next hour
    — which may be missing from the option data: every attempt off the hour / on a missing hour is refused and leaves no trace"""
    interval = rng.choice(("1min", "1min", "5min"))
    n_hours = rng.randint(3, 5)
    tick = rng.randint(199000, 201000)
    strike = int(round(TOKEN_PRICE(tick) / 25.0)) * 25
    expiry = rng.choice((60 * n_hours + 30, 60 * (n_hours - 1), 60 * (n_hours - 2) + 30))
    x = _instr(rng, "OH", rng.choice(("CALL", "PUT")), strike, expiry, n_hours, "off-hour-after-on-hour", gone=rng.random() < 0.5)
    h = rng.randint(0, n_hours - 2)
    step = INTERVAL_MIN[interval]
    script = {60 * h: [{"type": "buy", "name": x["name"], "amount": 2}]}
    for off in sorted(set(rng.choice((step, 2 * step, 15, 30, 45, 60 - step)) for _ in range(3))):
        m = 60 * h + off - off % step
        if m % 60:
            for op in ({"type": "buy", "name": x["name"], "amount": 1}, {"type": "sell", "name": x["name"], "amount": 1}):
                if rng.random() < 0.8:
                    add_scripted(rng, script, m, op, phases=(("on", 0.6), ("before", 0.15), ("after", 0.25)))
    script.setdefault(60 * (h + 1), []).append({"type": "sell", "name": x["name"], "amount": 1})
    missing = {h + 1} if rng.random() < 0.35 else set()
    sc = assemble(rng, interval, n_hours, tick, [x], {x["name"]: rng.choice((1, 3))} if rng.random() < 0.6 else {}, script, missing)
    sc["family"] = "off-hour-after-on-hour"
    return sc


def gen_absent_at_settlement(rng):
    """the instrument is listed before and after, but its row is missing from the book exactly at the bar that settles it (the hour has data for
    other instruments, or no data at all): it is settled there all the same, against the token price with mark 0 (no fee cap), once — and not
    again when the row is back"""
    interval = rng.choice(("1min", "1h", "5min"))
    n_hours = rng.randint(4, 7)
    tick = rng.randint(199000, 201000)
    kind = rng.choice(("CALL", "PUT"))
    tp = TOKEN_PRICE(tick)
    strike = int(round(tp * rng.choice((0.9, 0.97, 1.0, 1.03, 1.1)) / 25.0)) * 25          # in / at / out of the money against the token price
    expiry = 60 * rng.randint(1, n_hours - 2) - rng.choice((0, 0, 10, 59))
    hs = first_settling_hour(expiry)
    x = _instr(rng, "AB", kind, strike, expiry, n_hours, "absent-at-settlement", absent=(hs,))
    y = _instr(rng, "AO", "CALL", strike + 500, 60 * n_hours + 600, n_hours, "bystander")
    whole_hour = rng.random() < 0.3
    script = {}
    if rng.random() < 0.5:
        script[60 * hs] = [{"type": rng.choice(("buy", "sell")), "name": x["name"], "amount": 1}]      # not in the orderbook at that bar: refused
    if rng.random() < 0.4 and hs + 1 < n_hours:
        script[60 * (hs + 1)] = [{"type": "buy", "name": x["name"], "amount": 1}]                      # listed again (data glitch): what the code does
    sc = assemble(rng, interval, n_hours, tick, [x, y], {x["name"]: rng.choice((1, 2, 10)), y["name"]: 1}, script, {hs} if whole_hour else ())
    sc["family"] = "absent-at-settlement"
    return sc


FAMILIES = (gen_roll, gen_below_fee_then_move, gen_off_hour_after_on_hour, gen_absent_at_settlement)


def family_notes(ctx, sc, rec):
    """what the directed families are after, counted next to the exact oracle's verdicts (no verdict of their own)"""
    fam = sc.get("family")
    if not fam:
        return
    for bar in rec:
        ops = [o for o in bar["ops"] if o["op"]["type"] in ("buy", "sell")]
        if fam == "roll" and len(ops) >= 2 and {o["op"]["type"] for o in ops[:2]} == {"buy", "sell"} and all(o["out"] == "ok" for o in ops[:2]):
            n0 = len(ops[0]["before"]["positions"])
            n1 = len(ops[1]["after"]["positions"])
            ctx.count("rolls_done")
            ctx.case(f"roll:{sc['interval']}:positions-{'unchanged' if n0 == n1 else 'changed'}:{ops[0]['op']['type']}-first")
        if fam == "off-hour-after-on-hour":
            for o in ops:
                ctx.case(f"off-hour-family:{sc['interval']}:{o['op']['type']}:{o['phase']}:{'on-hour' if bar['now'] % 60 == 0 else 'off-hour'}:{o['out']}")
    ctx.case(f"family:{fam}:{sc['interval']}")


# ------------------------------------------------------------------------------------------ running the real thing
def make_strategy(script, mkey, rec):
    from demeter import Strategy

    class Scripted(Strategy):
        def _rig(self):
            market = self.broker.markets[mkey]
            return SimpleNamespace(market=market, broker=self.broker, tok=market.token)

        def _run(self, bar, phase):
            rig = self._rig()
            for op in script.get(bar["now"], []):
                if op.get("phase", "on") != phase:
                    continue
                S = L.dump_state(rig)
                out, res = L.apply_op(rig, op)
                S2 = L.dump_state(rig)
                bar["ops"].append({"op": op, "phase": phase, "out": out, "res": res, "before": S, "after": S2})

        def before_bar(self, snapshot):
            bar = {"now": L.minutes(snapshot.timestamp), "ops": [], "n_actions_before": len(self.actuator._currents.actions), "notified": False}
            rec.append(bar)
            self._run(bar, "before")

        def on_bar(self, snapshot):
            bar = rec[-1]
            self._run(bar, "on")
            bar["pre"] = L.dump_state(self._rig())                     # right before update()
            bar["n_actions_pre"] = len(self.actuator._currents.actions)

        def after_bar(self, snapshot):
            bar = rec[-1]
            bar["post"] = L.dump_state(self._rig())                    # right after update()
            bar["n_actions_post"] = len(self.actuator._currents.actions)
            self._run(bar, "after")
            bar["final"] = L.dump_state(self._rig())                   # what the bar's account row is about
            bar["row_state"] = bar["final"]
            bar["actions"] = list(self.actuator._currents.actions)

        def notify(self, action):
            # called once per recorded action after the bar's account row; actions recorded here are notified in the same loop
            bar = rec[-1]
            if not bar["notified"]:
                bar["notified"] = True
                self._run(bar, "notify")
                bar["final"] = L.dump_state(self._rig())
            bar["actions"] = list(self.actuator._currents.actions)
    return Scripted()


def run_real(sc):
    L.quiet()
    from demeter import Actuator, MarketInfo, MarketTypeEnum
    from demeter.deribit import DeribitOptionMarket
    mkey = MarketInfo("deribit", MarketTypeEnum.deribit_option)
    a = Actuator()
    dm = DeribitOptionMarket(mkey, DeribitOptionMarket.ETH)
    dm.data = L.deribit_frame(sc["hours"])
    n_minutes = 60 * sc["n_hours"] if sc["interval"] == "1min" else 60 * (sc["n_hours"] - 1) + 1
    um, usdc, eth = L.uni_market(n_minutes, 0, sc["tick"])
    a.broker.add_market(dm)
    a.broker.add_market(um)
    a.broker.set_balance(eth, Decimal(sc["wallet"]))
    a.broker.set_balance(usdc, Decimal(1000))
    dm.balance = Decimal(sc["cash"])
    rig = SimpleNamespace(market=dm, broker=a.broker, tok=dm.token)
    for p in sc["positions"]:
        L.Rig.add_position(rig, p)
    a.set_price(um.get_price_from_data())
    a.interval = sc["interval"]
    rec = []
    a.strategy = make_strategy(sc["script"], mkey, rec)
    a.run(print_result=False)
    balances = [L.dump_balance(st.market_status[mkey]) for st in a.account_status]
    prices = a._token_prices
    return a, dm, rec, balances, prices, mkey


# ------------------------------------------------------------------------------------------ oracle
def bar_rows(sc, m):
    """the option rows in force at the bar of minute m, from the scenario's own hourly data: the hour's rows; on a grid coarser than one
    hour, for each instrument its first row inside the bar (what resampling with first() keeps) -- an instrument without a row inside
    the bar is absent from it, a bar without any row is a bar without option data"""
    width = max(60, INTERVAL_MIN.get(sc["interval"], 1))
    start = m - m % 60 if width == 60 else m - m % width
    out = {}
    for hm, rows in sorted(sc["hours"], key=lambda x: x[0]):
        if start <= hm < start + width:
            for r in rows:
                out.setdefault(r["name"], r)
    return out


def row_at(sc, hour_min, name):
    return bar_rows(sc, hour_min).get(name)


def hour_present(sc, m):
    return bool(bar_rows(sc, m))


def expected_payoff(pos, S: Fraction, mark: Fraction):
    """(payoff credited, gross, fee) by the property's formula with exact reals"""
    amount = pos["amount"]
    K = pos["strike"]
    itm = (pos["kind"] == "CALL" and K < S) or (pos["kind"] == "PUT" and K > S)
    if not itm:
        return Fraction(0), None, None, "OTM" if K != S else "ATM"
    gross = round6(amount * abs(S - K) / S)
    fee = round6(min(DELIVERY_FEE * amount, MAX_FEE * amount * round6(mark)))
    if gross <= fee:
        return Fraction(0), gross, fee, "ITM-below-fee"
    return gross - fee, gross, fee, "ITM"


def oracle(ctx, sc, rec, balances, prices, rep):
    v = lambda k, what, extra=None: ctx.violate(k, what, dict(rep, **(extra or {})))  # noqa: E731
    expired_seen = {}
    for bi, bar in enumerate(rec):
        now = bar["now"]
        on_grid = now % 60 == 0
        is_open = on_grid and hour_present(sc, now)
        # ---- trades only on open bars
        for o in bar["ops"]:
            t = o["op"]["type"]
            if t in ("buy", "sell"):
                ctx.case(f"trade:{sc['interval']}:{t}:{'open' if is_open else ('hour-missing' if on_grid else 'off-hour')}:{o['out']}")
                if not is_open:
                    if o["out"] == "ok":
                        v("trade-accepted-on-closed-bar", f"{t} accepted at minute {now} (hour data {'missing' if on_grid else 'n/a: off the hour'})")
                    elif o["before"] != o["after"]:
                        v("closed-bar-trade-left-trace", f"{t} rejected at minute {now} but the market changed")
                if o["out"] not in ("ok", "DemeterError", "InsufficientBalanceError"):
                    v(f"trade-crash.{o['out']}", f"{t} at minute {now} raised {o['out']}")
        # ---- settlement
        pre, post = bar["pre"], bar["post"]
        if L.has_nan(pre["book"]):
            ctx.count("bars_whose_book_has_nan_rows")        # judged through what follows from it: settlement, trades, (C01) the reported value
        due = [p for p in pre["positions"] if on_grid and p["expiry"] <= now]
        keep = [p for p in pre["positions"] if not (on_grid and p["expiry"] <= now)]
        post_keys = [p["key"] for p in post["positions"]]
        for p in pre["positions"]:
            if p["key"] not in post_keys and p not in due:
                why = "before its expiry" if p["expiry"] > now else "on a bar that is not on the hourly grid"
                v("settled-early", f"{p['key']} (expiry minute {p['expiry']}) was removed at minute {now}, {why}")
        for p in due:
            if p["key"] in post_keys:
                v("not-settled-at-first-open-bar", f"{p['key']} (expiry minute {p['expiry']}) still held after the on-grid bar at minute {now}")
        if post["positions"] != keep and not any(p["key"] in post_keys for p in due):
            v("settlement-touched-other-positions", f"positions after update at minute {now} differ from the non-due positions")
        upd_actions = [L.dump_action(a) for a in bar["actions"][bar["n_actions_pre"]:bar["n_actions_post"]]]
        exp_names = [a["name"] for a in upd_actions if a["type"] == "expired"]
        del_names = [a["name"] for a in upd_actions if a["type"] == "deliver"]
        if sorted(exp_names) != sorted(p["key"] for p in due):
            v("expired-records", f"minute {now}: Expired records {exp_names} but due positions {[p['key'] for p in due]}")
        want_cash = pre["cash"]
        for p in due:
            row = row_at(sc, now, p["name"]) if hour_present(sc, now) else None
            if row is not None:
                S, mark, present = Fraction(row["underlying"]), Fraction(row["mark"]), "row-present"
            else:
                S, mark = Fraction(prices.loc[L.ts_of(now)]["ETH"]), Fraction(0)
                present = "row-absent" if hour_present(sc, now) else "hour-missing"
            pay, gross, fee, cls = expected_payoff(p, S, mark)
            want_cash += pay
            n_del = del_names.count(p["key"])
            if n_del != (1 if pay > 0 else 0):
                # a one-step float deviation can flip gross <= fee; judged below through the cash tolerance
                if not (gross is not None and abs(gross - fee) <= STEP):
                    v("deliver-records", f"minute {now}: {n_del} Deliver records for {p['key']} whose payoff is {L.fmt(pay)}")
            expired_seen[p["key"]] = expired_seen.get(p["key"], 0) + 1
            exp_cls = "first-bar" if bi == 0 else ("on-expiry-hour" if p["expiry"] == now else "later-hour")
            ctx.case(f"settle:{sc['interval']}:{p['kind']}:{cls}:{present}:{exp_cls}",
                     {"position": L.canon(p), "S": L.fmt(S), "mark": L.fmt(mark), "payoff": L.fmt(pay), "minute": now})
        dev = abs(post["cash"] - want_cash)
        if dev > STEP * len(due) + Fraction(1, 10 ** 20):
            v("payoff", f"minute {now}: cash {L.fmt(pre['cash'])} -> {L.fmt(post['cash'])}, the property's payoff formula gives {L.fmt(want_cash)}")
        elif dev != 0:
            ctx.count("payoff_one_step_deviations")
        if not due and upd_actions:
            v("settlement-records-without-settlement", f"minute {now}: {[a['type'] for a in upd_actions]}")
        if post["wallet"] != pre["wallet"]:
            v("settlement-touched-wallet", f"minute {now}")
        # ---- positions opened after update() (after_bar / notify): `C16_barX_due_survivor_was_opened_by_a_late_hook` — a due position at the
        # end of an on-grid bar did not exist (as that record) after update(), a late call named its key and was accepted, and the bar's data
        # lists the instrument as open; it is settled by the next on-grid bar (checked there through `due`)
        final = bar.get("final")
        if on_grid and final is not None:
            late_ok = set(o["op"].get("name") for o in bar["ops"] if o["phase"] in ("after", "notify") and o["op"]["type"] == "buy" and o["out"] == "ok")
            for p in final["positions"]:
                if p["expiry"] <= now:
                    row = row_at(sc, now, p["name"]) if hour_present(sc, now) else None
                    listed = row is not None and row["state"] == "open"
                    if p in post["positions"]:
                        v("due-position-left-after-on-grid-bar", f"{p['key']} (expiry minute {p['expiry']}) is still held at the end of the on-grid bar at minute {now}")
                    elif p["key"] not in late_ok or not listed:
                        v("due-position-at-bar-end-not-from-a-late-hook", f"{p['key']} (expiry minute {p['expiry']}) is held at the end of minute {now}; "
                          f"late buys accepted: {sorted(late_ok)}, instrument listed as open: {listed}")
                    else:
                        ctx.case(f"late-hook:{sc['interval']}:expired-instrument-bought-after-update:{'settling-bar' if any(q['key'] == p['key'] for q in due) else 'later-bar'}",
                                 {"minute": now, "position": L.canon(p)})
                        ctx.count("due_positions_opened_by_late_hooks")
    ctx.count("positions_settled", sum(expired_seen.values()))


# ------------------------------------------------------------------------------------------ model
def model_request(sc, rec, prices, dm):
    books, book_idx = [], {}
    bars = []
    hours_present = set(m for m, rows in sc["hours"] if rows)
    width = max(60, INTERVAL_MIN.get(sc["interval"], 1))
    for bar in rec:
        now = bar["now"]
        hm = now - now % width
        if hm not in book_idx:
            rows = list(bar_rows(sc, now).values())
            rows.sort(key=lambda r: r["name"])               # the frame is sorted by (time, instrument_name)
            book_idx[hm] = len(books)
            books.append(L.dump_book(L.book_frame(rows)) if rows else [])
        ops = {"before": [], "on": [], "after": [], "notify": []}
        for op in sc["script"].get(now, []):
            ops[op.get("phase", "on")].append(L.op_json(op))
        # `flagOpen` / `book` are what this harness expects; the driver does not read them when `frame` is sent (Demeter/Deribit/Frame.lean:
        # the model derives both from the option frame: `timestamp in _data.index`, `_data.loc[timestamp.floor("1h")]`)
        bars.append({"now": now, "flagOpen": bool(now % width == 0 and books[book_idx[hm]]) if width > 60 else now in hours_present,
                     "book": book_idx[hm], "price": Fraction(prices.loc[L.ts_of(now)]["ETH"]), "priceDec": True,
                     "ops": ops["before"] + ops["on"], "opsAfter": ops["after"], "opsNotify": ops["notify"]})
    pos = []
    for p in sc["positions"]:
        pos.append({"key": p["name"], "name": p["name"], "expiry": p["expiry"], "strike": Fraction(p["strike"]), "kind": p["kind"],
                    "amount": Fraction(p["amount"]), "avgBuy": Fraction(1, 100), "buyAmt": Fraction(p["amount"]), "avgSell": Fraction(0),
                    "sellAmt": Fraction(0)})
    state = {"cash": Fraction(sc["cash"]), "positions": pos, "book": [], "wallet": [["ETH", Fraction(sc["wallet"])], ["USDC", Fraction(1000)]],
             "allowNeg": False, "cache": None, "flagOpen": True, "now": 0, "price": Fraction(0), "priceDec": True}
    # the option frame as the market holds it (after resampling on a grid coarser than one hour): the timestamps that carry rows
    frame = [{"t": hm, "book": bi} for hm, bi in sorted(book_idx.items()) if books[bi]]
    return {"fn": "bars", "cfg": "ETH", "ctx": "py", "float": "ieee", "state": L.canon(state), "books": L.canon(books), "bars": L.canon(bars),
            "frame": frame}


def compare(ctx, sc, rec, balances, ans, rep):
    if "error" in ans:
        ctx.disagree(f"driver error {ans['error']}", rep)
        return
    mb = ans["bars"]
    if len(mb) != len(rec):
        ctx.disagree(f"bar count impl {len(rec)} model {len(mb)}", rep)
        return
    for i, (bar, m) in enumerate(zip(rec, mb)):
        m = L.parse_back(m)
        outs = [o["out"] for o in bar["ops"]]
        if outs != m["outcomes"]:
            ctx.disagree(f"minute {bar['now']}: outcomes impl {outs} model {m['outcomes']}", dict(rep, bar=i))
            return
        post = dict(bar["final"])
        post["book"] = []
        for o, mr in zip(bar["ops"], m.get("results", [])):
            if o["op"]["type"] == "balance" and o["out"] == "ok":
                dd = L.diff(o["res"], mr, "balance-read")
                if dd:
                    ctx.disagree(f"minute {bar['now']}: {o['phase']} {dd}", dict(rep, bar=i))
                    return
        ms = m["state"]
        ms["wallet"] = [[w[0], Fraction(w[1])] for w in mb[i]["state"]["wallet"]]
        # the cached balance is refreshed by the account-status call that follows after_bar: compared through `balance` below
        d = L.diff({k: post[k] for k in ("cash", "positions", "wallet", "flagOpen", "now")},
                   {k: ms[k] for k in ("cash", "positions", "wallet", "flagOpen", "now")}, "state")
        if d is None:
            d = L.diff([L.dump_action(a) for a in bar["actions"][bar["n_actions_before"]:]], m["actions"], "actions")
        if d is None:
            d = L.diff(balances[i], m["balance"], "balance")
        if d:
            ctx.disagree(f"minute {bar['now']}: {d}", dict(rep, bar=i))
            return


def run_one(ctx, sc, reqs):
    rep = {"scenario": sc}
    try:
        a, dm, rec, balances, prices, mkey = run_real(sc)
    except Exception as e:  # noqa: BLE001 — a backtest that stops settles nothing
        first_missing = not hour_present(sc, 0)
        ctx.case(f"run-crash:{sc['interval']}:{type(e).__name__}")
        ctx.violate(f"run-crash.{type(e).__name__}.{'first-hour-missing' if first_missing else 'other'}",
                    f"Actuator.run stopped with {type(e).__name__}: {str(e)[:120]} (option data hours: "
                    f"{[m for m, rows in sc['hours'] if rows]}, first bar minute 0)", rep)
        return
    oracle(ctx, sc, rec, balances, prices, rep)
    family_notes(ctx, sc, rec)
    reqs.append((model_request(sc, rec, prices, dm), sc, rec, balances, rep))


def directed():
    """test_exercise / test_no_exercise of the suite, through the bar loop; expiry between two hours; row gone at expiry"""
    def ins(kind, strike, expiry, path, gone=False):
        return {"name": f"ETH-D-{strike}-{'C' if kind == 'CALL' else 'P'}", "kind": kind, "strike": strike, "expiry": expiry, "exp_cls": "directed",
                "gone": gone, "path": path}
    out = []
    for kind, strike, S in (("CALL", 1600, 1651.94), ("PUT", 1700, 1651.94), ("CALL", 1700, 1651.94), ("PUT", 1600, 1651.94), ("CALL", 1650, 1650.0),
                             # barely in the money, mark (0.0479) far above intrinsic: payoff 0.000125 < delivery fee 0.0003 -> nothing is paid
                             ("CALL", 1600, 1600.1), ("PUT", 1600, 1599.9)):
        for expiry, gone in ((60, False), (75, False), (60, True)):
            i = ins(kind, strike, expiry, [(S, 0.0479)] * 4, gone)
            hours = []
            for h in range(4):
                rows = []
                if not (gone and 60 * h >= expiry):
                    rows.append({"name": i["name"], "state": "open", "kind": kind, "strike": strike, "expiry": expiry, "mark": 0.0479, "underlying": S,
                                 "delta": 0.5, "gamma": 0.001, "asks": [[0.05, 145]], "bids": [[0.045, 70]]})
                else:
                    rows.append({"name": "ETH-OTHER-9999-C", "state": "open", "kind": "CALL", "strike": 9999, "expiry": 10 ** 6, "mark": 0.001,
                                 "underlying": 2000.0, "delta": 0.1, "gamma": 0.001, "asks": [[0.0015, 10]], "bids": [[0.0005, 10]]})
                hours.append((60 * h, rows))
            out.append({"interval": "1min", "n_hours": 4, "tick": 200000, "instrs": [i], "hours": hours,
                        "positions": [{"name": i["name"], "expiry": expiry, "strike": strike, "kind": kind, "amount": "2"}],
                        "script": {30: [{"type": "buy", "name": i["name"], "amount": 1}], 0: [{"type": "buy", "name": i["name"], "amount": 1}]},
                        "cash": "5", "wallet": "10"})
    return out


def late_hooks():
    """D-2: the expired instrument is still listed as open on the first on-grid bar at/after its expiry and the strategy buys it there from
    after_bar / notify — after that bar's update().  The held position is settled in that bar (one record); the late-bought one survives it and
    is settled by the next on-grid bar (a second record): `C16_late_hook_buy_is_settled_one_bar_late`.  With the row gone at expiry the late buy
    is refused (`C16_runX_settles_exactly_once`)."""
    out = []
    for interval in ("1min", "1h"):
        for phase in ("after", "notify"):
            for gone in (False, True):
                for expiry in (60, 75):
                    kind, strike, S = "CALL", 1600, 1651.94
                    name = f"ETH-L-{strike}-C"
                    i = {"name": name, "kind": kind, "strike": strike, "expiry": expiry, "exp_cls": "late-hook", "gone": gone, "path": [(S, 0.0479)] * 4}
                    hours = []
                    for h in range(4):
                        rows = [{"name": "ETH-OTHER-9999-C", "state": "open", "kind": "CALL", "strike": 9999, "expiry": 10 ** 6, "mark": 0.001,
                                 "underlying": 2000.0, "delta": 0.1, "gamma": 0.001, "asks": [[0.0015, 10]], "bids": [[0.0005, 10]]}]
                        if not (gone and 60 * h >= expiry):
                            rows.append({"name": name, "state": "open", "kind": kind, "strike": strike, "expiry": expiry, "mark": 0.0479, "underlying": S,
                                         "delta": 0.5, "gamma": 0.001, "asks": [[0.05, 145]], "bids": [[0.045, 70]]})
                        hours.append((60 * h, rows))
                    settle = 60 if expiry == 60 else 120
                    ops = [{"type": "buy", "name": name, "amount": 2, "phase": phase}]
                    if phase == "notify":
                        ops.insert(0, {"type": "deposit", "amount": Decimal("0.005")})
                    out.append({"interval": interval, "n_hours": 4, "tick": 200000, "instrs": [i], "hours": hours,
                                "positions": [{"name": name, "expiry": expiry, "strike": strike, "kind": kind, "amount": "2"}],
                                "script": {settle: ops}, "cash": "5", "wallet": "10"})
    return out


def coarse_gap():
    """interval 2h / 4h, a whole coarse bar without option data inside the life of the instrument, an in-the-money call that expires in the gap:
    it settles at the first on-grid bar at or after expiry -- the gap bar -- against the token price (the row is absent there)"""
    out = []
    for interval, n_hours, gap in (("2h", 8, (4, 5)), ("4h", 13, (4, 5, 6, 7)), ("2h", 8, (2, 3))):
        strike = 1900
        name = "ETH-G-1900-C"
        expiry = 60 * gap[0] + 30 if interval == "2h" else 60 * gap[0]
        hours = []
        for h in range(n_hours):
            rows = []
            if h not in gap:
                rows.append({"name": name, "state": "open", "kind": "CALL", "strike": strike, "expiry": expiry, "mark": 0.08, "underlying": 2060.0,
                             "delta": 0.5, "gamma": 0.001, "asks": [[0.085, 50]], "bids": [[0.075, 50]]})
            hours.append((60 * h, rows))
        ins = {"name": name, "kind": "CALL", "strike": strike, "expiry": expiry, "exp_cls": "directed-gap", "gone": False, "path": [(2060.0, 0.08)] * n_hours}
        out.append({"interval": interval, "n_hours": n_hours, "tick": 200000, "instrs": [ins], "hours": hours,
                    "positions": [{"name": name, "expiry": expiry, "strike": strike, "kind": "CALL", "amount": "3"}],
                    "script": {0: [{"type": "buy", "name": name, "amount": 2}]}, "cash": "5", "wallet": "10"})
    return out


def first_hour_missing():
    """the option frame has no rows for the hour of the first bar (files of that hour not collected)"""
    sc = directed()[0]
    sc = copy.deepcopy(sc)
    sc["hours"][0] = (0, [])
    sc["script"] = {}
    return sc


def round_step(x: Fraction, step: Fraction) -> Fraction:
    """round half up (away from zero) to a multiple of `step`"""
    n = x / step
    sg = -1 if n < 0 else 1
    n = abs(n)
    fl = n.numerator // n.denominator
    if n - fl >= Fraction(1, 2):
        fl += 1
    return sg * fl * step


def btc_settlement_steps(ctx, reqs):
    """update() of a BTC market (min_fee_decimal -8, delivery fee 0.015 %): the payoff formula with the BTC literals
    (`C16_payoff_formula_btc`), step-wise — oracle on the implementation's cash, and the model's answer for the same state."""
    rng = ctx.rng
    step = Fraction(1, 10 ** 8)
    for _ in range(ctx.scale(24, 600)):
        S = rng.choice((26000.0, 27000.5, 27350.25, 31000.0))
        book, positions, want = [], [], Fraction(0)
        n = rng.randint(1, 3)
        for j in range(n):
            kind = rng.choice(("CALL", "PUT"))
            strike = rng.choice((25000, 26500, 27000, 27300, 27400, 28000, 33000))
            amt = Decimal(rng.choice(("0.1", "0.3", "1.2", "2", "0.7")))
            due = rng.random() < 0.8
            expiry = rng.choice((60, 75, 120)) if due else 600
            listed = rng.random() < 0.7
            mark = rng.choice((0.0479, 0.0005, 0.00001234, 0.2))
            name = f"BTC-{j}-{strike}-{kind[0]}"
            if listed:
                book.append({"name": name, "state": "open", "kind": kind, "strike": strike, "expiry": expiry, "mark": mark, "underlying": S,
                             "delta": 0.5, "gamma": 0.001, "asks": [[0.06, 5]], "bids": [[0.04, 5]]})
            positions.append({"name": name, "expiry": expiry, "strike": strike, "kind": kind, "amount": str(amt)})
            if due:
                Sq = Fraction(S) if listed else Fraction(Decimal("27100.5"))
                mq = Fraction(mark) if listed else Fraction(0)
                K, a = Fraction(strike), Fraction(amt)
                itm = (kind == "CALL" and K < Sq) or (kind == "PUT" and K > Sq)
                cls = "OTM"
                if itm:
                    gross = round_step(a * abs(Sq - K) / Sq, step)
                    fee = round_step(min(DELIVERY_FEE * a, MAX_FEE * a * round_step(mq, step)), step)
                    cls = "ITM" if gross > fee else "ITM-below-fee"
                    if gross > fee:
                        want += gross - fee
                ctx.case(f"settle-step:BTC:{kind}:{cls}:{'row-present' if listed else 'row-absent'}")
        if not book:
            book.append({"name": "BTC-OTHER-99999-C", "state": "open", "kind": "CALL", "strike": 99999, "expiry": 10 ** 6, "mark": 0.001,
                         "underlying": S, "delta": 0.1, "gamma": 0.001, "asks": [[0.0015, 10]], "bids": [[0.0005, 10]]})
        rig = L.Rig(book, now=120, token="BTC", cash=Decimal(1), positions=positions, price=Decimal("27100.5"))
        S1 = L.dump_state(rig)
        n0 = len(rig.actions)
        out, res = L.apply_op(rig, {"type": "update"})
        S2 = L.dump_state(rig)
        acts = [L.dump_action(a) for a in rig.actions[n0:]]
        rep = {"btc_settlement": {"book": book, "positions": positions}}
        n_due = sum(1 for p in positions if p["expiry"] <= 120)
        if out != "ok":
            ctx.violate(f"btc-update-crash.{out}", f"update() of a BTC market raised {out}", rep)
        else:
            dev = abs(S2["cash"] - S1["cash"] - want)
            if dev > step * n_due:
                ctx.violate("btc-payoff", f"BTC update(): cash {L.fmt(S1['cash'])} -> {L.fmt(S2['cash'])}, the property's formula (8 decimals, 0.015 %) gives +{L.fmt(want)}", rep)
            elif dev != 0:
                ctx.count("payoff_one_step_deviations")
            left = [p["key"] for p in S2["positions"]]
            if left != [p["name"] for p in positions if p["expiry"] > 120]:
                ctx.violate("btc-settled-set", f"BTC update() at minute 120 left {left}", rep)
        reqs.append(("btc-settlement", L.step_request(S1, {"type": "update"}, token="BTC"), out, res, S2, acts, rep))


def zero_underlying_steps(ctx, reqs):
    """update() on a state whose due, in-the-money position is quoted with an underlying price of 0 (outside the data contract
    `underlying > 0` of ASSUMPTIONS): `_deliver_option` divides by it — decimal.DivisionByZero on a Decimal token price (row gone from the
    book), decimal.InvalidOperation on a float (numpy inf -> Decimal('Infinity') -> quantize).  The model (`stepE`/`updateE`,
    Demeter/Deribit/Guard.lean) answers the same class and the same state: the due positions in front of the offending one are paid,
    nothing is removed.  Theorems about `update` carry the guard `SettleGuard` (Proofs/C16/Guard.lean)."""
    rng = ctx.rng
    def ins(name, kind, strike, expiry, under, mark=0.05):
        return {"name": name, "state": "open", "kind": kind, "strike": strike, "expiry": expiry, "mark": mark, "underlying": under,
                "delta": 0.5, "gamma": 0.001, "asks": [[0.06, 5]], "bids": [[0.04, 5]]}
    def pos(name, kind, strike, expiry, amount):
        return {"name": name, "expiry": expiry, "strike": strike, "kind": kind, "amount": str(amount)}
    for variant in ("float-row", "decimal-price", "float-price", "otm-zero", "not-due-zero", "off-grid-zero", "first-zero"):
        for _ in range(ctx.scale(2, 30)):
            strike = rng.choice((1500, 1600, 1650))
            amt = rng.choice((1, 2, 5))
            now = 120 if variant != "off-grid-zero" else 121
            exp_bad = 60 if variant != "not-due-zero" else 600
            lead = ins("ETH-A-%d-C" % (strike - 100), "CALL", strike - 100, 60, 1716.0)
            # the offending position: a put (in the money at underlying 0 whatever the strike); `otm-zero`: a call (strike > 0 = underlying, out of the money)
            bad_kind = "CALL" if variant == "otm-zero" else "PUT"
            bad = ins("ETH-B-%d-%s" % (strike, bad_kind[0]), bad_kind, strike, exp_bad, 0.0)
            tail = ins("ETH-Z-%d-C" % (strike - 50), "CALL", strike - 50, 60, 1716.0)
            positions = [pos(lead["name"], "CALL", strike - 100, 60, amt), pos(bad["name"], bad_kind, strike, exp_bad, amt),
                         pos(tail["name"], "CALL", strike - 50, 60, amt)]
            if variant == "first-zero":
                positions = [positions[1], positions[0], positions[2]]
            if variant in ("decimal-price", "float-price"):
                book, price = [lead, tail], (Decimal(0) if variant == "decimal-price" else 0.0)
            else:
                book, price = [lead, bad, tail], 1716.0
            rig = L.Rig(book, now=now, cash=Decimal(1), positions=positions, price=price)
            S = L.dump_state(rig)
            n0 = len(rig.actions)
            with warnings.catch_warnings():
                warnings.simplefilter("ignore")          # numpy: divide by zero encountered in scalar divide
                out, res = L.apply_op(rig, {"type": "update"})
            S2 = L.dump_state(rig)
            acts = [L.dump_action(a) for a in rig.actions[n0:]]
            raises = variant in ("float-row", "decimal-price", "float-price", "first-zero")
            ctx.case(f"update:zero-underlying:{variant}:{out}", {"variant": variant})
            rep = {"zero_underlying": variant, "strike": strike, "amount": amt}
            held = [p["key"] for p in S2["positions"]]
            if raises:
                want_cls = "DivisionByZero" if variant == "decimal-price" else "InvalidOperation"
                if out != want_cls:
                    ctx.disagree(f"update() with a due in-the-money position at underlying 0 ({variant}): expected {want_cls}, impl {out}", rep)
                elif held != [p["name"] for p in positions]:
                    ctx.disagree(f"update() raised {out} ({variant}) but the positions changed: {held}", rep)
            elif out != "ok":
                ctx.disagree(f"update() ({variant}): underlying 0 on a position that is not settled in the money, impl raised {out}", rep)
            reqs.append((f"zero-underlying:{variant}", L.step_request(S, {"type": "update"}), out, res, S2, acts, rep))


def run(ctx: Ctx):
    reqs = []
    scs = (directed() + late_hooks() + coarse_gap() + [first_hour_missing()]) if not ctx.search else []
    n = ctx.scale(26, 800)
    for _ in range(n):
        scs.append(gen_scenario(ctx.rng))
    for i in range(ctx.scale(28, 800)):
        scs.append(FAMILIES[i % len(FAMILIES)](ctx.rng))
    for sc in scs:
        run_one(ctx, sc, reqs)
    ctx.impl_traces = len(scs)
    if ctx.driver_ok:
        out = driver_json([r[0] for r in reqs], exe=L.EXE)
        for (req, sc, rec, balances, rep), ans in zip(reqs, out):
            compare(ctx, sc, rec, balances, ans, rep)
    # the raising path of update(): underlying price 0 (step-wise, model `stepE`)
    zreqs = []
    if not ctx.search:
        zero_underlying_steps(ctx, zreqs)
        btc_settlement_steps(ctx, zreqs)
    if ctx.driver_ok and zreqs:
        answers = L.model_answers([r[1] for r in zreqs])
        for (tag, req, out, res, S2, acts, rep), ans in zip(zreqs, answers):
            L.compare_step(ctx, tag, None, None, out, res, S2, acts, ans, rep)


def restore(sc):
    sc = copy.deepcopy(sc)
    for m, rows in sc["hours"]:
        for i in rows:
            for k in ("asks", "bids"):
                i[k] = [[float(p), float(s) if isinstance(s, str) else s] for p, s in i[k]]
            i["mark"], i["underlying"] = float(i["mark"]), float(i["underlying"])
    sc["hours"] = [(m, rows) for m, rows in sc["hours"]]
    script = {}
    for m, ops in sc["script"].items():
        fixed = []
        for o in ops:
            o = dict(o)
            if isinstance(o.get("amount"), str):
                o["amount"] = Decimal(o["amount"])
            fixed.append(o)
        script[int(m)] = fixed
    sc["script"] = script
    return sc


def replay(ctx: Ctx, case) -> bool:
    sub = Ctx(ctx.prop, ctx.tier, ctx.seed, False)
    if "zero_underlying" in case or "btc_settlement" in case:
        (zero_underlying_steps if "zero_underlying" in case else btc_settlement_steps)(sub, [])
        for v in sub.violations:
            print("  ", v["key"], v["what"])
        return not sub.violations and not getattr(sub, "disagreements", [])
    run_one(sub, restore(case["scenario"]), [])
    for v in sub.violations:
        print("  ", v["key"], v["what"])
    return not sub.violations
