"""C03 — decided market by market; see multi.py and the part modules c03_*.py."""
import multi
multi.install(globals(), "C03", "cases are bucketed per part by (operation, branch tag, outcome/rejection cause, argument class).")
