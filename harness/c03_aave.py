"""C03 (Aave part) — with the bar frozen, supply / withdraw / borrow / repay (cash or collateral) / change_collateral,
accepted or rejected, conserve the account's net value up to wallet dust (1e-5 of a wallet balance the call touches),
the 1e-18 residue clamp of `sub_base_amount` on a touched position, and — in the *reported* figure — the 4-dp quantum
of `get_market_balance`; the end-of-bar liquidation never raises it; no wallet balance, scaled supply or scaled debt
ever becomes negative; a withdrawal never pays out more than the supply, a repayment never takes more than the debt
(beyond the 18-digit rounding the code applies).

Oracle: exact `Fraction` valuation of the implementation's raw state (wallet, `_supplies`, `_borrows`, indices, prices)
before and after every call.  Correspondence: each step replayed on the model (driver_aave).
"""
from __future__ import annotations

from decimal import Decimal as D
from fractions import Fraction as F

import aave_lib as A
from common import Ctx, driver_json

PROPERTY = "C03"
LEAN_MODULES = ["Proofs.C03.Aave"]
DRIVERS = ["driver_aave"]
RULE = ("[aave] operation sequences inside one frozen bar (amounts: fractions of the balance, the exact balance, balance×(1±1e-6/1e-9/1e-20), "
        "×10, 1e-18..1e-9, zero, negative, unknown token); bucket = (operation, model outcome/rejection cause, argument class)")
TRUSTED = ["[aave] value conservation is proved for exact rational arithmetic; the 35-digit rounding of the code is measured on every step "
           "(exact_vs_impl_max_rel_dev) and absorbed by a 1e-28 relative slack in the oracle"]
ASSUMPTIONS = ["[aave] indices and prices of the bar are positive; broker.allow_negative_balance is False"]

DUST = F(1, 10 ** 5)
CLAMP = F(1, 10 ** 18)
SLACK = F(1, 10 ** 28)


def fr(x):
    return F(x) if not isinstance(x, str) else F(D(x))


def valuation(state, env):
    """(wallet value, supplies value, debts value) from the raw dumped state, exact"""
    price = {t: F(p) for t, p in env["price"].items()}
    w = sum((fr(b) * price.get(t, F(0)) for t, b in state["wallet"]), F(0))
    s = sum((fr(v["base"]) * F(env["status"][t]["liqIdx"]) * price[t] for t, v in state["supplies"]), F(0))
    d = sum((fr(v["base"]) * F(env["status"][t]["varIdx"]) * price[t] for t, v in state["borrows"]), F(0))
    return w, s, d


def check_step(ctx: Ctx, env, s0, s1, op, outcome, case):
    """the C03 predicate on one observed step; returns the relative deviation measured"""
    w0, a0, d0 = valuation(s0, env)
    w1, a1, d1 = valuation(s1, env)
    nv0, nv1 = w0 + a0 - d0, w1 + a1 - d1
    price = {t: F(p) for t, p in env["price"].items()}
    touched = [t for t in (op.get("tok"), op.get("collTok")) if t is not None and t in price]
    wal0 = dict((t, fr(b)) for t, b in s0["wallet"])
    wal1 = dict((t, fr(b)) for t, b in s1["wallet"])
    dust = sum((DUST * abs(wal0.get(t, F(0))) * price[t] for t in touched), F(0))
    for t in touched:
        st = env["status"].get(t)
        if st is not None:
            dust += CLAMP * (F(st["liqIdx"]) + F(st["varIdx"])) * price[t]
    dust += SLACK * (abs(nv0) + abs(a0) + abs(d0) + 1)
    k = op["kind"]
    key = f"{k}:{outcome}"
    # ---- no value created (every op, accepted or rejected)
    if nv1 - nv0 > dust:
        ctx.violate(f"aave.value-created:{key}", f"{op} ({outcome}) raised the net value from {float(nv0):.12g} to {float(nv1):.12g} "
                    f"(allowed dust {float(dust):.3g})", case)
    # ---- conserved by supply/withdraw/borrow/repay/change_collateral
    if k in ("supply", "withdraw", "borrow", "repay", "changeCollateral", "read") and abs(nv1 - nv0) > dust:
        ctx.violate(f"aave.not-conserved:{key}", f"{op} ({outcome}) changed the net value by {float(nv1 - nv0):.6g} (allowed dust {float(dust):.3g})", case)
    # ---- nothing negative
    for t, b in s1["wallet"]:
        if fr(b) < 0 and wal0.get(t, F(0)) >= 0:
            ctx.violate(f"aave.negative-wallet:{key}", f"{op} ({outcome}) left wallet[{t}] = {b}", case)
    sup0 = dict((t, fr(v["base"])) for t, v in s0["supplies"])
    bor0 = dict((t, fr(v["base"])) for t, v in s0["borrows"])
    for t, v in s1["supplies"]:
        if fr(v["base"]) < 0 and sup0.get(t, F(0)) >= 0:
            ctx.violate(f"aave.negative-supply:{key}", f"{op} ({outcome}) left the scaled supply of {t} at {v['base']}", case)
    for t, v in s1["borrows"]:
        if fr(v["base"]) < 0 and bor0.get(t, F(0)) >= 0:
            ctx.violate(f"aave.negative-debt:{key}", f"{op} ({outcome}) left the scaled debt of {t} at {v['base']}", case)
    # ---- no over-redemption
    if outcome == "ok" and k == "withdraw":
        t = op["tok"]
        held = dict((x, fr(v["base"])) for x, v in s0["supplies"]).get(t, F(0)) * F(env["status"][t]["liqIdx"])
        paid = wal1.get(t, F(0)) - wal0.get(t, F(0))
        # `paid` is read off the wallet, whose own 35-digit rounding is relative to the wallet balance
        if paid > held * (1 + SLACK) + SLACK * (abs(wal0.get(t, F(0))) + abs(wal1.get(t, F(0)))):
            ctx.violate("aave.over-redemption:withdraw", f"{op} paid out {float(paid):.12g} {t} of a supply of {float(held):.12g}", case)
    if outcome == "ok" and k == "repay":
        t = op["tok"]
        owed = dict((x, fr(v["base"])) for x, v in s0["borrows"]).get(t, F(0))
        left = dict((x, fr(v["base"])) for x, v in s1["borrows"]).get(t, F(0))
        idx = F(env["status"][t]["varIdx"])
        if not op.get("withColl"):
            paid = wal0.get(t, F(0)) - wal1.get(t, F(0))
            # the code accepts a scaled over-payment below 5e-19 (round(.., 18) >= 0); Asset.sub may also take the last 1e-5 of the balance
            if paid > (owed + F(5, 10 ** 19)) * idx * (1 + SLACK) + DUST * abs(wal0.get(t, F(0))) + SLACK * abs(wal0.get(t, F(0))):
                ctx.violate("aave.over-redemption:repay", f"{op} took {float(paid):.12g} {t} for a debt of {float(owed * idx):.12g}", case)
        if left > owed:
            ctx.violate("aave.debt-grew:repay", f"{op} increased the scaled debt {owed} -> {left}", case)
    ctx.dev(nv0, nv1) if k in ("supply", "withdraw", "borrow", "repay") and outcome == "ok" else None


def run_sequence(ctx: Ctx, rng, nsteps, reqs, meta, exact_env):
    env = A.gen_env(rng, exact=exact_env)
    m, b, actions = A.new_market(env, A.initial_wallet(rng, env))
    for i in range(nsteps):
        r = rng.random()
        if r < 0.04:
            op = {"kind": "update"}
        elif r < 0.10:
            op = {"kind": "read", "view": rng.choice(A.VIEWS0)}
        else:
            op = A.gen_op(rng, m, b, env, malformed=0.2)
        s0 = A.dump_state(m, b, actions, len(actions))
        n0 = len(actions)
        outcome, result = A.apply_op(m, op)
        s1 = A.dump_state(m, b, actions, n0)
        case = {"env": A.env_json(env), "state": s0, "op": op}
        check_step(ctx, env, s0, s1, op, outcome, case)
        reqs.append(A.step_request(env, s0, op))
        meta.append((case, outcome, result, s1))
        ctx.impl_traces += 1


def run(ctx: Ctx):
    rng = ctx.rng
    nseq = ctx.scale(80, 3000)
    reqs, meta = [], []
    for i in range(nseq):
        run_sequence(ctx, rng, rng.randint(6, 24), reqs, meta, exact_env=(i % 3 == 2))
    if ctx.driver_ok:
        outs = driver_json(reqs, exe=A.EXE)
        for (case, outcome, result, s1), o in zip(meta, outs):
            op = case["op"]
            if "error" in o:
                ctx.disagree(f"[aave] driver error {o['error']}", case)
                continue
            ctx.case(f"aave:{op.get('view', op['kind'])}:{o['tag']}:{A.arg_class(op)}", {"op": op, "outcome": outcome})
            if o["outcome"] != outcome:
                ctx.disagree(f"[aave] {op}: impl {outcome} model {o['outcome']}/{o['tag']}", case)
                continue
            d = A.diff(s1, o["state"])
            if d:
                ctx.disagree(f"[aave] {op} ({outcome}/{o['tag']}): state after differs at {d[:300]}", case)
    else:
        for case, outcome, _, _ in meta:
            ctx.case(f"aave:{case['op']['kind']}:{outcome}")


def replay(ctx: Ctx, case) -> bool:
    env = A.env_from_json(case["env"])
    m, b, actions = A.new_market(env)
    A.load_state(m, b, case["state"])
    m.is_open = env.get("isOpen", True)
    s0 = A.dump_state(m, b, actions, 0)
    outcome, _ = A.apply_op(m, case["op"], env)
    s1 = A.dump_state(m, b, actions, 0)
    sub = Ctx(ctx.prop, ctx.tier, ctx.seed, False)
    check_step(sub, env, s0, s1, case["op"], outcome, case)
    for v in sub.violations:
        print("  ", v["key"], v["what"])
    return not sub.violations
