"""C05 — each bar once, in order, fixed phase order; logs aligned (Actuator.run through real Actuator/Broker/Strategy/Market
base class objects; the markets are small in-memory subclasses of demeter.broker.Market)."""
from __future__ import annotations

import contextlib
import io
import json
import traceback

import pandas as pd

from common import Ctx, driver_json
import core_lib as cl
import c18 as trig
import c05_real

PROPERTY = "C05"
LEAN_MODULES = ["Proofs.C05", "Proofs.C05.Refresh", "Proofs.C05.Hooks", "Proofs.C05.Finalize", "Proofs.C05.BarIndex", "Proofs.C05.Clock", "Proofs.C05.Strict", "Proofs.C05.Prefix"]
DRIVERS = ["driver_core"]
RULE = ("random runs: 1..3 markets (minutely, hourly, hourly option book with 2..80 rows per timestamp — sometimes more rows than the longest market has "
        "minutes —, with gaps, starting late / ending early), bar interval 1/2/3/5/7/15/45/60 min (string forms "
        "'1min', 'min', '5min', '1h', 'h'), 1..400 bars, price frame covering / not covering the data, 0..3 time triggers, scripted strategy "
        "whose hooks (initialize / before_bar / trigger actions / open callbacks / on_bar / after_bar / notify) run statement lists: accepted and "
        "refused operations (from inside notify() too: answers to delivered actions, up to three levels deep, also on the last bar; from finalize() "
        "after the last bar, with answers from notify()), "
        "strategy.triggers.append of a new trigger / remove of an installed one (from trigger actions while the loop iterates the list, and "
        "between loops), raise of HookError / HookRuntimeError / DemeterError at a random place of a random hook on a random bar (first, last, "
        "middle), and markets whose update() records actions; after a run (failed or not) the same Actuator and strategy object run again; "
        "fixed cases: minutely market + 2 h x 80-row book, 2-3 markets with a write only on a later-registered one, answers from notify(), a raise "
        "in each of the seven hooks x bar {0, 2, 3, 5} x class, self-removing / installing / earlier-removing trigger actions; a run that a hook "
        "ended is judged against a fresh run of the same strategy without the raise (calls, account history, actions: prefixes; second run: equal); "
        "markets (probe markets at random, the real UniLpMarket always) whose set_market_status looks the row up unguarded — KeyError on a bar "
        "without a row, as five of the six real classes do (observed on the real objects and compared with the flags the model reads from the source); "
        "real-market stream (harness/c05_real.py, oracle only): UniLpMarket(weth/osqth) + SqueethMarket under a real Actuator with scripted calls from "
        "before_bar/on_bar/after_bar/finalize — accepted, refused, and failing with another exception class (KeyError from a vault key / position "
        "that does not exist), all caught by the strategy —, and UniLpMarket + DeribitOptionMarket with an option expiring inside the run, with and "
        "without rows for the expiry hour: every returning call has its record(s), stamped with its bar, delivered once in that bar; expiry records "
        "in the bar of the expiry; "
        "bucket = (interval class, market mix, bars class, phases with operations, second refresh seen, closed-market rejection seen, outcome, "
        "hook that raised, list changes, second run)")
TRUSTED = ["pandas resample/loc internals are exercised, not modelled: the model's resampled index and 'first row of the bin' rule are compared with what pandas produced on every run",
           "the concrete markets' own set_market_status/update bodies are the subject of other properties; here they are abstract (ProbeMarket in harness/core_lib.py)",
           "what the `except RuntimeError` handler of the bar loop does besides re-raising (print, _generate_account_status_df, save_result into the working "
           "directory) is observed, not modelled, except for its one visible effect on the outcome: IndexError when no account row exists yet"]
ASSUMPTIONS = ["a scripted hook catches the refusal of its own operations; what it does not catch is a scripted raise (any statement position, three exception classes)",
               "hooks change strategy.triggers in place with append (a new object) / remove (an installed object); list.insert and rebinding the attribute while "
               "the trigger loop runs are not modelled",
               "a notify() hook that answers every delivery with a new accepted operation, or trigger actions that keep installing triggers that fire at once, "
               "never return (the code iterates the live lists): generated scripts answer at most three levels deep",
               "frames have a non-decreasing time index (several rows per timestamp allowed: an option book)"]

INTERVALS = ((1, "1min"), (1, "1min"), (1, "min"), (5, "5min"), (5, "5min"), (15, "15min"), (60, "1h"), (60, "h"), (60, "60min"),
             (2, "2min"), (3, "3min"), (7, "7min"), (45, "45min"), (30, "30min"))


# ------------------------------------------------------------------------------------------ generator
def gen_case(rng, big=False):
    interval, istr = rng.choice(INTERVALS)
    step = 60 * interval
    start = 60 * rng.randint(0, 1200)
    nbars = rng.randint(1, 400 if big else 60) if rng.random() < 0.9 else rng.randint(1, 3)
    n_raw = max(1, min(interval * nbars, 2400))
    base = [start + 60 * i for i in range(n_raw)]
    nm = rng.choice((1, 1, 2, 2, 3))
    markets = []
    for i in range(nm):
        kind = rng.choice(("minutely", "minutely", "hourly", "gaps", "late", "short", "holes")) if i else rng.choice(("minutely", "minutely", "minutely", "gaps", "hourly", "holes"))
        if kind == "minutely":
            times = list(base)
        elif kind == "hourly":
            first = start - start % 3600 + (3600 if start % 3600 and rng.random() < 0.7 else 0)
            times = [t for t in range(first, base[-1] + 1, 3600)]
            if not times:
                times = [first]
        elif kind == "gaps":
            times = [t for t in base if rng.random() < 0.8] or [base[0]]
        elif kind == "holes":
            # runs of missing minutes, up to three bars long: on a coarse interval whole bars have no row at all
            times, t = [], 0
            while t < len(base):
                run = rng.randint(1, 4 * interval)
                if rng.random() < 0.45 and times:
                    t += run                              # a hole
                else:
                    times += base[t:t + run]
                    t += run
            times = times or [base[0]]
            if base[-1] not in times and rng.random() < 0.7:
                times.append(base[-1])
        elif kind == "late":
            k = rng.randint(0, max(0, len(base) - 1))
            times = base[k:]
        else:
            k = rng.randint(1, len(base))
            times = base[:k]
        mk = {"kind": kind, "times": times, "open": rng.random() < 0.4}
        if kind in ("holes", "gaps", "hourly") and rng.random() < (0.7 if kind == "holes" else 0.3):
            mk["sparse"] = True        # the market's own _resample drops the empty bins (the option book's does): closed on a bar that falls into a hole
        if kind == "hourly" and rng.random() < 0.5:
            # an option book: several rows per timestamp; sometimes more rows than the longest market has timestamps
            mk["kind"], mk["rows"] = "book", rng.choice((2, 3, 7, max(2, n_raw // max(1, len(times)) + 1), 80))
        if rng.random() < 0.25:
            mk["strict"] = True        # set_market_status looks the row up unguarded, as every real class but DeribitOptionMarket does: a bar
                                       # without a row ends the run with KeyError instead of finding the market closed
        markets.append(mk)
    if istr == "1min" and rng.random() < 0.35:       # a real UniLpMarket in the mix
        # UniLpMarket.set_market_status raises KeyError on a bar without a row (only Deribit tolerates that): strict
        times = list(base) if rng.random() < 0.7 else [t for t in base if rng.random() < 0.9] or [base[0]]
        markets = markets + [{"kind": "uni", "times": times, "open": rng.random() < 0.3, "strict": True}]
        nm += 1
    lo = min(m["times"][0] for m in markets)
    hi = max(m["times"][-1] for m in markets)
    r = rng.random()
    if r < 0.85:
        prices = list(range(lo - 60 * rng.randint(0, 3), hi + 60 * rng.randint(0, 3) + 1, 60))
    elif r < 0.93:
        prices = list(range(lo, hi - 60 * rng.randint(0, max(0, (hi - lo) // 120)) + 1, 60)) or [lo]      # ends early
    else:
        prices = list(range(lo + 60 * rng.randint(0, 5), hi + 1, 60)) or [hi]                                  # starts late
    specs = []
    for _ in range(rng.choice((0, 0, 1, 1, 2, 3))):
        sp = trig.gen_spec(rng, lo - lo % step, hi - hi % step, step)
        if trig.static_error(sp) is None or rng.random() < 0.1:
            specs.append(sp)
    # scripted strategy
    cnt = [0]

    def ops(pmax=3):
        out = []
        for _ in range(rng.choice((0, 0, 0, 1, 1, 2, pmax))):
            cnt[0] += 1
            out.append([rng.randrange(nm), rng.random() < 0.8, f"t{cnt[0]}", rng.random() < 0.8])
        return out
    rows = max(1, n_raw // interval + 2)
    dens = rng.choice((0.0, 0.1, 0.3, 0.7))
    sc = {"init": ops() if rng.random() < 0.3 else [], "before": [], "fire": [], "open": [], "on": [], "after": [], "upd": [], "notify": [],
          "fuel": 100000}
    pn = rng.choice((0.0, 0.0, 0.15, 0.4))        # how often the strategy answers a delivered action with operations of its own

    def answers(r_, tags, depth=0):
        """Strategy.notify acts on what it is told: operations issued from inside the hook (and answers to their deliveries, two levels deep)"""
        for tag in tags:
            if rng.random() < pn and depth < 3:
                o = ops(2)
                if o:
                    sc["notify"].append([r_, tag, o])
                    answers(r_, [x[2] for x in o], depth + 1)
    answers(0, [x[2] for x in sc["init"]])
    for r_ in range(rows):
        for key in ("before", "on", "after"):
            if rng.random() < dens:
                o = ops()
                if o:
                    sc[key].append([r_, o])
                    answers(r_, [x[2] for x in o])
        for i in range(len(specs)):
            if rng.random() < dens:
                o = ops()
                if o:
                    sc["fire"].append([r_, i, o])
                    answers(r_, [x[2] for x in o])
        for m in range(nm):
            if markets[m]["open"] and rng.random() < dens:
                o = ops()
                if o:
                    sc["open"].append([r_, m, o])
                    answers(r_, [x[2] for x in o])
            if markets[m]["kind"] != "uni" and rng.random() < dens / 3:
                cnt[0] += 1
                sc["upd"].append([r_, m, [f"u{cnt[0]}"] + ([f"u{cnt[0]}b"] if rng.random() < 0.3 else [])])
                answers(r_, sc["upd"][-1][2])
    if rng.random() < 0.3:
        # finalize() trades too (close everything at the end): accepted and refused operations, answered from notify() when delivered
        fo = ops()
        if fo:
            sc["fin"], sc["fin_notify"], sc["fin_fuel"] = fo, [], 100000
            for x in fo:
                if rng.random() < max(pn, 0.2):
                    o2 = ops(2)
                    if o2:
                        sc["fin_notify"].append([x[2], o2])
    case = {"interval": interval, "istr": istr, "markets": markets, "prices": prices, "specs": specs, "script": sc, "rerun": rng.random() < 0.35}
    nbars_run = len(expected_index(max(markets, key=lambda m: len(m["times"]))["times"], step, resampled(istr)))
    if rng.random() < 0.3:
        add_trigger_changes(rng, case, nbars_run, lo - lo % step, hi - hi % step, step)
    if rng.random() < 0.35:
        add_boom(rng, case, nbars_run)
        case["rerun"] = rng.random() < 0.7
    return case


def body_of(sc, key, r_, i=None):
    """the statement list of a hook on a bar (created if the script has none yet)"""
    if key == "init":
        return sc["init"]
    for e in sc[key]:
        if e[0] == r_ and (i is None or e[1] == i):
            return e[-1]
    e = [r_, []] if i is None else [r_, i, []]
    sc[key].append(e)
    return e[-1]


def add_trigger_changes(rng, case, nbars, lo, hi, step):
    """hooks that change strategy.triggers during the run: a trigger's own action removes it (one-shot), removes another one (installed before or
    behind it), installs a new trigger (which is evaluated later in the same loop and may itself install / remove); before_bar / on_bar /
    after_bar / notify install and remove triggers between two loops"""
    sc = case["script"]
    n0 = sum(1 for sp in case["specs"] if trig.should_construct(sp))
    ids = list(range(n0))
    nxt = [n0]

    def new_spec():
        for _ in range(50):
            sp = trig.gen_spec(rng, lo, hi, step)
            if trig.should_construct(sp) and trig.static_error(sp) is None and sp["k"] != "base":
                if rng.random() < 0.5:       # something that is due soon: every bar, or a range over the whole run
                    sp = rng.choice(({"k": "period", "kw": "{}", "d": step, "imm": True, "pend": 0},
                                     {"k": "range", "kw": "{}", "s": lo, "e": hi + step},
                                     {"k": "periods", "kw": "{}", "ds": [step, 2 * step], "imm": rng.random() < 0.5, "pend": 0}))
                sp = dict(sp, id=nxt[0])
                nxt[0] += 1
                ids.append(sp["id"])
                return sp
        return None
    rows = sorted(rng.sample(range(nbars), min(nbars, rng.randint(1, 6))))
    for r_ in rows:
        for _ in range(rng.choice((1, 1, 2, 3))):
            where = rng.choice(("fire", "fire", "fire", "before", "on", "after", "notify"))
            if where == "fire":
                if not ids:
                    continue
                body = body_of(sc, "fire", r_, rng.choice(ids))
            elif where == "notify":
                tags = [st[2] for key in ("before", "on", "after") for rr, o in sc[key] if rr == r_ for st in o if len(st) == 4 and isinstance(st[0], int)]
                if not tags:
                    continue
                tag = rng.choice(tags)
                ent = next((e for e in sc["notify"] if e[0] == r_ and e[1] == tag), None)
                if ent is None:
                    ent = [r_, tag, []]
                    sc["notify"].append(ent)
                body = ent[2]
            else:
                body = body_of(sc, where, r_)
            k = rng.random()
            if k < 0.45 or not ids:
                sp = new_spec()
                if sp is None:
                    continue
                st = ["tadd", sp]
                # what the new trigger's own action does when it fires on this bar or a later one
                for rr in rng.sample(range(r_, nbars), min(nbars - r_, rng.randint(0, 3))):
                    b2 = body_of(sc, "fire", rr, sp["id"])
                    q = rng.random()
                    if q < 0.3:
                        b2.append(["tdel", sp["id"]])                       # one-shot: removes itself
                    elif q < 0.5 and ids:
                        b2.append(["tdel", rng.choice(ids)])
                    elif q < 0.7:
                        b2.append([rng.randrange(len(case["markets"])), True, f"d{sp['id']}r{rr}", rng.random() < 0.7])
            else:
                st = ["tdel", rng.choice(ids)]
            body.insert(rng.randint(0, len(body)), st)
    # every trigger gets a chance to be seen firing around the changed ones
    sc["tfuel"] = 1000


def add_boom(rng, case, nbars):
    """one hook raises at one place: class, hook, bar and position inside the hook's body drawn at random (a hook that is not called on that bar —
    a trigger that is not due, a closed market's open callback, an action that is never delivered — leaves the run as it is)"""
    sc = case["script"]
    cls = rng.choice(("HookError", "HookError", "HookRuntimeError", "DemeterError"))
    r_ = rng.choice((0, 0, nbars - 1, rng.randrange(nbars), rng.randrange(nbars), rng.randrange(nbars)))
    where = rng.choice(("before", "on", "after", "before", "on", "after", "fire", "fire", "open", "notify", "notify", "init"))
    if where == "init":
        body = sc["init"]
    elif where == "fire":
        # the bodies of actions that exist already; a range / period trigger of the case is called on (nearly) every bar
        cands = [e for e in sc["fire"]] or None
        often = [i for i, sp in enumerate(s_ for s_ in case["specs"] if trig.should_construct(s_)) if sp["k"] in ("range", "ranges", "period", "periods")]
        if often and rng.random() < 0.6:
            cands = [[r_, i, body_of(sc, "fire", r_, i)] for i in often]
        if cands is None:
            n0 = sum(1 for sp in case["specs"] if trig.should_construct(sp))
            if not n0:
                where, body = "on", body_of(sc, "on", r_)
            else:
                body = body_of(sc, "fire", r_, rng.randrange(n0))
        else:
            body = rng.choice(cands)[2]
    elif where == "open":
        ms = [i for i, m in enumerate(case["markets"]) if m["open"]]
        if not ms:
            where, body = "after", body_of(sc, "after", r_)
        else:
            body = body_of(sc, "open", r_, rng.choice(ms))
    elif where == "notify":
        if sc["notify"] and rng.random() < 0.5:
            body = rng.choice(sc["notify"])[2]
        else:
            # answer the delivery of some recorded action with a raise
            tags = [(rr, st[2]) for key in ("before", "on", "after") for rr, o in sc[key] for st in o if len(st) == 4 and isinstance(st[0], int) and st[1]]
            tags += [(rr, t) for rr, _, ts_ in sc["upd"] for t in ts_]
            if not tags:
                b = body_of(sc, "on", r_)
                b.append([0, True, f"b{r_}", False])
                tags = [(r_, f"b{r_}")]
            rr, tag = rng.choice(tags)
            ent = next((e for e in sc["notify"] if e[0] == rr and e[1] == tag), None)
            if ent is None:
                ent = [rr, tag, []]
                sc["notify"].append(ent)
            body = ent[2]
    else:
        body = body_of(sc, where, r_)
    body.insert(rng.randint(0, len(body)), ["boom", cls])


# ------------------------------------------------------------------------------------------ implementation run
def run_impl(case):
    cl.setup()
    from demeter import Strategy
    from demeter._typing import DemeterError
    rec = cl.Recorder()
    rec.initialized = False
    a, ms, rec = cl.build([(f"m{i}", m["times"], m["open"], m["kind"], m.get("rows", 1), m.get("sparse", False), is_strict(m)) for i, m in enumerate(case["markets"])], case["prices"], case["istr"], rec)
    sc = case["script"]
    t_before, t_on, t_after, t_fire, t_open, t_notify, upd_by_row, t_fin_notify = {}, {}, {}, {}, {}, {}, {}, {}
    cur_sc = {"sc": sc}

    def load(script):
        """(re)fill the tables the hooks read: the same strategy object can be run again with another script"""
        cur_sc["sc"] = script
        for d in (t_before, t_on, t_after, t_fire, t_open, t_notify, upd_by_row, t_fin_notify):
            d.clear()
        t_fin_notify.update({tag: o for tag, o in script.get("fin_notify", [])})
        t_before.update({r: o for r, o in script["before"]})
        t_on.update({r: o for r, o in script["on"]})
        t_after.update({r: o for r, o in script["after"]})
        t_fire.update({(r, i): o for r, i, o in script["fire"]})
        t_open.update({(r, m): o for r, m, o in script["open"]})
        t_notify.update({(r, tag): o for r, tag, o in script.get("notify", [])})
        # update() scripts are keyed by row; ProbeMarket keys them by time: filled lazily from before_bar
        for r, m, tags in script["upd"]:
            upd_by_row.setdefault(r, []).append((m, tags))
        for m in ms:
            m.update_script = {}
    load(sc)
    ev = rec.ev
    state = {"row": 0}

    def now():
        return cl.sec(a._currents.timestamp)

    dyn = {}                 # id -> trigger object installed by a hook during the run (a new object every time the statement runs)

    def do_ops(hook, ops):
        for st in ops:
            if st[0] == "boom":
                raise cl.hook_exception(st[1])
            if st[0] == "tadd":
                sp = st[1]
                dyn[sp["id"]] = t = trig.construct(sp, mk_do(sp["id"]))
                ident[id(t)] = sp["id"]
                a.strategy.triggers.append(t)
                continue
            if st[0] == "tdel":
                t = trigs[st[1]] if st[1] < len(trigs) else dyn.get(st[1])
                if t is not None and t in a.strategy.triggers:
                    a.strategy.triggers.remove(t)
                continue
            m, ok, tag, gated = st
            if not gated:
                try:
                    ms[m].free_op(tag, ok)
                    ev(["free", now(), hook, m, tag, True])
                except Exception:  # noqa: BLE001
                    ev(["free", now(), hook, m, tag, False])
                continue
            try:
                ms[m].op(tag, ok)
                ev(["ok", now(), hook, m, tag])
            except DemeterError as e:
                ev(["rej", now(), hook, m, tag, "is not open" in str(e)])
            except Exception:  # noqa: BLE001   (the market's own refusal)
                ev(["rej", now(), hook, m, tag, False])

    made, trigs, ident = [], [], {}

    def mk_do(i):
        def do(snapshot, **kw):
            ev(["fire", cl.sec(snapshot.timestamp), i, cl.kw_str(kw)])
            do_ops(f"fire:{i}", t_fire.get((snapshot.row_id, i), []))
        return do
    for sp in case["specs"]:
        try:
            trigs.append(trig.construct(sp, mk_do(len(trigs))))
            made.append(None)
        except DemeterError:
            made.append("DemeterError")
    ident.update({id(t): i for i, t in enumerate(trigs)})

    def on_open(mid, snap):
        ev(["open", cl.sec(snap.timestamp), mid])
        do_ops(f"open:{mid}", t_open.get((snap.row_id, mid), []))
    rec.on_open = on_open

    def psrc(snap):
        return cl.price_src(snap.prices["USDC"])

    class S(Strategy):
        def initialize(self):
            rec.initialized = True
            ev(["initialize", now()])
            self.triggers.extend(trigs)
            do_ops("init", cur_sc["sc"]["init"])

        def before_bar(self, snap):
            for m, tags in upd_by_row.get(snap.row_id, []):
                ms[m].update_script[cl.sec(snap.timestamp)] = tags
            state["row"] = snap.row_id
            ev(["before", cl.sec(snap.timestamp), snap.row_id, psrc(snap)])
            do_ops("before", t_before.get(snap.row_id, []))

        def on_bar(self, snap):
            ev(["on", cl.sec(snap.timestamp), snap.row_id, psrc(snap)])
            do_ops("on", t_on.get(snap.row_id, []))

        def after_bar(self, snap):
            ev(["after", cl.sec(snap.timestamp), snap.row_id, psrc(snap)])
            do_ops("after", t_after.get(snap.row_id, []))

        def notify(self, action):
            ev(["notify", now(), action.comment, cl.sec(action.timestamp), [m.market_info for m in ms].index(action.market)])
            do_ops("notify", t_fin_notify.get(action.comment, []) if state.get("fin") else t_notify.get((state["row"], action.comment), []))

        def finalize(self):
            ev(["finalize", now()])
            left.extend(ident[id(t)] for t in self.triggers)      # still installed when the loop has ended
            state["fin"] = True
            do_ops("finalize", cur_sc["sc"].get("fin", []))

    a.strategy = S()
    left = []
    inner_status = a.broker.get_account_status

    def status(prices, timestamp=None):
        if rec.initialized:
            ev(["row", cl.sec(timestamp), cl.price_src(prices["USDC"])])
        return inner_status(prices, timestamp)
    a.broker.get_account_status = status
    import os
    import shutil
    import tempfile

    def go(script):
        """one Actuator.run() with the given script; what it did and what it left behind"""
        load(script)
        state["fin"] = False
        rec.events = []
        rec.initialized = False
        left.clear()
        dyn.clear()
        err, exc, saved = None, None, []
        # the handler of a RuntimeError that leaves the bar loop writes result files into the working directory
        tmp = tempfile.mkdtemp(prefix="c05-") if has_boom(script) else None
        cwd = os.getcwd()
        try:
            if tmp:
                os.chdir(tmp)
            with contextlib.redirect_stdout(io.StringIO()):      # the handler prints the timestamp of the failing bar
                a.run(print_result=False)
        except Exception as e:  # noqa: BLE001
            err = type(e).__name__
            rec.ev(["raised", err])
            exc = traceback.format_exc()
        finally:
            if tmp:
                os.chdir(cwd)
                saved = sorted(os.listdir(tmp))
                shutil.rmtree(tmp, ignore_errors=True)
        o = {"events": rec.events, "err": err, "exc": exc, "left": list(left), "saved": saved,
             "actions": [[x.comment, cl.sec(x.timestamp), [m.market_info for m in ms].index(x.market)] for x in a.actions],
             "status_ts": [cl.sec(s.timestamp) for s in a.account_status],
             "undelivered": [[x.comment, cl.sec(x.timestamp), [m.market_info for m in ms].index(x.market)] for x in a._currents.actions],
             "installed_after": len(a.strategy.triggers)}
        if err is None:
            df = a.account_status_df
            o["df_index"] = [cl.sec(t) for t in df.index]
            o["df_price"] = [cl.price_src(v) for v in df[("price", "USDC")]]
        return o

    obs = go(sc)
    obs["make"] = made
    if case.get("rerun") and not resampled(case["istr"]) and (obs["err"] is None or has_boom(sc)):
        # the same Actuator and the same strategy object run again on the same data (a run that resamples its frames in place cannot be repeated on
        # the same Actuator; an un-resampled one can): the trace of the second run must be the trace of the first — or, after a run that a hook
        # ended with an exception, the trace of a fresh run of the strategy without the raise
        # (the strategy installs its triggers from initialize() by extending self.triggers in place, on every run)
        first = obs["events"]
        second = go(strip_booms(sc))
        obs["second"] = second
        if obs["err"] is None:
            ev2 = second["events"]
            obs["rerun"] = None if ev2 == first and second["err"] is None else (
                ["raised", second["err"], (second["exc"] or "")[-100:]] if second["err"] is not None else
                next(([i, x, y] for i, (x, y) in enumerate(zip(ev2 + [None] * len(first), first + [None] * len(ev2))) if x != y), "length"))
    return obs


def is_strict(m):
    """does the market's set_market_status raise KeyError on a bar its frame has no row for (the real UniLpMarket does)"""
    return bool(m.get("strict", m["kind"] == "uni"))


def has_boom(script):
    return any(st and st[0] == "boom" for body in bodies(script) for st in body)


def bodies(script):
    yield script["init"]
    for key in ("before", "on", "after"):
        for _, o in script[key]:
            yield o
    for key in ("fire", "open"):
        for _, _, o in script[key]:
            yield o
    for _, _, o in script.get("notify", []):
        yield o


def strip_booms(script):
    def f(body):
        return [st for st in body if st[0] != "boom"]
    out = dict(script)
    out["init"] = f(script["init"])
    for key in ("before", "on", "after"):
        out[key] = [[r, f(o)] for r, o in script[key]]
    for key in ("fire", "open", "notify"):
        out[key] = [[r, i, f(o)] for r, i, o in script.get(key, [])]
    return out


# ------------------------------------------------------------------------------------------ the property, stated on the observed trace
PHASE_OF_HOOK = {"init": 2, "before": 5, "fire": 6, "open": 7, "on": 9, "after": 13, "notify": 15, "finalize": 17}


def phase(e):
    k = e[0]
    if k == "set":
        return {0: 0, 1: 3, 2: 10}[e[3]]
    if k in ("ok", "rej", "free"):
        return PHASE_OF_HOOK[e[2].split(":")[0]]
    return {"initialize": 1, "before": 4, "fire": 6, "open": 7, "on": 8, "update": 11, "uact": 11, "after": 12, "row": 14, "notify": 15,
            "finalize": 16}[k]


def resampled(istr):
    """_check_backtest puts a 1 in front of a unit-only interval; run() resamples unless the result is the string '1min'"""
    return (istr if istr[0].isdigit() else "1" + istr) != "1min"


def expected_index(times, step, resample):
    """the bar index: the frame's own index, or all bins (anchored at midnight of the first day) from the first to the last row"""
    if not resample:
        return list(times)
    o = times[0] - times[0] % 86400
    lo = o + (times[0] - o) // step * step
    hi = o + (times[-1] - o) // step * step
    return list(range(lo, hi + 1, step))


def market_index(m, step, resample):
    """the index a market's own frame has during the run: every bin between its first and last row, or (a market whose _resample drops
    the empty bins, like the option book's) only the bins that hold a row"""
    idx = expected_index(m["times"], step, resample)
    if resample and m.get("sparse"):
        ts = sorted(m["times"])
        import bisect
        idx = [b for b in idx if (lambda k: k < len(ts) and ts[k] < b + step)(bisect.bisect_left(ts, b))]
    return idx


def first_in_bin(times, ts, step, resample):
    if not resample:
        return ts if ts in set(times) else None
    for t in times:
        if ts <= t < ts + step:
            return t
    return None


def oracle(ctx, case, obs, rep):
    """C05 on the implementation's own trace.  Only for runs that ended normally."""
    full = [e for e in obs["events"]]
    # the loop ends with the finalize() call; what finalize() does and the deliveries after it are judged separately (`tail`)
    kfin = next((i for i, e in enumerate(full) if e[0] == "finalize"), None)
    ev = full if kfin is None else full[:kfin + 1]
    tail = [] if kfin is None else full[kfin + 1:]
    step = 60 * case["interval"]
    resample = resampled(case["istr"])
    nm = len(case["markets"])
    longest = max(case["markets"], key=lambda m: len(m["times"]))     # max() returns the first maximal element, like the code's filter()[0]
    bars = expected_index(longest["times"], step, resample)
    V = lambda key, what: ctx.violate(key, what, rep)  # noqa: E731
    # each bar once, in increasing order
    for name in ("before", "on", "after", "row"):
        got = [e[1] for e in ev if e[0] == name]
        if got != bars:
            V(f"Actuator.run:{name}-not-once-per-bar", f"{name} timestamps {got[:6]}… differ from the bar index {bars[:6]}… ({len(got)} vs {len(bars)}; markets "
              f"{[(m['kind'], len(m['times']), m.get('rows', 1)) for m in case['markets']]}: the index is that of the market with the most distinct timestamps)")
            return
    if [e[2] for e in ev if e[0] == "before"] != list(range(len(bars))):
        V("Actuator.run:row_id", "row ids are not 0..n-1")
    # fixed phase order: (bar, phase) never decreases along the trace
    keys = [(e[1], phase(e)) for e in ev]
    for i in range(1, len(keys)):
        if keys[i] < keys[i - 1]:
            V("Actuator.run:phase-order", f"event {ev[i]} follows {ev[i - 1]}: bar/phase order violated")
            break
    # update once per market per bar in market order; the first refresh touches every market
    if [(e[1], e[2]) for e in ev if e[0] == "update"] != [(t, m) for t in bars for m in range(nm)]:
        V("Actuator.run:update-not-once-per-market", "market.update() calls are not one per market per bar in broker order")
    if [(e[1], e[2]) for e in ev if e[0] == "set" and e[3] == 1] != [(t, m) for t in bars for m in range(nm)]:
        V("Actuator.run:first-refresh", "the first status refresh of a bar does not touch every market once")
    # the second refresh touches exactly the markets with an accepted operation earlier in the bar
    upd = {}
    for e in ev:
        if e[0] == "ok" and phase(e) <= 9 and phase(e) >= 5:
            upd.setdefault(e[1], set()).add(e[3])
    want2 = [(t, m) for t in bars for m in range(nm) if m in upd.get(t, ())]
    got2 = [(e[1], e[2]) for e in ev if e[0] == "set" and e[3] == 2]
    if got2 != want2:
        miss = [x for x in want2 if x not in got2]
        extra = [x for x in got2 if x not in want2]
        V("Actuator.run:second-refresh" + (":written-market-not-refreshed" if miss else ":unwritten-market-refreshed"),
          f"before the market update of a bar the status of exactly the markets written to in that bar is refreshed again; {nm} markets, "
          f"not refreshed although written to (bar, market): {miss[:4]}, refreshed although not written to: {extra[:4]} — the update then runs on a status "
          f"that does not contain the strategy's own write")
    # every accepted operation / update record yields one action stamped with its bar, delivered exactly once at the end of that bar
    recorded = []
    for e in full:
        if e[0] == "ok" or (e[0] == "free" and e[5]):
            recorded.append([e[4], e[1], e[3]])
        elif e[0] == "uact":
            recorded.append([e[3], e[1], e[2]])
    notified = [[e[2], e[3], e[4]] for e in full if e[0] == "notify"]
    if notified != recorded:
        lost = [x for x in recorded if x not in notified]
        from_fin = [x for x in lost if any(t[0] in ("ok", "free") and t[2] == "finalize" and t[4] == x[0] for t in tail)]
        if from_fin and notified == recorded[:len(notified)] and all(x in from_fin or any(t[2] == "notify" and t[4] == x[0] for t in tail if t[0] in ("ok", "free")) for x in lost):
            V("Actuator.notify:finalize-operation-never-delivered", f"operations accepted from finalize() are in Actuator.actions but were never handed to notify(): {from_fin[:4]} "
              f"(left in _currents.actions: {obs.get('undelivered', [])[:4]})")
        else:
            V("Actuator.notify:not-exactly-once", f"notified actions {notified[:5]}… differ from recorded ones {recorded[:5]}… (never delivered: {lost[:4]})")
    if obs.get("undelivered"):
        V("Actuator._currents.actions:left-after-run", f"records left undelivered in _currents.actions after the run: {obs['undelivered'][:4]}")
    # what finalize() does happens after the last bar: stamped with it (the clock still shows it), only operation outcomes and deliveries follow the call
    for e in tail:
        if not ((e[0] in ("ok", "rej", "free") and e[2] in ("finalize", "notify")) or e[0] == "notify"):
            V("Actuator.run:call-after-finalize", f"{e} follows finalize()")
            break
        if e[1] != bars[-1] or (e[0] == "notify" and e[3] != bars[-1]):
            V("Actuator.run:finalize-operation-stamp", f"{e} after finalize() is not stamped with the last bar {bars[-1]}")
            break
    late = [e for e in full if e[0] == "notify" and e[1] != e[3]]
    if late:
        src = [x for x in ev if x[0] in ("ok", "free") and x[4] == late[0][2]]
        V("Actuator.notify:late", f"the action {late[0][2]} stamped {late[0][3]} (issued from {src[0][2] if src else 'update()'}) was delivered to notify() in the bar "
                                  f"at {late[0][1]}, not at the end of the bar in which it ran")
    if obs["actions"] != recorded:
        V("Actuator.actions:mismatch", "Actuator.actions differs from the operations accepted during the run")
    # one account row per bar with its timestamp and prices
    if obs["df_index"] != bars or obs["status_ts"] != bars:
        V("Actuator.account_status_df:index", "account history index differs from the bar index")
    pr = [first_in_bin(case["prices"], t, step, resample) for t in bars]
    if obs["df_price"] != pr or [e[2] for e in ev if e[0] == "row"] != pr or [e[3] for e in ev if e[0] == "before"] != pr:
        V("Actuator.account_status_df:price", "price columns of the account history / snapshots are not the bar's price row")
    # is_open exactly on the market's own timestamps; gated operations are refused when closed
    openf = {}
    for e in ev:
        if e[0] == "set":
            idx = market_index(case["markets"][e[2]], step, resample)
            if e[4] != (e[1] in set(idx)):
                V("Market.set_market_status:is_open", f"market {e[2]} is_open={e[4]} at {e[1]}")
            if e[4] and e[5] != first_in_bin(case["markets"][e[2]]["times"], e[1], step, resample):
                V("Market.set_market_status:row", f"market {e[2]} read row {e[5]} at {e[1]}")
            openf[(e[1], e[2])] = e[4]
        elif e[0] == "ok" and not openf.get((e[1], e[3])):
            V("write_func:closed-market-accepted", f"operation accepted on a closed market: {e}")
        elif e[0] == "rej" and e[5] != (not openf.get((e[1], e[3]))):
            V("write_func:open-market-refused", f"operation refused as 'not open' on an open market (or vice versa): {e}")
        elif e[0] == "open" and not openf.get((e[1], e[2])):
            V("Actuator.run:open-callback-on-closed-market", f"{e}")
    if ev[-1][0] != "finalize":
        V("Actuator.run:finalize", "finalize() is not called after the last bar")
    if obs.get("rerun") is not None:
        V("Actuator.run:second-run-differs", f"the same Actuator and strategy run a second time on the same data: first difference (index, second run, first run) "
                                             f"{str(obs['rerun'])[:300]}")


def first_strict_failure(case):
    """the first bar (None: none) on which a strict market has no row, from the case alone"""
    step = 60 * case["interval"]
    resample = resampled(case["istr"])
    longest = max(case["markets"], key=lambda m: len(set(m["times"])))
    bars = expected_index(sorted(set(longest["times"])), step, resample)
    idx = [set(market_index(m, step, resample)) if is_strict(m) else None for m in case["markets"]]
    for t in bars:
        for i, s_ in enumerate(idx):
            if s_ is not None and t not in s_:
                return bars, t, i
    return bars, None, None


def oracle_strict(ctx, case, obs, rep):
    """a strict market (UniLpMarket, AaveV3Market, SqueethMarket, GmxMarket, GmxV2Market behave so) without a row on a bar: the run cannot go
    on as if the market were closed — it ends with KeyError at that bar, before the bar's before_bar, with the rows of the bars before it"""
    V = lambda key, what: ctx.violate(key, what, rep)  # noqa: E731
    bars, tb, mi = first_strict_failure(case)
    ev = obs["events"]
    if tb is None:
        return
    if obs["err"] is None:
        V("Actuator.run:strict-market-without-row-went-on", f"market {mi} looks its row up unguarded and has none at {tb}, yet the run ended normally")
        return
    if obs["err"] != "KeyError":
        return          # ended earlier for another reason (price frame, trigger): the model comparison judges it
    befores = [e[1] for e in ev if e[0] == "before"]
    if befores and befores[-1] >= tb:
        V("Actuator.run:bar-ran-although-strict-market-has-no-row", f"before_bar ran at {befores[-1]}; market {mi} has no row at {tb}")
    if obs["status_ts"] != bars[:len(obs["status_ts"])] or (obs["status_ts"] and obs["status_ts"][-1] >= tb):
        V("Actuator.account_status:after-strict-failure", f"account rows {obs['status_ts'][-3:]} after the run ended at {tb}")
    # the markets registered before the failing one were refreshed on that bar, the failing one and those behind it were not — if the run got
    # that far (every bar before it has its account row) and the price frame has a row for the bar (the price row is looked up first)
    reached = obs["status_ts"] == bars[:bars.index(tb)] and tb in set(expected_index(case["prices"], 60 * case["interval"], resampled(case["istr"])))
    last_sets = [e[2] for e in ev if e[0] == "set" and e[1] == tb and e[3] == (0 if tb == bars[0] else 1)]
    if reached and last_sets != list(range(mi)):
        V("Actuator.run:refresh-at-strict-failure", f"markets refreshed on the failing bar {tb}: {last_sets}, expected {list(range(mi))}")


def recorded_of(ev):
    out = []
    for e in ev:
        if e[0] == "ok" or (e[0] == "free" and e[5]):
            out.append([e[4], e[1], e[3]])
        elif e[0] == "uact":
            out.append([e[3], e[1], e[2]])
    return out


RUNTIME = {"HookRuntimeError", "DemeterError"}


def oracle_failed(ctx, case, obs, nf, rep):
    """a run that a hook ended with an exception, against the run of the same strategy without the raise (`nf`, a fresh Actuator): the calls made
    are a prefix of that run's calls, what is left in the account history and the action list is what was recorded up to there, nothing after"""
    V = lambda key, what: ctx.violate(key, what, rep)  # noqa: E731
    ev, nev = obs["events"], nf["events"]
    booms = {st[1] for body in bodies(case["script"]) for st in body if st[0] == "boom"}
    if ev[-1][0] != "raised":
        V("Actuator.run:raise-not-last", "calls were made after the exception")
        return
    made = ev[:-1]
    if made != nev[:len(made)]:
        k = next((i for i, (x, y) in enumerate(zip(made, nev)) if x != y), min(len(made), len(nev)))
        V("Actuator.run:failed-run-not-a-prefix", f"the run that ended in {obs['err']} made the call {made[k] if k < len(made) else None} where the same strategy "
          f"without the raise makes {nev[k] if k < len(nev) else None} (call {k})")
        return
    rows = [e[1] for e in made if e[0] == "row"]
    if obs["err"] not in booms:
        masked = obs["err"] == "IndexError" and not rows and (booms & RUNTIME)
        if masked:
            # the `except RuntimeError` handler of the loop builds the account frame of a run that has no row yet: pandas' IndexError replaces the
            # hook's exception (chained to it).  Not a clause of C05; counted.
            ctx.count("runtime_error_on_first_bar_leaves_as_IndexError")
        else:
            V(f"Actuator.run:hook-exception-replaced:{obs['err']}", f"a hook raised one of {sorted(booms)}, run() raised {obs['err']}: {(obs['exc'] or '')[-300:]}")
    if obs["status_ts"] != rows or rows != nf["status_ts"][:len(rows)]:
        V("Actuator.account_status:after-raise", f"account history after the failed run {obs['status_ts'][-3:]} (rows appended {rows[-3:]}); the run without the raise has "
          f"{nf['status_ts'][:len(rows) + 1][-3:]} there")
    rec_ = recorded_of(made)
    if obs["actions"] != rec_ or rec_ != nf["actions"][:len(rec_)]:
        V("Actuator.actions:after-raise", "the action list after the failed run is not what was recorded before the raise / not a prefix of the full run's list")
    notified = [[e[2], e[3], e[4]] for e in made if e[0] == "notify"]
    if notified != rec_[:len(notified)]:
        V("Actuator.notify:after-raise", "deliveries before the raise are not a prefix of the recorded actions")
    if obs["installed_after"] != 0:
        V("Actuator.run:trigger-list-not-handed-back-after-raise", f"strategy.triggers holds {obs['installed_after']} triggers after the failed run, none before it")
    # the handler of a RuntimeError leaving the bar loop saves what there is (two files) before re-raising; nothing else writes files
    if bool(obs["saved"]) != (obs["err"] in RUNTIME and bool(rows)):
        ctx.count("saved_files_unexpected")
    sec_ = obs.get("second")
    if sec_ is not None and (sec_["events"] != nev or sec_["err"] != nf["err"] or sec_["actions"] != nf["actions"] or sec_["status_ts"] != nf["status_ts"]):
        k = next((i for i, (x, y) in enumerate(zip(sec_["events"], nev)) if x != y), min(len(sec_["events"]), len(nev)))
        V("Actuator.run:run-after-failed-run-differs", f"the same Actuator and strategy run again after the failed run (now without the raise): call {k} is "
          f"{sec_['events'][k] if k < len(sec_['events']) else None}, a fresh Actuator makes {nev[k] if k < len(nev) else None}; outcome {sec_['err']} / {nf['err']}")


def model_request(case, obs=None):
    def ints(l):
        return [str(x) for x in l]
    specs = [{k: ([[str(a), str(b)] for a, b in v] if k == "rs" else [str(x) for x in v] if isinstance(v, list)
                  else str(v) if isinstance(v, int) and not isinstance(v, bool) else v) for k, v in sp.items()} for sp in case["specs"]]
    extra = {}
    if obs is not None and "second" in obs:
        extra["then"] = strip_booms(case["script"])
    return {**extra, "fn": "run_g", "markets": [{"idx": ints([t for t in m["times"] for _ in range(m.get("rows", 1))]), "open": m["open"], "sparse": bool(m.get("sparse", False)), "strict": is_strict(m)} for m in case["markets"]],
            "prices": ints(case["prices"]),
            "delta": str(60 * case["interval"]), "resample": resampled(case["istr"]), "specs": specs, "script": case["script"]}


def check_case(ctx: Ctx, case, reqs=None):
    obs = run_impl(case)
    rep = case
    nm = len(case["markets"])
    kinds = "+".join(sorted(m["kind"] + ("~sparse" if m.get("sparse") else "") + ("!" if is_strict(m) and m["kind"] != "uni" else "") for m in case["markets"]))
    ev = obs["events"]
    boom = has_boom(case["script"])
    dynamic = any(st[0] in ("tadd", "tdel") for body in bodies(case["script"]) for st in body)
    if not boom:
        oracle_strict(ctx, case, obs, rep)
    if obs["err"] is None:
        oracle(ctx, case, obs, rep)
    elif boom:
        nf = run_impl(dict(case, script=strip_booms(case["script"]), rerun=False))
        if nf["err"] == obs["err"] and nf["events"] == obs["events"]:
            boom = False          # the run ends by itself (price frame, malformed trigger) before any scripted raise is reached
        else:
            oracle_failed(ctx, case, obs, nf, rep)
    phases = sorted({e[2].split(":")[0] for e in ev if e[0] in ("ok", "rej", "free")})
    tag = (f"i{case['interval']}{'' if resampled(case['istr']) else 'raw'}:{kinds}:bars{min(3, sum(1 for e in ev if e[0] == 'before').bit_length() // 3)}:"
           f"{'/'.join(phases) or 'noops'}:{'set2' if any(e[0] == 'set' and e[3] == 2 for e in ev) else '-'}:"
           f"{'closed' if any(e[0] == 'rej' and e[5] for e in ev) else '-'}:{'free' if any(e[0] == 'free' for e in ev) else '-'}:{'uact' if any(e[0] == 'uact' for e in ev) else '-'}:"
           f"{'fire' if any(e[0] == 'fire' for e in ev) else '-'}:{obs['err'] or 'ok'}" +
           (f":raise@{raise_site(ev)}" if boom and obs["err"] else ":raise-not-reached" if boom else "") + (":dyn" if dynamic else "") +
           (":again" if "second" in obs else ""))
    ctx.case(tag, {"interval": case["istr"], "markets": [(m["kind"], len(m["times"])) for m in case["markets"]], "events": len(ev), "err": obs["err"]})
    if obs["err"] is not None:
        expected = {"DemeterError", "KeyError", "ValueError", "IndexError"}
        if obs["err"] not in expected and not boom:
            ctx.violate(f"Actuator.run:{obs['err']}", f"run raised {obs['err']}: {(obs.get('exc') or '')[-300:]}", rep)
    if reqs is not None:
        reqs.append((rep, obs, model_request(case, obs)))
    return obs


def raise_site(ev):
    """in which hook the run ended (from the last calls before the raise): bucket tag"""
    for e in reversed(ev[:-1]):
        if e[0] in ("ok", "rej", "free"):
            return e[2].split(":")[0]
        if e[0] in ("before", "on", "after", "fire", "open", "notify", "initialize"):
            return e[0]
        if e[0] in ("set", "update", "uact", "row"):
            return "?"
    return "?"


def compare(ctx, rep, obs, ans):
    if "error" in ans:
        ctx.disagree(f"driver error {ans['error']}", rep)
        return
    if ans["make"] != obs["make"]:
        ctx.disagree(f"trigger constructors: impl {obs['make']} model {ans['make']}", rep)
        return
    if ans["err"] != obs["err"]:
        ctx.disagree(f"outcome: impl {obs['err']} model {ans['err']}", rep)
        return
    mt, it = ans["trace"], obs["events"]
    if mt != it:
        k = next((i for i, (x, y) in enumerate(zip(mt, it)) if x != y), min(len(mt), len(it)))
        ctx.disagree(f"call traces differ at event {k}: impl {it[k - 1:k + 2]} model {mt[k - 1:k + 2]} (lengths {len(it)}/{len(mt)})", rep)
        return
    if ans["actions"] != obs["actions"]:
        ctx.disagree(f"action lists differ (outcome {obs['err']})", rep)
    if "undelivered" in ans and ans["undelivered"] != obs.get("undelivered"):
        ctx.disagree(f"_currents.actions after the run: impl {obs.get('undelivered')} model {ans['undelivered']}", rep)
    if [r[0] for r in ans["rows"]] != obs["status_ts"] or [r[1] for r in ans["rows"]] != [e[2] for e in it if e[0] == "row"]:
        ctx.disagree(f"account rows differ (outcome {obs['err']})", rep)
    if obs["err"] is None:
        if [r[0] for r in ans["rows"]] != obs["df_index"] or [r[1] for r in ans["rows"]] != obs["df_price"]:
            ctx.disagree("account rows differ", rep)
        if ans["left"] != obs["left"]:
            ctx.disagree(f"triggers left: impl {obs['left']} model {ans['left']}", rep)
    if ("second" in obs) != ("second" in ans):
        ctx.disagree(f"second run: impl {'ran' if 'second' in obs else 'did not run'}, model {'ran' if 'second' in ans else 'did not run'}", rep)
    elif "second" in obs:
        o2, a2 = obs["second"], ans["second"]
        if a2["err"] != o2["err"] or a2["trace"] != o2["events"] or a2["actions"] != o2["actions"] or [r[0] for r in a2["rows"]] != o2["status_ts"]:
            k = next((i for i, (x, y) in enumerate(zip(a2["trace"], o2["events"])) if x != y), min(len(a2["trace"]), len(o2["events"])))
            ctx.disagree(f"second run of the same Actuator (first ended {obs['err']}): impl {o2['events'][k - 1:k + 2]} / {o2['err']}, model {a2['trace'][k - 1:k + 2]} / {a2['err']}", rep)


def real_market_resample(ctx: Ctx):
    """Actuator.switch_interval calls market._resample(interval) on every market: run it on each real market class"""
    cl.setup()
    from decimal import Decimal
    from demeter import MarketInfo, TokenInfo
    from demeter.aave import AaveV3Market
    from demeter.gmx import GmxMarket
    from demeter.gmx.market2 import GmxV2Market
    from demeter.gmx._typing2 import GmxV2Pool
    from demeter.squeeth import SqueethMarket
    weth, usdc = TokenInfo("weth", 18), TokenInfo("usdc", 6)
    times = [8 * 3600 + 180 + 60 * i for i in range(12)]
    want = expected_index(times, 300, True)

    def fr():
        return pd.DataFrame({"v": [float(i) for i in range(len(times))]}, index=pd.DatetimeIndex([cl.at(t) for t in times]))
    import os
    risk = os.path.join(cl_repo(), "tests", "aave_risk_parameters", "demo.csv")
    makers = {
        "AaveV3Market": lambda: AaveV3Market(MarketInfo("aave"), risk, [weth], data=fr()),
        "GmxMarket": lambda: GmxMarket(MarketInfo("gmx"), [weth], data=fr()),
        "GmxV2Market": lambda: GmxV2Market(MarketInfo("gmx2"), GmxV2Pool(weth, usdc, weth), data=fr()),
        "SqueethMarket": lambda: SqueethMarket(MarketInfo("sq"), None, data=fr()),
    }
    for name, mk in makers.items():
        try:
            m = mk()
        except Exception as e:  # noqa: BLE001
            ctx.note(f"resample_{name}", f"could not construct: {type(e).__name__}")
            continue
        try:
            m._resample("5min")
            got = [cl.sec(t) for t in m.data.index]
            ok = got == want
            ctx.case(f"real-resample:{name}:{'ok' if ok else 'wrong-index'}")
            if not ok:
                ctx.violate(f"{name}._resample:index", f"{name}._resample('5min') of 12 one-minute rows from 08:03 gives index {got}", {"real_resample": name})
        except Exception as e:  # noqa: BLE001
            ctx.case(f"real-resample:{name}:{type(e).__name__}")
            ctx.violate(f"{name}._resample:{type(e).__name__}",
                        f"{name}._resample('5min') raises {type(e).__name__} ({str(e)[:120]}): a run with interval != 1min cannot start", {"real_resample": name})


def real_market_strictness(ctx: Ctx):
    """which real market classes raise KeyError from set_market_status on a bar their frame has no row for: observed on the objects, compared
    with the flags the model reads from the source (`Gen.coreStrictStatus…`, answered by the driver)"""
    cl.setup()
    import os
    from demeter import MarketInfo, TokenInfo, MarketTypeEnum
    from demeter.broker import MarketStatus
    from demeter.aave import AaveV3Market
    from demeter.gmx import GmxMarket
    from demeter.gmx.market2 import GmxV2Market
    from demeter.gmx._typing2 import GmxV2Pool
    from demeter.squeeth import SqueethMarket
    from demeter.uniswap import UniLpMarket, UniV3Pool
    from demeter.deribit import DeribitOptionMarket
    import c05_real
    weth, usdc = TokenInfo("weth", 18), TokenInfo("usdc", 6)
    times = [8 * 3600 + 60 * i for i in range(4)]
    index = pd.DatetimeIndex([cl.at(t) for t in times])
    missing = pd.Timestamp(cl.at(8 * 3600 + 7200))

    def fr():
        return pd.DataFrame({"v": [float(i) for i in range(len(times))]}, index=index)
    risk = os.path.join(cl_repo(), "tests", "aave_risk_parameters", "demo.csv")

    def uni():
        m = UniLpMarket(MarketInfo("u"), UniV3Pool(usdc, weth, 0.05, usdc))
        m.data = c05_real.pool_frame(m, index, 200000)
        return m

    def deribit():
        m = DeribitOptionMarket(MarketInfo("o", MarketTypeEnum.deribit_option), DeribitOptionMarket.ETH)
        m.data = c05_real.option_frame("2023-09-22", [6, 7], [("ETH-29SEP23-3000-C", 3000, pd.Timestamp("2023-09-29 08:00:00"))])
        return m
    makers = {
        "UniLpMarket": uni,
        "AaveV3Market": lambda: AaveV3Market(MarketInfo("aave"), risk, [weth], data=fr()),
        "GmxMarket": lambda: GmxMarket(MarketInfo("gmx"), [weth], data=fr()),
        "GmxV2Market": lambda: GmxV2Market(MarketInfo("gmx2"), GmxV2Pool(weth, usdc, weth), data=fr()),
        "SqueethMarket": lambda: SqueethMarket(MarketInfo("sq"), None, data=fr()),
        "DeribitOptionMarket": deribit,
    }
    seen = {}
    for name, mk in makers.items():
        try:
            m = mk()
        except Exception as e:  # noqa: BLE001
            ctx.note(f"strictness_{name}", f"could not construct: {type(e).__name__}")
            continue
        ts = pd.Timestamp("2023-09-22 09:00:00") if name == "DeribitOptionMarket" else missing
        try:
            m.set_market_status(MarketStatus(ts, None), None)
            seen[name] = False
        except KeyError:
            seen[name] = True
        except Exception as e:  # noqa: BLE001
            ctx.note(f"strictness_{name}", f"set_market_status on a bar without a row raised {type(e).__name__}")
            continue
        ctx.case(f"real-strictness:{name}:{'KeyError' if seen[name] else 'closed'}")
    if ctx.driver_ok and seen:
        flags = driver_json([{"fn": "strict_flags"}], exe="driver_core")[0]
        for name, got in seen.items():
            if flags.get(name) != got:
                ctx.disagree(f"{name}.set_market_status on a bar without a row: {'KeyError' if got else 'market closed'} observed, the flag read from the "
                             f"source says strict={flags.get(name)}", {"real_strictness": name})


def cl_repo():
    import common
    return common.REPO


def fixed_cases():
    """configurations every run starts with (the random stream reaches them too, these make the check independent of the seed)"""
    base = [7200 + 60 * i for i in range(120)]
    empty = {"init": [], "before": [], "fire": [], "open": [], "on": [], "after": [], "upd": [], "notify": [], "fuel": 100000}
    out = []
    # a minutely market and an hourly option book with more rows (2 hours x 80 instruments) than the minutely market has minutes
    for order in (0, 1):
        ms = [{"kind": "minutely", "times": base, "open": False}, {"kind": "book", "times": [7200, 10800], "open": True, "rows": 80}]
        out.append({"interval": 1, "istr": "1min", "markets": ms[::-1] if order else ms, "prices": base, "specs": [],
                    "script": dict(empty, on=[[0, [[1 - order, True, "t1", True]]], [61, [[order, True, "t2", True]]]])})
    # several markets, only a later-registered one is written to in on_bar / before_bar: the refresh after on_bar must reach it
    short = base[:6]
    for nm, target in ((2, 1), (3, 2), (3, 1)):
        ms = [{"kind": "minutely", "times": short, "open": False} for _ in range(nm)]
        out.append({"interval": 1, "istr": "1min", "markets": ms, "prices": short, "specs": [],
                    "script": dict(empty, on=[[1, [[target, True, "t1", True]]], [3, [[target, True, "t2", True], [0, True, "t3", False]]]],
                                   before=[[4, [[target, True, "t4", True]]]])})
    # the strategy answers a delivered action from inside notify(): in the middle of the run, on the last bar, twice in a row
    ms = [{"kind": "minutely", "times": short, "open": False}, {"kind": "minutely", "times": short, "open": False}]
    out.append({"interval": 1, "istr": "1min", "markets": ms, "prices": short, "specs": [],
                "script": dict(empty, on=[[2, [[0, True, "t1", True]]], [5, [[1, True, "t4", False]]]], upd=[[3, 1, ["u1"]]],
                               notify=[[2, "t1", [[1, True, "t2", True], [0, False, "t2x", True]]], [2, "t2", [[0, True, "t3", False]]],
                                       [5, "t4", [[0, True, "t5", True]]], [3, "u1", [[1, True, "t6", True]]]])})
    # finalize() trades: an accepted, a refused and an ungated operation after the last bar; notify() answers the delivery of the first
    ms = [{"kind": "minutely", "times": short, "open": False}, {"kind": "minutely", "times": short[:3], "open": False}]
    out.append({"interval": 1, "istr": "1min", "markets": ms, "prices": short, "specs": [], "rerun": True,
                "script": dict(empty, on=[[1, [[0, True, "o1", True]]]], fin=[[0, True, "fin1", True], [0, False, "fin2", True], [1, True, "fin3", True], [1, True, "fin4", False]],
                               fin_notify=[["fin1", [[0, True, "fin5", True]]]], fin_fuel=1000)})
    # a hook raises: every hook, on the first bar / in the middle / on the last bar, every class; afterwards the same Actuator runs again
    import copy
    whole = {"k": "range", "kw": "{}", "s": short[0], "e": short[-1] + 60}
    for where in ("init", "before", "fire", "open", "on", "after", "notify"):
        for k, cls, pos in ((2, "HookError", 1), (0, "DemeterError", 0), (5, "HookRuntimeError", 1), (0, "HookError", 1), (3, "DemeterError", 1)):
            ms = [{"kind": "minutely", "times": short, "open": True}, {"kind": "minutely", "times": short, "open": False}]
            sc = copy.deepcopy(empty)
            sc["init"] = [[0, True, "i0", True]]
            for r in range(6):
                sc["before"].append([r, [[1, True, f"b{r}", False]]])
                sc["on"].append([r, [[0, True, f"o{r}", True]]])
                sc["after"].append([r, [[1, True, f"a{r}", True]]])
                sc["fire"].append([r, 0, [[0, True, f"f{r}", True]]])
                sc["open"].append([r, 0, [[1, True, f"c{r}", True]]])
                sc["notify"].append([r, f"o{r}", [[1, True, f"n{r}", False]]])
            body = (sc["init"] if where == "init" else
                    next(e for e in sc[where] if e[0] == k)[-1])
            body.insert(pos, ["boom", cls])
            out.append({"interval": 1, "istr": "1min", "markets": ms, "prices": short, "specs": [whole], "script": sc, "rerun": True})
    # hooks change strategy.triggers: a trigger's action removes the trigger itself (the next one is passed over on that bar), installs a new
    # trigger (evaluated in the same loop), removes an earlier one (again the next one is passed over), removes the next one; on_bar and
    # after_bar install and remove between two loops; a raise in the action of a trigger installed by another action
    for variant in range(3):
        ms = [{"kind": "minutely", "times": short, "open": False}]
        sc = copy.deepcopy(empty)
        sc["tfuel"] = 50
        new = {"k": "period", "kw": "{\"a\":1}", "d": 60, "imm": True, "pend": 0, "id": 3}
        sc["fire"] = [[1, 0, [["tdel", 0], [0, True, "x1", True]]],
                      [2, 1, [["tadd", new], [0, True, "x2", True]]],
                      [2, 3, [[0, True, "x3", True]] + ([["boom", "HookError"]] if variant == 2 else [])],
                      [3, 2, [["tdel", 1]]],
                      [4, 3, [["tdel", 3], ["tadd", dict(whole, id=4)]]]]
        sc["on"] = [[3, [["tadd", dict(whole, id=5)]]], [4, [["tdel", 5]]]]
        sc["after"] = [[0, [["tdel", 2], ["tadd", {"k": "atTime", "kw": "{}", "s": short[2], "id": 6}]]]] if variant == 1 else []
        out.append({"interval": 1, "istr": "1min", "markets": ms, "prices": short, "specs": [whole, dict(whole), dict(whole)], "script": sc,
                    "rerun": True})
    return out


def run(ctx: Ctx):
    cl.setup()
    real_market_resample(ctx)
    real_market_strictness(ctx)
    c05_real.run_stream(ctx)        # real UniLpMarket + SqueethMarket / DeribitOptionMarket under a real Actuator (oracle only)
    n = ctx.scale(260, 6000)
    reqs = []
    for case in fixed_cases():
        check_case(ctx, case, reqs)
    for i in range(n):
        check_case(ctx, gen_case(ctx.rng, big=(i % 10 == 0)), reqs)
    ctx.impl_traces = len(reqs)
    if ctx.driver_ok and reqs:
        out = driver_json([r[2] for r in reqs], exe="driver_core")
        for (rep, obs, _), ans in zip(reqs, out):
            compare(ctx, rep, obs, ans)


def replay(ctx: Ctx, case) -> bool:
    sub = Ctx(ctx.prop, ctx.tier, ctx.seed, False)
    if "real_resample" in case:
        real_market_resample(sub)
        sub.violations = [v for v in sub.violations if v["replay"].get("real_resample") == case["real_resample"]]
    elif "real" in case:
        c05_real.check_real(sub, case)
    else:
        check_case(sub, case, None)
    for v in sub.violations:
        print("  ", v["key"], v["what"])
    return not sub.violations
