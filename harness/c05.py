"""C05 — each bar once, in order, fixed phase order; logs aligned (Actuator.run through real Actuator/Broker/Strategy/Market
base class objects; the markets are small in-memory subclasses of demeter.broker.Market)."""
from __future__ import annotations

import json
import traceback

import pandas as pd

from common import Ctx, driver_json
import core_lib as cl
import c18 as trig

PROPERTY = "C05"
LEAN_MODULES = ["Proofs.C05", "Proofs.C05.Refresh"]
DRIVERS = ["driver_core"]
RULE = ("random runs: 1..3 markets (minutely, hourly, hourly option book with 2..80 rows per timestamp — sometimes more rows than the longest market has "
        "minutes —, with gaps, starting late / ending early), bar interval 1/2/3/5/7/15/45/60 min (string forms "
        "'1min', 'min', '5min', '1h', 'h'), 1..400 bars, price frame covering / not covering the data, 0..3 time triggers, scripted strategy "
        "issuing accepted and refused operations from initialize / before_bar / trigger actions / open callbacks / on_bar / after_bar and from "
        "inside notify() (answers to delivered actions, up to three levels deep, also on the last bar) and markets whose update() records actions; "
        "fixed cases: minutely market + 2 h x 80-row book, 2-3 markets with a write only on a later-registered one, answers from notify(); bucket = (interval class, market mix, bars class, phases with operations, second refresh seen, "
        "closed-market rejection seen, outcome)")
TRUSTED = ["pandas resample/loc internals are exercised, not modelled: the model's resampled index and 'first row of the bin' rule are compared with what pandas produced on every run",
           "the concrete markets' own set_market_status/update bodies are the subject of other properties; here they are abstract (ProbeMarket in harness/core_lib.py)"]
ASSUMPTIONS = ["hooks do not raise (the scripted strategy catches the exception of a refused operation) and do not replace strategy.triggers",
               "a notify() hook that answers every delivery with a new accepted operation never returns (the code iterates the live list): generated scripts answer at most three levels deep",
               "frames have a non-decreasing time index (several rows per timestamp allowed: an option book)"]

INTERVALS = ((1, "1min"), (1, "1min"), (1, "min"), (5, "5min"), (5, "5min"), (15, "15min"), (60, "1h"), (60, "h"), (60, "60min"),
             (2, "2min"), (3, "3min"), (7, "7min"), (45, "45min"), (30, "30min"))


# ------------------------------------------------------------------------------------------ generator
def gen_case(rng, big=False):
    interval, istr = rng.choice(INTERVALS)
    step = 60 * interval
    start = 60 * rng.randint(0, 1200)
    nbars = rng.randint(1, 400 if big else 60) if rng.random() < 0.9 else rng.randint(1, 3)
    n_raw = max(1, min(interval * nbars, 2400))
    base = [start + 60 * i for i in range(n_raw)]
    nm = rng.choice((1, 1, 2, 2, 3))
    markets = []
    for i in range(nm):
        kind = rng.choice(("minutely", "minutely", "hourly", "gaps", "late", "short", "holes")) if i else rng.choice(("minutely", "minutely", "minutely", "gaps", "hourly", "holes"))
        if kind == "minutely":
            times = list(base)
        elif kind == "hourly":
            first = start - start % 3600 + (3600 if start % 3600 and rng.random() < 0.7 else 0)
            times = [t for t in range(first, base[-1] + 1, 3600)]
            if not times:
                times = [first]
        elif kind == "gaps":
            times = [t for t in base if rng.random() < 0.8] or [base[0]]
        elif kind == "holes":
            # runs of missing minutes, up to three bars long: on a coarse interval whole bars have no row at all
            times, t = [], 0
            while t < len(base):
                run = rng.randint(1, 4 * interval)
                if rng.random() < 0.45 and times:
                    t += run                              # a hole
                else:
                    times += base[t:t + run]
                    t += run
            times = times or [base[0]]
            if base[-1] not in times and rng.random() < 0.7:
                times.append(base[-1])
        elif kind == "late":
            k = rng.randint(0, max(0, len(base) - 1))
            times = base[k:]
        else:
            k = rng.randint(1, len(base))
            times = base[:k]
        mk = {"kind": kind, "times": times, "open": rng.random() < 0.4}
        if kind in ("holes", "gaps", "hourly") and rng.random() < (0.7 if kind == "holes" else 0.3):
            mk["sparse"] = True        # the market's own _resample drops the empty bins (the option book's does): closed on a bar that falls into a hole
        if kind == "hourly" and rng.random() < 0.5:
            # an option book: several rows per timestamp; sometimes more rows than the longest market has timestamps
            mk["kind"], mk["rows"] = "book", rng.choice((2, 3, 7, max(2, n_raw // max(1, len(times)) + 1), 80))
        markets.append(mk)
    if istr == "1min" and rng.random() < 0.35:       # a real UniLpMarket in the mix
        cand = markets + [{"kind": "uni", "times": list(base), "open": rng.random() < 0.3}]
        longest = max(cand, key=lambda m: len(m["times"]))
        # UniLpMarket.set_market_status raises KeyError on a bar without a row (only Deribit tolerates that): keep it only if its
        # frame has a row for every bar of the run
        if set(longest["times"]) <= set(base):
            markets = cand
            nm += 1
    lo = min(m["times"][0] for m in markets)
    hi = max(m["times"][-1] for m in markets)
    r = rng.random()
    if r < 0.85:
        prices = list(range(lo - 60 * rng.randint(0, 3), hi + 60 * rng.randint(0, 3) + 1, 60))
    elif r < 0.93:
        prices = list(range(lo, hi - 60 * rng.randint(0, max(0, (hi - lo) // 120)) + 1, 60)) or [lo]      # ends early
    else:
        prices = list(range(lo + 60 * rng.randint(0, 5), hi + 1, 60)) or [hi]                                  # starts late
    specs = []
    for _ in range(rng.choice((0, 0, 1, 1, 2, 3))):
        sp = trig.gen_spec(rng, lo - lo % step, hi - hi % step, step)
        if trig.static_error(sp) is None or rng.random() < 0.1:
            specs.append(sp)
    # scripted strategy
    cnt = [0]

    def ops(pmax=3):
        out = []
        for _ in range(rng.choice((0, 0, 0, 1, 1, 2, pmax))):
            cnt[0] += 1
            out.append([rng.randrange(nm), rng.random() < 0.8, f"t{cnt[0]}", rng.random() < 0.8])
        return out
    rows = max(1, n_raw // interval + 2)
    dens = rng.choice((0.0, 0.1, 0.3, 0.7))
    sc = {"init": ops() if rng.random() < 0.3 else [], "before": [], "fire": [], "open": [], "on": [], "after": [], "upd": [], "notify": [],
          "fuel": 100000}
    pn = rng.choice((0.0, 0.0, 0.15, 0.4))        # how often the strategy answers a delivered action with operations of its own

    def answers(r_, tags, depth=0):
        """Strategy.notify acts on what it is told: operations issued from inside the hook (and answers to their deliveries, two levels deep)"""
        for tag in tags:
            if rng.random() < pn and depth < 3:
                o = ops(2)
                if o:
                    sc["notify"].append([r_, tag, o])
                    answers(r_, [x[2] for x in o], depth + 1)
    answers(0, [x[2] for x in sc["init"]])
    for r_ in range(rows):
        for key in ("before", "on", "after"):
            if rng.random() < dens:
                o = ops()
                if o:
                    sc[key].append([r_, o])
                    answers(r_, [x[2] for x in o])
        for i in range(len(specs)):
            if rng.random() < dens:
                o = ops()
                if o:
                    sc["fire"].append([r_, i, o])
                    answers(r_, [x[2] for x in o])
        for m in range(nm):
            if markets[m]["open"] and rng.random() < dens:
                o = ops()
                if o:
                    sc["open"].append([r_, m, o])
                    answers(r_, [x[2] for x in o])
            if markets[m]["kind"] != "uni" and rng.random() < dens / 3:
                cnt[0] += 1
                sc["upd"].append([r_, m, [f"u{cnt[0]}"] + ([f"u{cnt[0]}b"] if rng.random() < 0.3 else [])])
                answers(r_, sc["upd"][-1][2])
    return {"interval": interval, "istr": istr, "markets": markets, "prices": prices, "specs": specs, "script": sc, "rerun": rng.random() < 0.35}


# ------------------------------------------------------------------------------------------ implementation run
def run_impl(case):
    cl.setup()
    from demeter import Strategy
    from demeter._typing import DemeterError
    rec = cl.Recorder()
    rec.initialized = False
    a, ms, rec = cl.build([(f"m{i}", m["times"], m["open"], m["kind"], m.get("rows", 1), m.get("sparse", False)) for i, m in enumerate(case["markets"])], case["prices"], case["istr"], rec)
    sc = case["script"]
    t_before = {r: o for r, o in sc["before"]}
    t_on = {r: o for r, o in sc["on"]}
    t_after = {r: o for r, o in sc["after"]}
    t_fire = {(r, i): o for r, i, o in sc["fire"]}
    t_open = {(r, m): o for r, m, o in sc["open"]}
    t_notify = {(r, tag): o for r, tag, o in sc.get("notify", [])}
    ev = rec.ev
    state = {"row": 0}

    def now():
        return cl.sec(a._currents.timestamp)

    def do_ops(hook, ops):
        for m, ok, tag, gated in ops:
            if not gated:
                try:
                    ms[m].free_op(tag, ok)
                    ev(["free", now(), hook, m, tag, True])
                except Exception:  # noqa: BLE001
                    ev(["free", now(), hook, m, tag, False])
                continue
            try:
                ms[m].op(tag, ok)
                ev(["ok", now(), hook, m, tag])
            except DemeterError as e:
                ev(["rej", now(), hook, m, tag, "is not open" in str(e)])
            except Exception:  # noqa: BLE001   (the market's own refusal)
                ev(["rej", now(), hook, m, tag, False])

    # update() scripts are keyed by row; ProbeMarket keys them by time: fill lazily from before_bar
    upd_by_row = {}
    for r, m, tags in sc["upd"]:
        upd_by_row.setdefault(r, []).append((m, tags))

    made, trigs = [], []

    def mk_do(i):
        def do(snapshot, **kw):
            ev(["fire", cl.sec(snapshot.timestamp), i, cl.kw_str(kw)])
            do_ops(f"fire:{i}", t_fire.get((snapshot.row_id, i), []))
        return do
    for sp in case["specs"]:
        try:
            trigs.append(trig.construct(sp, mk_do(len(trigs))))
            made.append(None)
        except DemeterError:
            made.append("DemeterError")
    ident = {id(t): i for i, t in enumerate(trigs)}

    def on_open(mid, snap):
        ev(["open", cl.sec(snap.timestamp), mid])
        do_ops(f"open:{mid}", t_open.get((snap.row_id, mid), []))
    rec.on_open = on_open

    def psrc(snap):
        return cl.price_src(snap.prices["USDC"])

    class S(Strategy):
        def initialize(self):
            rec.initialized = True
            ev(["initialize", now()])
            self.triggers.extend(trigs)
            do_ops("init", sc["init"])

        def before_bar(self, snap):
            for m, tags in upd_by_row.get(snap.row_id, []):
                ms[m].update_script[cl.sec(snap.timestamp)] = tags
            state["row"] = snap.row_id
            ev(["before", cl.sec(snap.timestamp), snap.row_id, psrc(snap)])
            do_ops("before", t_before.get(snap.row_id, []))

        def on_bar(self, snap):
            ev(["on", cl.sec(snap.timestamp), snap.row_id, psrc(snap)])
            do_ops("on", t_on.get(snap.row_id, []))

        def after_bar(self, snap):
            ev(["after", cl.sec(snap.timestamp), snap.row_id, psrc(snap)])
            do_ops("after", t_after.get(snap.row_id, []))

        def notify(self, action):
            ev(["notify", now(), action.comment, cl.sec(action.timestamp), [m.market_info for m in ms].index(action.market)])
            do_ops("notify", t_notify.get((state["row"], action.comment), []))

        def finalize(self):
            ev(["finalize", now()])
            left.extend(ident[id(t)] for t in self.triggers)      # still installed when the loop has ended

    a.strategy = S()
    left = []
    inner_status = a.broker.get_account_status

    def status(prices, timestamp=None):
        if rec.initialized:
            ev(["row", cl.sec(timestamp), cl.price_src(prices["USDC"])])
        return inner_status(prices, timestamp)
    a.broker.get_account_status = status
    err = None
    obs_exc = [None]
    try:
        a.run(print_result=False)
    except Exception as e:  # noqa: BLE001
        err = type(e).__name__
        ev(["raised", err])
        rec.exc = traceback.format_exc()
        obs_exc[0] = rec.exc
    obs = {"make": made, "events": rec.events, "err": err, "exc": obs_exc[0], "left": left}
    obs["actions"] = [[x.comment, cl.sec(x.timestamp), [m.market_info for m in ms].index(x.market)] for x in a.actions]
    if err is None:
        df = a.account_status_df
        obs["df_index"] = [cl.sec(t) for t in df.index]
        obs["df_price"] = [cl.price_src(v) for v in df[("price", "USDC")]]
        obs["status_ts"] = [cl.sec(s.timestamp) for s in a.account_status]
    if err is None and case.get("rerun") and not resampled(case["istr"]):
        # the same Actuator and the same strategy object run again on the same data (a run that resamples its frames in place cannot be repeated on
        # the same Actuator; an un-resampled one can): the trace of the second run must be the trace of the first
        # (the strategy installs its triggers from initialize() by extending self.triggers in place, on every run)
        first = list(rec.events)
        rec.events = []
        rec.initialized = False
        left.clear()
        try:
            a.run(print_result=False)
            obs["rerun"] = None if rec.events == first else next(([i, x, y] for i, (x, y) in enumerate(zip(rec.events + [None] * len(first), first + [None] * len(rec.events)))
                                                                  if x != y), "length")
        except Exception as e:  # noqa: BLE001
            obs["rerun"] = ["raised", type(e).__name__, str(e)[:100]]
        rec.events = first
    return obs


# ------------------------------------------------------------------------------------------ the property, stated on the observed trace
PHASE_OF_HOOK = {"init": 2, "before": 5, "fire": 6, "open": 7, "on": 9, "after": 13, "notify": 15}


def phase(e):
    k = e[0]
    if k == "set":
        return {0: 0, 1: 3, 2: 10}[e[3]]
    if k in ("ok", "rej", "free"):
        return PHASE_OF_HOOK[e[2].split(":")[0]]
    return {"initialize": 1, "before": 4, "fire": 6, "open": 7, "on": 8, "update": 11, "uact": 11, "after": 12, "row": 14, "notify": 15,
            "finalize": 16}[k]


def resampled(istr):
    """_check_backtest puts a 1 in front of a unit-only interval; run() resamples unless the result is the string '1min'"""
    return (istr if istr[0].isdigit() else "1" + istr) != "1min"


def expected_index(times, step, resample):
    """the bar index: the frame's own index, or all bins (anchored at midnight of the first day) from the first to the last row"""
    if not resample:
        return list(times)
    o = times[0] - times[0] % 86400
    lo = o + (times[0] - o) // step * step
    hi = o + (times[-1] - o) // step * step
    return list(range(lo, hi + 1, step))


def market_index(m, step, resample):
    """the index a market's own frame has during the run: every bin between its first and last row, or (a market whose _resample drops
    the empty bins, like the option book's) only the bins that hold a row"""
    idx = expected_index(m["times"], step, resample)
    if resample and m.get("sparse"):
        ts = sorted(m["times"])
        import bisect
        idx = [b for b in idx if (lambda k: k < len(ts) and ts[k] < b + step)(bisect.bisect_left(ts, b))]
    return idx


def first_in_bin(times, ts, step, resample):
    if not resample:
        return ts if ts in set(times) else None
    for t in times:
        if ts <= t < ts + step:
            return t
    return None


def oracle(ctx, case, obs, rep):
    """C05 on the implementation's own trace.  Only for runs that ended normally."""
    ev = [e for e in obs["events"]]
    step = 60 * case["interval"]
    resample = resampled(case["istr"])
    nm = len(case["markets"])
    longest = max(case["markets"], key=lambda m: len(m["times"]))     # max() returns the first maximal element, like the code's filter()[0]
    bars = expected_index(longest["times"], step, resample)
    V = lambda key, what: ctx.violate(key, what, rep)  # noqa: E731
    # each bar once, in increasing order
    for name in ("before", "on", "after", "row"):
        got = [e[1] for e in ev if e[0] == name]
        if got != bars:
            V(f"Actuator.run:{name}-not-once-per-bar", f"{name} timestamps {got[:6]}… differ from the bar index {bars[:6]}… ({len(got)} vs {len(bars)}; markets "
              f"{[(m['kind'], len(m['times']), m.get('rows', 1)) for m in case['markets']]}: the index is that of the market with the most distinct timestamps)")
            return
    if [e[2] for e in ev if e[0] == "before"] != list(range(len(bars))):
        V("Actuator.run:row_id", "row ids are not 0..n-1")
    # fixed phase order: (bar, phase) never decreases along the trace
    keys = [(e[1], phase(e)) for e in ev]
    for i in range(1, len(keys)):
        if keys[i] < keys[i - 1]:
            V("Actuator.run:phase-order", f"event {ev[i]} follows {ev[i - 1]}: bar/phase order violated")
            break
    # update once per market per bar in market order; the first refresh touches every market
    if [(e[1], e[2]) for e in ev if e[0] == "update"] != [(t, m) for t in bars for m in range(nm)]:
        V("Actuator.run:update-not-once-per-market", "market.update() calls are not one per market per bar in broker order")
    if [(e[1], e[2]) for e in ev if e[0] == "set" and e[3] == 1] != [(t, m) for t in bars for m in range(nm)]:
        V("Actuator.run:first-refresh", "the first status refresh of a bar does not touch every market once")
    # the second refresh touches exactly the markets with an accepted operation earlier in the bar
    upd = {}
    for e in ev:
        if e[0] == "ok" and phase(e) <= 9 and phase(e) >= 5:
            upd.setdefault(e[1], set()).add(e[3])
    want2 = [(t, m) for t in bars for m in range(nm) if m in upd.get(t, ())]
    got2 = [(e[1], e[2]) for e in ev if e[0] == "set" and e[3] == 2]
    if got2 != want2:
        miss = [x for x in want2 if x not in got2]
        extra = [x for x in got2 if x not in want2]
        V("Actuator.run:second-refresh" + (":written-market-not-refreshed" if miss else ":unwritten-market-refreshed"),
          f"before the market update of a bar the status of exactly the markets written to in that bar is refreshed again; {nm} markets, "
          f"not refreshed although written to (bar, market): {miss[:4]}, refreshed although not written to: {extra[:4]} — the update then runs on a status "
          f"that does not contain the strategy's own write")
    # every accepted operation / update record yields one action stamped with its bar, delivered exactly once at the end of that bar
    recorded = []
    for e in ev:
        if e[0] == "ok" or (e[0] == "free" and e[5]):
            recorded.append([e[4], e[1], e[3]])
        elif e[0] == "uact":
            recorded.append([e[3], e[1], e[2]])
    notified = [[e[2], e[3], e[4]] for e in ev if e[0] == "notify"]
    if notified != recorded:
        lost = [x for x in recorded if x not in notified]
        V("Actuator.notify:not-exactly-once", f"notified actions {notified[:5]}… differ from recorded ones {recorded[:5]}… (never delivered: {lost[:4]})")
    late = [e for e in ev if e[0] == "notify" and e[1] != e[3]]
    if late:
        src = [x for x in ev if x[0] in ("ok", "free") and x[4] == late[0][2]]
        V("Actuator.notify:late", f"the action {late[0][2]} stamped {late[0][3]} (issued from {src[0][2] if src else 'update()'}) was delivered to notify() in the bar "
                                  f"at {late[0][1]}, not at the end of the bar in which it ran")
    if obs["actions"] != recorded:
        V("Actuator.actions:mismatch", "Actuator.actions differs from the operations accepted during the run")
    # one account row per bar with its timestamp and prices
    if obs["df_index"] != bars or obs["status_ts"] != bars:
        V("Actuator.account_status_df:index", "account history index differs from the bar index")
    pr = [first_in_bin(case["prices"], t, step, resample) for t in bars]
    if obs["df_price"] != pr or [e[2] for e in ev if e[0] == "row"] != pr or [e[3] for e in ev if e[0] == "before"] != pr:
        V("Actuator.account_status_df:price", "price columns of the account history / snapshots are not the bar's price row")
    # is_open exactly on the market's own timestamps; gated operations are refused when closed
    openf = {}
    for e in ev:
        if e[0] == "set":
            idx = market_index(case["markets"][e[2]], step, resample)
            if e[4] != (e[1] in set(idx)):
                V("Market.set_market_status:is_open", f"market {e[2]} is_open={e[4]} at {e[1]}")
            if e[4] and e[5] != first_in_bin(case["markets"][e[2]]["times"], e[1], step, resample):
                V("Market.set_market_status:row", f"market {e[2]} read row {e[5]} at {e[1]}")
            openf[(e[1], e[2])] = e[4]
        elif e[0] == "ok" and not openf.get((e[1], e[3])):
            V("write_func:closed-market-accepted", f"operation accepted on a closed market: {e}")
        elif e[0] == "rej" and e[5] != (not openf.get((e[1], e[3]))):
            V("write_func:open-market-refused", f"operation refused as 'not open' on an open market (or vice versa): {e}")
        elif e[0] == "open" and not openf.get((e[1], e[2])):
            V("Actuator.run:open-callback-on-closed-market", f"{e}")
    if ev[-1][0] != "finalize":
        V("Actuator.run:finalize", "finalize() is not the last call")
    if obs.get("rerun") is not None:
        V("Actuator.run:second-run-differs", f"the same Actuator and strategy run a second time on the same data: first difference (index, second run, first run) "
                                             f"{str(obs['rerun'])[:300]}")


def model_request(case):
    def ints(l):
        return [str(x) for x in l]
    specs = [{k: ([[str(a), str(b)] for a, b in v] if k == "rs" else [str(x) for x in v] if isinstance(v, list)
                  else str(v) if isinstance(v, int) and not isinstance(v, bool) else v) for k, v in sp.items()} for sp in case["specs"]]
    return {"fn": "run", "markets": [{"idx": ints([t for t in m["times"] for _ in range(m.get("rows", 1))]), "open": m["open"], "sparse": bool(m.get("sparse", False))} for m in case["markets"]],
            "prices": ints(case["prices"]),
            "delta": str(60 * case["interval"]), "resample": resampled(case["istr"]), "specs": specs, "script": case["script"]}


def check_case(ctx: Ctx, case, reqs=None):
    obs = run_impl(case)
    rep = case
    nm = len(case["markets"])
    kinds = "+".join(sorted(m["kind"] + ("~sparse" if m.get("sparse") else "") for m in case["markets"]))
    ev = obs["events"]
    if obs["err"] is None:
        oracle(ctx, case, obs, rep)
    phases = sorted({e[2].split(":")[0] for e in ev if e[0] in ("ok", "rej", "free")})
    tag = (f"i{case['interval']}{'' if resampled(case['istr']) else 'raw'}:{kinds}:bars{min(3, sum(1 for e in ev if e[0] == 'before').bit_length() // 3)}:"
           f"{'/'.join(phases) or 'noops'}:{'set2' if any(e[0] == 'set' and e[3] == 2 for e in ev) else '-'}:"
           f"{'closed' if any(e[0] == 'rej' and e[5] for e in ev) else '-'}:{'free' if any(e[0] == 'free' for e in ev) else '-'}:{'uact' if any(e[0] == 'uact' for e in ev) else '-'}:"
           f"{'fire' if any(e[0] == 'fire' for e in ev) else '-'}:{obs['err'] or 'ok'}")
    ctx.case(tag, {"interval": case["istr"], "markets": [(m["kind"], len(m["times"])) for m in case["markets"]], "events": len(ev), "err": obs["err"]})
    if obs["err"] is not None:
        expected = {"DemeterError", "KeyError", "ValueError", "IndexError"}
        if obs["err"] not in expected:
            ctx.violate(f"Actuator.run:{obs['err']}", f"run raised {obs['err']}: {(obs.get('exc') or '')[-300:]}", rep)
    if reqs is not None:
        reqs.append((rep, obs, model_request(case)))
    return obs


def compare(ctx, rep, obs, ans):
    if "error" in ans:
        ctx.disagree(f"driver error {ans['error']}", rep)
        return
    if ans["make"] != obs["make"]:
        ctx.disagree(f"trigger constructors: impl {obs['make']} model {ans['make']}", rep)
        return
    if ans["err"] != obs["err"]:
        ctx.disagree(f"outcome: impl {obs['err']} model {ans['err']}", rep)
        return
    mt, it = ans["trace"], obs["events"]
    if mt != it:
        k = next((i for i, (x, y) in enumerate(zip(mt, it)) if x != y), min(len(mt), len(it)))
        ctx.disagree(f"call traces differ at event {k}: impl {it[k - 1:k + 2]} model {mt[k - 1:k + 2]} (lengths {len(it)}/{len(mt)})", rep)
        return
    if obs["err"] is None:
        if ans["actions"] != obs["actions"]:
            ctx.disagree("action lists differ", rep)
        if [r[0] for r in ans["rows"]] != obs["df_index"] or [r[1] for r in ans["rows"]] != obs["df_price"]:
            ctx.disagree("account rows differ", rep)
        if ans["left"] != obs["left"]:
            ctx.disagree(f"triggers left: impl {obs['left']} model {ans['left']}", rep)


def real_market_resample(ctx: Ctx):
    """Actuator.switch_interval calls market._resample(interval) on every market: run it on each real market class"""
    cl.setup()
    from decimal import Decimal
    from demeter import MarketInfo, TokenInfo
    from demeter.aave import AaveV3Market
    from demeter.gmx import GmxMarket
    from demeter.gmx.market2 import GmxV2Market
    from demeter.gmx._typing2 import GmxV2Pool
    from demeter.squeeth import SqueethMarket
    weth, usdc = TokenInfo("weth", 18), TokenInfo("usdc", 6)
    times = [8 * 3600 + 180 + 60 * i for i in range(12)]
    want = expected_index(times, 300, True)

    def fr():
        return pd.DataFrame({"v": [float(i) for i in range(len(times))]}, index=pd.DatetimeIndex([cl.at(t) for t in times]))
    import os
    risk = os.path.join(cl_repo(), "tests", "aave_risk_parameters", "demo.csv")
    makers = {
        "AaveV3Market": lambda: AaveV3Market(MarketInfo("aave"), risk, [weth], data=fr()),
        "GmxMarket": lambda: GmxMarket(MarketInfo("gmx"), [weth], data=fr()),
        "GmxV2Market": lambda: GmxV2Market(MarketInfo("gmx2"), GmxV2Pool(weth, usdc, weth), data=fr()),
        "SqueethMarket": lambda: SqueethMarket(MarketInfo("sq"), None, data=fr()),
    }
    for name, mk in makers.items():
        try:
            m = mk()
        except Exception as e:  # noqa: BLE001
            ctx.note(f"resample_{name}", f"could not construct: {type(e).__name__}")
            continue
        try:
            m._resample("5min")
            got = [cl.sec(t) for t in m.data.index]
            ok = got == want
            ctx.case(f"real-resample:{name}:{'ok' if ok else 'wrong-index'}")
            if not ok:
                ctx.violate(f"{name}._resample:index", f"{name}._resample('5min') of 12 one-minute rows from 08:03 gives index {got}", {"real_resample": name})
        except Exception as e:  # noqa: BLE001
            ctx.case(f"real-resample:{name}:{type(e).__name__}")
            ctx.violate(f"{name}._resample:{type(e).__name__}",
                        f"{name}._resample('5min') raises {type(e).__name__} ({str(e)[:120]}): a run with interval != 1min cannot start", {"real_resample": name})


def cl_repo():
    import common
    return common.REPO


def fixed_cases():
    """configurations every run starts with (the random stream reaches them too, these make the check independent of the seed)"""
    base = [7200 + 60 * i for i in range(120)]
    empty = {"init": [], "before": [], "fire": [], "open": [], "on": [], "after": [], "upd": [], "notify": [], "fuel": 100000}
    out = []
    # a minutely market and an hourly option book with more rows (2 hours x 80 instruments) than the minutely market has minutes
    for order in (0, 1):
        ms = [{"kind": "minutely", "times": base, "open": False}, {"kind": "book", "times": [7200, 10800], "open": True, "rows": 80}]
        out.append({"interval": 1, "istr": "1min", "markets": ms[::-1] if order else ms, "prices": base, "specs": [],
                    "script": dict(empty, on=[[0, [[1 - order, True, "t1", True]]], [61, [[order, True, "t2", True]]]])})
    # several markets, only a later-registered one is written to in on_bar / before_bar: the refresh after on_bar must reach it
    short = base[:6]
    for nm, target in ((2, 1), (3, 2), (3, 1)):
        ms = [{"kind": "minutely", "times": short, "open": False} for _ in range(nm)]
        out.append({"interval": 1, "istr": "1min", "markets": ms, "prices": short, "specs": [],
                    "script": dict(empty, on=[[1, [[target, True, "t1", True]]], [3, [[target, True, "t2", True], [0, True, "t3", False]]]],
                                   before=[[4, [[target, True, "t4", True]]]])})
    # the strategy answers a delivered action from inside notify(): in the middle of the run, on the last bar, twice in a row
    ms = [{"kind": "minutely", "times": short, "open": False}, {"kind": "minutely", "times": short, "open": False}]
    out.append({"interval": 1, "istr": "1min", "markets": ms, "prices": short, "specs": [],
                "script": dict(empty, on=[[2, [[0, True, "t1", True]]], [5, [[1, True, "t4", False]]]], upd=[[3, 1, ["u1"]]],
                               notify=[[2, "t1", [[1, True, "t2", True], [0, False, "t2x", True]]], [2, "t2", [[0, True, "t3", False]]],
                                       [5, "t4", [[0, True, "t5", True]]], [3, "u1", [[1, True, "t6", True]]]])})
    return out


def run(ctx: Ctx):
    cl.setup()
    real_market_resample(ctx)
    n = ctx.scale(260, 6000)
    reqs = []
    for case in fixed_cases():
        check_case(ctx, case, reqs)
    for i in range(n):
        check_case(ctx, gen_case(ctx.rng, big=(i % 10 == 0)), reqs)
    ctx.impl_traces = len(reqs)
    if ctx.driver_ok and reqs:
        out = driver_json([r[2] for r in reqs], exe="driver_core")
        for (rep, obs, _), ans in zip(reqs, out):
            compare(ctx, rep, obs, ans)


def replay(ctx: Ctx, case) -> bool:
    sub = Ctx(ctx.prop, ctx.tier, ctx.seed, False)
    if "real_resample" in case:
        real_market_resample(sub)
        sub.violations = [v for v in sub.violations if v["replay"].get("real_resample") == case["real_resample"]]
    else:
        check_case(sub, case, None)
    for v in sub.violations:
        print("  ", v["key"], v["what"])
    return not sub.violations
