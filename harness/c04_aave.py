"""C04 (Aave part) — a rejected Aave operation leaves wallet, supplies, borrows and the action log exactly as they
were (and therefore every derived view as observed): every operation × every rejection cause.

Generator: a random prefix of accepted operations builds a portfolio (collateral and non-collateral supplies,
debts, wallet), then for every (operation, cause) pair an operation is *crafted* so that exactly that
precondition fails in the current state (closed market, zero / negative amount, unknown token, token not usable
as collateral, collateral-flag mismatch, wallet short / token not in wallet, amount > supply, HF < 1 on withdraw /
on collateral switch / before borrow, borrowing disabled, no collateral, LTV 0, collateral cannot cover, no such
debt, amount > debt, repay-with-collateral token not supplied / not collateral, …).
Oracle: snapshot of `_supplies`, `_borrows`, `Broker._assets`, the recorded actions and every derived view (read on a
copy) before and after the raising call.  Correspondence: the same step on the model, including the state the
model leaves behind after the rejection (caches included).
"""
from __future__ import annotations

from decimal import Decimal as D

import aave_lib as A
from common import Ctx, driver_json, fmt

PROPERTY = "C04"
LEAN_MODULES = ["Proofs.C04.Aave", "Proofs.C04.AaveUpdate"]
DRIVERS = ["driver_aave"]
RULE = ("[aave] for each operation and each rejection cause the model distinguishes, an operation is crafted in a randomly built portfolio so "
        "that exactly that precondition fails; bucket = (operation, model rejection cause, argument class)")
TRUSTED = ["[aave] the rejected-call theorems hold for every arithmetic context"]
ASSUMPTIONS = ["[aave] change_collateral: no assumption (C04_aave_changeCollateral_reject_noop holds for every state and bar; the causes "
               "hfRaisesNoPrice / NoRisk / NoStatus make the health-factor evaluation itself raise between the flip and the check, "
               "cannotCollateral switches on a token the risk table does not admit)",
               "[aave] update(): a loop of atomic _do_liquidate steps (C04_aave_do_liquidate_atomic); on a well-formed bar and state (Aave.updWF, "
               "evaluated by the harness on the implementation's state and by the driver on the model's for every update() of this run) it "
               "completes (C04_aave_update_completes, exact arithmetic; never a DemeterError under monotone rounding); on malformed bars "
               "(held token without price / risk row, zero or negative price, zero index, closed market) whatever it raises before a "
               "liquidation was recorded leaves everything intact (C04_aave_update_raise_noop) — a raise between two recorded steps leaves "
               "the completed steps in place (counted: aave_update_raised_between_recorded_steps)"]

CAUSES = {
    "supply": ["closed", "zero", "negative", "cannotCollateral", "unknown", "flagMismatch", "insufficient", "walletUnknown"],
    "withdraw": ["closed", "zero", "negative", "unknown", "notSupplied", "exceed", "hfLow"],
    "borrow": ["closed", "zero", "negative", "unknown", "disabled", "collZero", "ltvZero", "hfNotAbove", "cannotCover", "noneNoCollateral"],
    "repay": ["closed", "zero", "negative", "unknown", "noDebt", "exceed", "insufficient", "walletUnknown", "notSupplied", "notCollateral"],
    "changeCollateral": ["closed", "notSupplied", "hfLow", "cannotCollateral", "hfRaisesNoPrice", "hfRaisesNoRisk", "hfRaisesNoStatus",
                         "zeroIndex"],
    "update": ["closed"],
    "read": ["getSupply", "getBorrow", "maxBorrowNoCollateral"],
}


def craft(rng, m, b, env, kind, cause):
    """an op of `kind` that should be rejected for `cause` in the current state, or None when the state cannot provide it"""
    toks = env["tokens"]
    sup = {k.name: v for k, v in m._supplies.items()}
    bor = {k.name: v for k, v in m._borrows.items()}
    wal = {k.name: a.balance for k, a in b._assets.items()}
    idx = lambda t, f: env["status"][t][f]
    pos = lambda: A.log_uniform(rng, -3, 3)
    if cause == "closed":
        t = rng.choice(toks)
        base = {"supply": {"tok": t, "amount": fmt(pos()), "coll": True}, "withdraw": {"tok": t, "amount": fmt(pos())},
                "borrow": {"tok": t, "amount": fmt(pos())}, "repay": {"tok": t, "amount": fmt(pos()), "withColl": False, "collTok": None},
                "changeCollateral": {"tok": t, "coll": rng.random() < 0.5}, "update": {}}[kind]
        return dict(base, kind=kind, _closed=True)
    if cause in ("zero", "negative"):
        a = D(0) if cause == "zero" else -pos()
        t = rng.choice(list(sup) or toks) if kind == "withdraw" else rng.choice(list(bor) or toks) if kind == "repay" else rng.choice(toks)
        if kind == "supply":
            return {"kind": kind, "tok": t, "amount": fmt(a), "coll": sup[t].collateral if t in sup else True}
        if kind == "repay":
            return {"kind": kind, "tok": t, "amount": fmt(a), "withColl": False, "collTok": None}
        return {"kind": kind, "tok": t, "amount": fmt(a)}
    if cause == "unknown":
        a = fmt(pos())
        if kind == "supply":
            return {"kind": kind, "tok": A.UNKNOWN, "amount": a, "coll": rng.random() < 0.5}
        if kind == "repay":
            return {"kind": kind, "tok": A.UNKNOWN, "amount": a, "withColl": False, "collTok": None}
        return {"kind": kind, "tok": A.UNKNOWN, "amount": a}
    if kind == "supply":
        if cause == "cannotCollateral":
            c = [t for t in toks if not env["risk"][t]["canColl"] and t not in sup]
            return {"kind": kind, "tok": rng.choice(c), "amount": fmt(pos()), "coll": True} if c else None
        if cause == "flagMismatch":
            c = [t for t in sup if (not sup[t].collateral) and env["risk"][t]["canColl"]] + [t for t in sup if sup[t].collateral]
            if not c:
                return None
            t = rng.choice(c)
            amt = wal.get(t, D(0)) * A.dec_digits(rng, 0.1, 0.9, 3) if wal.get(t, D(0)) > 0 else pos()
            return {"kind": kind, "tok": t, "amount": fmt(amt), "coll": not sup[t].collateral}
        if cause == "insufficient":
            c = [t for t in toks if t in wal]
            if not c:
                return None
            t = rng.choice(c)
            coll = sup[t].collateral if t in sup else bool(env["risk"][t]["canColl"])
            return {"kind": kind, "tok": t, "amount": fmt(wal[t] * rng.choice([D("1.001"), D(2), D(10)]) + D("0.001")), "coll": coll}
        if cause == "walletUnknown":
            c = [t for t in toks if t not in wal]
            if not c:
                return None
            t = rng.choice(c)
            return {"kind": kind, "tok": t, "amount": fmt(pos()), "coll": sup[t].collateral if t in sup else bool(env["risk"][t]["canColl"])}
    if kind == "withdraw":
        if cause == "notSupplied":
            c = [t for t in toks if t not in sup]
            return {"kind": kind, "tok": rng.choice(c), "amount": fmt(pos())} if c else None
        if cause == "exceed":
            if not sup:
                return None
            t = rng.choice(list(sup))
            amt = sup[t].base_amount * idx(t, "liqIdx")
            return {"kind": kind, "tok": t, "amount": fmt(amt * rng.choice([1 + D(10) ** -9, D("1.5"), D(10)]) + D(10) ** -30)}
        if cause == "hfLow":
            c = [t for t in sup if sup[t].collateral and env["risk"][t]["lt"] > 0]
            if not c or not bor:
                return None
            t = rng.choice(c)
            amt = sup[t].base_amount * idx(t, "liqIdx")
            return {"kind": kind, "tok": t, "amount": None if rng.random() < 0.3 else fmt(amt * A.dec_digits(rng, 0.9, 1.0, 6))}
    if kind == "borrow":
        has_coll = any(v.collateral for v in sup.values())
        if cause == "disabled":
            c = [t for t in toks if not env["risk"][t]["canBorrow"]]
            return {"kind": kind, "tok": rng.choice(c), "amount": fmt(pos())} if c else None
        if cause == "collZero":
            c = [t for t in toks if env["risk"][t]["canBorrow"]]
            return {"kind": kind, "tok": rng.choice(c), "amount": fmt(pos())} if c and not has_coll else None
        if cause == "ltvZero":
            colls = [t for t in sup if sup[t].collateral]
            c = [t for t in toks if env["risk"][t]["canBorrow"]]
            if c and colls and all(env["risk"][t]["ltv"] == 0 for t in colls):
                return {"kind": kind, "tok": rng.choice(c), "amount": fmt(pos())}
            return None
        if cause in ("hfNotAbove", "cannotCover"):
            c = [t for t in toks if env["risk"][t]["canBorrow"]]
            if not c or not has_coll:
                return None
            t = rng.choice(c)
            try:
                ref = A.clone_market(m, False).get_max_borrow_amount(A.token(t))
                hf = A.clone_market(m, False).health_factor
            except Exception:  # noqa: BLE001
                return None
            if cause == "hfNotAbove":
                return {"kind": kind, "tok": t, "amount": fmt(A.log_uniform(rng, -6, -2))} if hf <= 1 else None
            if not ref.is_finite() or ref <= 0:
                return None
            return {"kind": kind, "tok": t, "amount": fmt(ref / D("0.99") * rng.choice([1 + D(10) ** -9, D("1.2"), D(5)]))}
        if cause == "noneNoCollateral":
            c = [t for t in toks if env["risk"][t]["canBorrow"]]
            return {"kind": kind, "tok": rng.choice(c), "amount": None} if c and not has_coll else None
    if kind == "repay":
        if cause == "noDebt":
            c = [t for t in toks if t not in bor]
            return {"kind": kind, "tok": rng.choice(c), "amount": fmt(pos()), "withColl": False, "collTok": None} if c else None
        if not bor:
            return None
        t = rng.choice(list(bor))
        debt = bor[t].base_amount * idx(t, "varIdx")
        if cause == "exceed":
            return {"kind": kind, "tok": t, "amount": fmt(debt * rng.choice([1 + D(10) ** -9, D(2)]) + D(10) ** -15), "withColl": False, "collTok": None}
        if cause == "insufficient":
            if t not in wal:
                return None
            if wal[t] >= debt:
                # the borrowed tokens have been spent elsewhere (e.g. moved to another market)
                b.set_balance(A.token(t), (debt * A.dec_digits(rng, 0, 0.9, 4)).normalize())
                wal[t] = b._assets[A.token(t)].balance
            return {"kind": kind, "tok": t, "amount": None if rng.random() < 0.5 else fmt(wal[t] + (debt - wal[t]) * A.dec_digits(rng, 0.1, 1, 4)),
                    "withColl": False, "collTok": None}
        if cause == "walletUnknown":
            if t in wal:
                if rng.random() < 0.5:
                    return None
                del b._assets.data[A.token(t)]      # state injection: a broker whose wallet never held the token
            return {"kind": kind, "tok": t, "amount": fmt(debt / 2), "withColl": False, "collTok": None}
        if cause == "notSupplied":
            c = [x for x in toks if x not in sup]
            return {"kind": kind, "tok": t, "amount": fmt(debt / 2), "withColl": True, "collTok": rng.choice(c)} if c else None
        if cause == "notCollateral":
            c = [x for x in sup if not sup[x].collateral]
            return {"kind": kind, "tok": t, "amount": fmt(debt / 2), "withColl": True, "collTok": rng.choice(c)} if c else None
    if kind == "changeCollateral":
        if cause == "notSupplied":
            c = [t for t in toks if t not in sup]
            return {"kind": kind, "tok": rng.choice(c), "coll": rng.random() < 0.5} if c else None
        if cause == "hfLow":
            c = [t for t in sup if sup[t].collateral]
            if not c or not bor:
                return None
            # the biggest collateral: switching it off is the most likely to sink the health factor
            t = max(c, key=lambda x: sup[x].base_amount * idx(x, "liqIdx") * env["price"][x] * env["risk"][x]["lt"])
            return {"kind": kind, "tok": t, "coll": False}
        if cause == "cannotCollateral":
            # switching ON a supply whose token the risk table does not admit as collateral (supply(..., collateral=True) refuses it too)
            c = [t for t in sup if (not sup[t].collateral) and not env["risk"][t]["canColl"]]
            return {"kind": kind, "tok": rng.choice(c), "coll": True} if c else None
        if cause in ("hfRaisesNoPrice", "hfRaisesNoRisk", "hfRaisesNoStatus", "zeroIndex"):
            # switching a collateral OFF in a bar whose data lacks a row the health-factor evaluation needs: the evaluation itself raises
            # (KeyError) between the flip and the check — the flag must be written back all the same
            c = [t for t in sup if sup[t].collateral]
            if not c:
                return None
            t = rng.choice(c)
            others = [x for x in c if x != t]
            if cause == "hfRaisesNoPrice":
                x = rng.choice(others + list(bor)) if (others or bor) else None
                patch = {"dropPrice": x}
            elif cause == "hfRaisesNoRisk":
                x = rng.choice(others) if others else None
                patch = {"dropRisk": x}
            elif cause == "hfRaisesNoStatus":
                held = [y for y in list(sup) + list(bor) if y != t]
                x = rng.choice(held) if held else None
                patch = {"dropStatus": x}
            else:
                x = rng.choice(list(sup) + list(bor))
                patch = {"zeroIndex": x}
            if x is None:
                return None
            return {"kind": kind, "tok": t, "coll": False, "_env": patch}
    if kind == "read":
        if cause == "getSupply":
            c = [t for t in toks + [A.UNKNOWN] if t not in sup]
            return {"kind": "read", "view": "getSupply", "tok": rng.choice(c)} if c else None
        if cause == "getBorrow":
            c = [t for t in toks + [A.UNKNOWN] if t not in bor]
            return {"kind": "read", "view": "getBorrow", "tok": rng.choice(c)} if c else None
        if cause == "maxBorrowNoCollateral":
            return {"kind": "read", "view": "maxBorrowAmount", "tok": rng.choice(toks)} if not any(v.collateral for v in sup.values()) else None
    return None


def patch_env(env, patch):
    """the same bar with one row removed (or one token's indices zeroed): data the code trips over in the middle of a call"""
    e = dict(env, status=dict(env["status"]), price=dict(env["price"]), risk=dict(env["risk"]), tokens=list(env["tokens"]))
    if "dropPrice" in patch:
        e["price"].pop(patch["dropPrice"], None)
    if "dropRisk" in patch:
        e["risk"].pop(patch["dropRisk"], None)
    if "dropStatus" in patch:
        e["status"].pop(patch["dropStatus"], None)
        e["tokens"] = [t for t in e["tokens"] if t != patch["dropStatus"]]
    if "zeroIndex" in patch:
        t = patch["zeroIndex"]
        e["status"][t] = dict(e["status"][t], liqIdx=D(0), varIdx=D(0))
    return e


def snapshot(m, b, actions, toks):
    st = A.dump_state(m, b, actions, 0)
    c = A.clone_market(m, True)
    views = {v: A.observe_view(c, v) for v in A.VIEWS0}
    return {"supplies": st["supplies"], "borrows": st["borrows"], "wallet": st["wallet"], "actions": st["actions"], "views": views}


def check_reject(ctx: Ctx, before, after, op, outcome, case):
    if outcome == "ok":
        return True
    ok = True
    for part in ("wallet", "supplies", "borrows", "actions", "views"):
        d = A.diff(before[part], after[part])
        if d:
            ok = False
            ctx.violate(f"aave.{op['kind']}:{outcome}:{part}", f"{ {k: v for k, v in op.items() if not k.startswith('_')} } raised {outcome} but {part} changed: {d[:300]}", case)
    return ok


def run_sequence(ctx: Ctx, rng, reqs, meta, exact_env):
    env = A.gen_env(rng, exact=exact_env)
    if rng.random() < 0.12:
        for t in env["tokens"]:
            env["risk"][t]["ltv"] = D(0)       # every collateral has LTV 0: borrow is refused by "ltv validation failed"
    m, b, actions = A.new_market(env, A.initial_wallet(rng, env))
    # prefix: build a portfolio
    for _ in range(rng.randint(2, 14)):
        op = A.gen_op(rng, m, b, env, malformed=0.0)
        if op["kind"] in ("read", "update"):
            continue
        A.apply_op(m, op)
    if rng.random() < 0.35 and m._supplies:
        # a price shock brings HF to or below 1: borrow is then refused by the `health_factor > 1` check
        shock = {t.name: A.dec_digits(rng, 0.2, 0.9, 3) for t in m._supplies}
        env = A.next_env(rng, env, shock)
        A.install_env(m, env)
    pairs = [(k, c) for k, cs in CAUSES.items() for c in cs]
    rng.shuffle(pairs)
    for kind, cause in pairs:
        op = craft(rng, m, b, env, kind, cause)
        if op is None:
            ctx.count(f"aave_not_constructible:{kind}:{cause}")
            continue
        closed = op.pop("_closed", False)
        patch = op.pop("_env", None)
        env_used = dict(patch_env(env, patch) if patch else env, isOpen=not closed)
        if patch:
            A.install_env(m, env_used)
        m.is_open = not closed
        # sometimes warm the caches first: a rejected call must not disturb what they hold either
        if rng.random() < 0.5:
            A.apply_op(m, {"kind": "read", "view": rng.choice(A.VIEWS0)})
        s0 = A.dump_state(m, b, actions, len(actions))
        n0 = len(actions)
        before = snapshot(m, b, actions, env["tokens"])
        outcome, result = A.apply_op(m, op)
        after = snapshot(m, b, actions, env["tokens"])
        s1 = A.dump_state(m, b, actions, n0)
        if patch:
            A.install_env(m, env)
        m.is_open = True
        case = {"env": A.env_json(env_used), "state": s0, "op": op}
        check_reject(ctx, before, after, op, outcome, case)
        reqs.append(A.step_request(env_used, s0, op))
        meta.append((case, outcome, s1, kind, cause))
        ctx.impl_traces += 1


def run_tie(ctx: Ctx, rng, reqs, meta):
    """`update()` on a portfolio at an exact liquidation tie: whatever it raises, it must leave everything as it was"""
    env, m, b, actions, kind = A.tie_market(rng)
    if rng.random() < 0.5:
        A.apply_op(m, {"kind": "read", "view": rng.choice(A.VIEWS0)})
    op = {"kind": "update"}
    s0 = A.dump_state(m, b, actions, len(actions))
    n0 = len(actions)
    before = snapshot(m, b, actions, env["tokens"])
    outcome, _ = A.apply_op(m, op)
    after = snapshot(m, b, actions, env["tokens"])
    s1 = A.dump_state(m, b, actions, n0)
    case = {"env": A.env_json(env), "state": s0, "op": op}
    check_reject(ctx, before, after, op, outcome, case)
    reqs.append(A.step_request(env, s0, op))
    meta.append((case, outcome, s1, "update", "liqTie:" + kind))
    ctx.impl_traces += 1


def run_update(ctx: Ctx, rng, reqs, meta, exact_env):
    """`update()` at the end of a bar in which the collateral lost value — on a well-formed bar (it must complete:
    `C04_aave_update_completes`; the hypothesis `Aave.updWF` is evaluated here and by the driver) and on malformed ones (a held token
    without a price, a zero or negative price, a zero index, a closed market): whatever it raises before a liquidation has been recorded
    must leave everything as it was (`C04_aave_update_raise_noop`); a raise between two recorded steps is counted."""
    env = A.gen_env(rng, exact=exact_env)
    m, b, actions = A.new_market(env, A.initial_wallet(rng, env))
    for _ in range(rng.randint(3, 14)):
        op = A.gen_op(rng, m, b, env, malformed=0.0)
        if op["kind"] in ("read", "update"):
            continue
        A.apply_op(m, op)
    if not m._supplies:
        return
    shock = {t.name: A.dec_digits(rng, 0.15, 0.9, 3) for t in m._supplies if rng.random() < 0.85}
    env = A.next_env(rng, env, shock)
    held = [k.name for k in list(m._supplies) + list(m._borrows)]
    flaw = rng.choice(["none", "none", "none", "noPrice", "zeroPrice", "negPrice", "zeroLiqIdx", "zeroVarIdx", "closed", "noRisk"])
    t = rng.choice(held)
    if flaw == "noPrice":
        env["price"] = {k: v for k, v in env["price"].items() if k != t}
    elif flaw == "zeroPrice":
        env["price"][t] = D(0)
    elif flaw == "negPrice":
        env["price"][t] = -env["price"][t]
    elif flaw == "zeroLiqIdx":
        env["status"][t]["liqIdx"] = D(0)
    elif flaw == "zeroVarIdx":
        env["status"][t]["varIdx"] = D(0)
    elif flaw == "noRisk":
        env["risk"] = {k: v for k, v in env["risk"].items() if k != t}
    elif flaw == "closed":
        env["isOpen"] = False
    A.install_env(m, env)
    for _ in range(rng.choice([0, 0, 1, 2])):
        A.apply_op(m, {"kind": "read", "view": rng.choice(A.VIEWS0)})      # warm caches: must not matter
    op = {"kind": "update"}
    s0 = A.dump_state(m, b, actions, len(actions))
    n0 = len(actions)
    before = snapshot(m, b, actions, env["tokens"])
    outcome, _ = A.apply_op(m, op)
    after = snapshot(m, b, actions, env["tokens"])
    s1 = A.dump_state(m, b, actions, n0)
    case = {"env": A.env_json(env), "state": s0, "op": op}
    wf = A.upd_wf(env, s0)
    nliq = sum(1 for a in s1["actions"] if a["kind"] == "liquidation")
    ctx.count("aave_update_on_well_formed_state" if wf else f"aave_update_on_malformed_state:{flaw}")
    if wf and env.get("isOpen", True) and outcome != "ok":
        ctx.violate(f"aave.update:raises-on-well-formed-state:{outcome}",
                    f"update() raised {outcome} on an open market although the bar and the positions are well formed", case)
    if outcome != "ok":
        if nliq == 0:
            check_reject(ctx, before, after, op, outcome, case)
        else:
            ctx.count("aave_update_raised_between_recorded_steps")
    reqs.append(A.step_request(env, s0, op))
    meta.append((case, outcome, s1, "update", f"{flaw}:liq{min(nliq, 2)}:{'wf' if wf else 'malformed'}", wf))
    ctx.impl_traces += 1


def run(ctx: Ctx):
    rng = ctx.rng
    nseq = ctx.scale(70, 2800)
    reqs, meta = [], []
    for i in range(nseq):
        run_sequence(ctx, rng, reqs, meta, exact_env=(i % 3 == 1))
    for i in range(ctx.scale(10, 200)):
        run_tie(ctx, rng, reqs, meta)
    for i in range(ctx.scale(120, 3000)):
        run_update(ctx, rng, reqs, meta, exact_env=(i % 3 == 1))
    if ctx.driver_ok:
        outs = driver_json(reqs, exe=A.EXE)
        for mt, o in zip(meta, outs):
            case, outcome, s1, kind, cause = mt[:5]
            op = case["op"]
            if "error" in o:
                ctx.disagree(f"[aave] driver error {o['error']}", case)
                continue
            if len(mt) > 5:
                # the update() stream: the bucket is (flaw of the bar, liquidations recorded, well-formedness), and the model must
                # evaluate the hypothesis `Aave.updWF` as the harness did on the implementation's state
                ctx.case(f"aave:update:{o['tag']}:{cause}", {"op": op, "outcome": outcome, "aimed_at": cause})
                if o.get("wf") != mt[5]:
                    ctx.disagree(f"[aave] {op}: well-formedness (Aave.updWF) impl-side {mt[5]} model {o.get('wf')}", case)
            else:
                ctx.case(f"aave:{op.get('view', kind)}:{o['tag']}:{A.arg_class(op)}", {"op": op, "outcome": outcome, "aimed_at": cause})
            if o["tag"] == "ok" and len(mt) == 5:
                ctx.count(f"aave_crafted_but_accepted:{kind}:{cause}")
            if o["outcome"] != outcome:
                ctx.disagree(f"[aave] {op}: impl {outcome} model {o['outcome']}/{o['tag']}", case)
                continue
            d = A.diff(s1, o["state"])
            if d:
                ctx.disagree(f"[aave] {op} ({outcome}/{o['tag']}): state after differs at {d[:300]}", case)
    else:
        for mt in meta:
            case, outcome, _, kind, cause = mt[:5]
            ctx.case(f"aave:{kind}:{outcome}:{cause}")


def replay(ctx: Ctx, case) -> bool:
    env = A.env_from_json(case["env"])
    m, b, actions = A.new_market(env)
    A.load_state(m, b, case["state"])
    m.is_open = env.get("isOpen", True)
    before = snapshot(m, b, actions, env["tokens"])
    outcome, _ = A.apply_op(m, case["op"], env)
    after = snapshot(m, b, actions, env["tokens"])
    sub = Ctx(ctx.prop, ctx.tier, ctx.seed, False)
    if case["op"]["kind"] == "update":
        if env.get("isOpen", True) and outcome != "ok" and A.upd_wf(env, case["state"]):
            print(f"   update() raised {outcome} on a well-formed bar and state")
            return False
        if outcome != "ok" and len(after["actions"]) > len(before["actions"]):
            return True       # raised between two recorded liquidation steps: the steps before the raise stand
    check_reject(sub, before, after, case["op"], outcome, case)
    for v in sub.violations:
        print("  ", v["key"], v["what"])
    return not sub.violations
