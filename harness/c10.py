"""C10 — Aave balances accrue exactly with the indices; operations move exactly the stated amounts.

Oracle (exact `Fraction` arithmetic on the implementation's observations, independent of the Lean model):
 * accrual: along a history of 1-120 bars with non-decreasing indices and interleaved operations on several tokens,
   `get_supply(t).amount` = Σ supplied_j · I_now / I_j − Σ withdrawn_k · I_now / I_k (and the same for debts with the
   variable borrow index) within 1e-18 — the shadow ledger is kept by the harness from the *accepted* calls only;
 * exact moves: an accepted supply / withdraw / borrow / repay (cash or collateral) changes the wallet by exactly the
   stated amount (or to 0 within Asset.sub's 1e-5 dust) and the position by the stated amount within 1e-18;
   a position is never credited with more than the wallet paid — which Asset.sub's tolerance breaks for amounts up to 1e-5 above the
   balance (known finding `move:*:overdraft-dust`, generated deterministically by `overdraft_dust`);
 * split / merge: op(a+b) versus op(a); op(b) on two copies of the same state end with positions within 1e-18;
 * a fully repaid debt / fully withdrawn supply (amount=None, or the exact balance) disappears.
Correspondence: every step is replayed on the model from the implementation's dumped state.
"""
from __future__ import annotations

import copy
from decimal import Decimal as D
from fractions import Fraction as F

import aave_lib as A
from common import Ctx, driver_json, fmt

PROPERTY = "C10"
LEAN_MODULES = ["Proofs.C10", "Proofs.C10.Accrual", "Proofs.C10.Debt", "Proofs.C10.Split", "Proofs.C10.Robust",
                "Proofs.C10.Bars", "Proofs.C10.Pinned", "Proofs.C10.Overdraft", "Proofs.C10.Interleaved", "Proofs.C10.BarsRobust",
                "Proofs.C10.InterleavedDust"]
DRIVERS = ["driver_aave"]
RULE = ("index paths: 1-120 bars, 27-digit indices growing by 0-3 % per bar (or exactly representable ones), 2-4 tokens; operations: supply / "
        "withdraw / borrow / repay(cash|collateral) with amounts that are fractions of the balance, the exact balance, None, and split pairs "
        "(a, b) versus (a+b); quiet bars (parts of the row, or everything but one price, repeat the previous bar), the same token supplied and borrowed, "
        "three or four borrows of one token inside one bar with cached views read in between; update() inside the ledgered sequences whenever the health factor is not in (0, 1), "
        "half of the bar changes preceded by the end-of-bar update() as in a real run; amounts 5e-6 above the wallet balance (Asset.sub's tolerance); bucket = (check, operation, model outcome, argument class, number of bars since the position was opened)")
TRUSTED = ["theorems are for exact rational arithmetic; the envelope (balances <= 1e12 tokens, <= 1e4 operations) keeps the accumulated "
           "35-digit rounding below 1e-18, which this run measures on every step (exact_vs_impl_max_rel_dev)"]
ASSUMPTIONS = ["indices are positive and non-decreasing; balances stay below 1e12 tokens",
               "the 1e-18 residue clamp of sub_base_amount removes a position whose scaled remainder is below 1e-18 - 1e-27"]

TOL = F(1, 10 ** 18)
MIN_TOKEN = F(1e-18 - 1e-27)


class Ledger:
    """shadow ledger: scaled balances as exact sums of amount / index-at-that-time"""
    def __init__(self):
        self.sup, self.bor, self.opened = {}, {}, {}

    def add(self, side, t, amt, idx, bar):
        d = getattr(self, side)
        if t not in d:
            self.opened[(side, t)] = bar
        d[t] = d.get(t, F(0)) + F(amt) / F(idx)

    def sub(self, side, t, amt, idx):
        d = getattr(self, side)
        d[t] = d.get(t, F(0)) - F(amt) / F(idx)
        if d[t] < MIN_TOKEN:
            del d[t]
            self.opened.pop((side, t), None)


def check_ledger(ctx: Ctx, m, env, led: Ledger, bar, case, what):
    for side, pos, idxf, getter in (("sup", m._supplies, "liqIdx", m.get_supply), ("bor", m._borrows, "varIdx", m.get_borrow)):
        exp = getattr(led, side)
        have = {k.name for k in pos}
        if have != set(exp):
            # a residue within rounding distance of the clamp threshold may fall on either side: re-sync instead of alarming
            near = [t for t in have ^ set(exp) if abs(exp.get(t, F(0))) < 2 * MIN_TOKEN and (t not in have or F(pos[A.token(t)].base_amount) < 2 * MIN_TOKEN)]
            if set(near) == have ^ set(exp):
                for t in near:
                    exp.pop(t, None)
                ctx.count("clamp_threshold_resync")
                continue
            ctx.violate(f"accrual.entries:{side}", f"{what}: {side} entries {sorted(have)} but the ledger of accepted operations has {sorted(exp)}", case)
            continue
        try:
            listing = m.supplies if side == "sup" else m.borrows      # the view a strategy reads (and that fills the market's caches, as a strategy's read does)
        except Exception:  # noqa: BLE001
            listing = {}
        for t, base in exp.items():
            idx = F(env["status"][t][idxf])
            amount = F(getter(A.token(t)).amount)
            ctx.dev(amount, base * idx)
            listed = listing.get(A.token(t))
            if listed is not None and abs(F(listed.amount) - base * idx) > TOL * max(1, abs(base * idx) / 10 ** 12):
                ctx.violate(f"accrual.amount-listed:{side}", f"{what}: market.{'supplies' if side == 'sup' else 'borrows'}[{t}].amount = {float(F(listed.amount)):.20g} but "
                            f"Σ a_j·I_now/I_j = {float(base * idx):.20g} ({bar - led.opened.get((side, t), bar)} bars after opening)", case)
            if abs(amount - base * idx) > TOL * max(1, abs(base * idx) / 10 ** 12):
                ctx.violate(f"accrual.amount:{side}", f"{what}: {side}[{t}].amount = {float(amount):.20g} but Σ a_j·I_now/I_j = {float(base * idx):.20g} "
                            f"({bar - led.opened.get((side, t), bar)} bars after opening)", case)


def wallet_of(b, t):
    k = A.token(t)
    return F(b._assets[k].balance) if k in b._assets else F(0)


def check_move(ctx: Ctx, m, b, env, op, outcome, before, case):
    """exact-move predicate for one accepted operation; `before` = (wallet, sup amount, debt amount) snapshots"""
    if outcome != "ok":
        return
    k, t = op["kind"], op["tok"]
    w0, s0, d0, ws0 = before
    li, vi = F(env["status"][t]["liqIdx"]), F(env["status"][t]["varIdx"])
    w1 = wallet_of(b, t)
    s1 = F(m._supplies[A.token(t)].base_amount) * li if A.token(t) in m._supplies else F(0)
    d1 = F(m._borrows[A.token(t)].base_amount) * vi if A.token(t) in m._borrows else F(0)
    amt = None if op.get("amount") is None else F(op["amount"])
    key = f"move:{k}"
    rel = F(1, 10 ** 30)

    def wallet_ok(delta):  # wallet moved by exactly delta, or was snapped to 0 inside the 1e-5 dust of Asset.sub
        exact = abs((w1 - w0) - delta) <= rel * max(abs(w0), abs(delta), 1)
        snapped = w1 == 0 and delta < 0 and abs(w0 + delta) < F(1, 10 ** 5) * abs(w0) * (1 + rel)
        return exact or snapped
    if k == "supply":
        if not wallet_ok(-amt):
            ctx.violate(key + ":wallet", f"{op}: wallet moved by {float(w1 - w0)!r} instead of {-float(amt)!r}", case)
        if abs((s1 - s0) - amt) > TOL * max(1, abs(s1) / 10 ** 12):
            ctx.violate(key + ":position", f"{op}: supply moved by {float(s1 - s0)!r} instead of {float(amt)!r}", case)
        # the position must not be credited with more than the wallet paid (Asset.sub forgives an overdraft of up to 1e-5 of the balance)
        if (s1 - s0) - (w0 - w1) > TOL * max(1, abs(s1) / 10 ** 12):
            ctx.violate(key + ":overdraft-dust", f"{op}: the supply was credited with {float(s1 - s0)!r} but the wallet held and paid only {float(w0 - w1)!r}", case)
    elif k == "withdraw":
        a = s0 if amt is None else amt
        if not wallet_ok(a) and abs((w1 - w0) - a) > TOL:
            ctx.violate(key + ":wallet", f"{op}: wallet moved by {float(w1 - w0)!r} instead of {float(a)!r}", case)
        if abs((s0 - s1) - a) > TOL * max(1, abs(s0) / 10 ** 12) + MIN_TOKEN * li:
            ctx.violate(key + ":position", f"{op}: supply moved by {float(s0 - s1)!r} instead of {float(a)!r}", case)
        if (amt is None or amt == s0) and A.token(t) in m._supplies:
            ctx.violate("full:withdraw", f"{op}: the supply was withdrawn in full but the entry is still there ({m._supplies[A.token(t)]})", case)
    elif k == "borrow":
        if amt is not None:
            if not wallet_ok(amt):
                ctx.violate(key + ":wallet", f"{op}: wallet moved by {float(w1 - w0)!r} instead of {float(amt)!r}", case)
            if abs((d1 - d0) - amt) > TOL * max(1, abs(d1) / 10 ** 12):
                ctx.violate(key + ":position", f"{op}: debt moved by {float(d1 - d0)!r} instead of {float(amt)!r}", case)
        elif abs((d1 - d0) - (w1 - w0)) > TOL * max(1, abs(d1) / 10 ** 12):
            ctx.violate(key + ":position", f"{op}: debt moved by {float(d1 - d0)!r} but the wallet by {float(w1 - w0)!r}", case)
    elif k == "repay":
        paid = d0 - d1
        if op.get("withColl"):
            ct = op.get("collTok") or t
            if ct != t and abs(w1 - w0) > 0:
                ctx.violate(key + ":wallet", f"{op}: repay with collateral touched the wallet ({float(w1 - w0)!r})", case)
            # the collateral given up is worth what the debt went down by (same bar prices)
            cs1 = F(m._supplies[A.token(ct)].base_amount) * F(env["status"][ct]["liqIdx"]) if A.token(ct) in m._supplies else F(0)
            pb, pc = F(env["price"][t]), F(env["price"][ct])
            if abs((ws0[ct] - cs1) * pc - paid * pb) > (TOL * (pb + pc) + MIN_TOKEN * (li * pc + vi * pb)) * max(1, abs(paid) / 10 ** 12) + F(1, 10 ** 28) * abs(paid * pb):
                ctx.violate(key + ":collateral", f"{op}: collateral went down by {float(ws0[ct] - cs1)!r} {ct} for a debt reduction of {float(paid)!r} {t}", case)
        else:
            a = d0 if amt is None else amt
            if not wallet_ok(-a) and abs((w0 - w1) - a) > TOL:
                ctx.violate(key + ":wallet", f"{op}: wallet moved by {float(w1 - w0)!r} instead of {-float(a)!r}", case)
            if abs(paid - a) > TOL * max(1, abs(d0) / 10 ** 12) + MIN_TOKEN * vi:
                ctx.violate(key + ":position", f"{op}: debt moved by {float(paid)!r} instead of {float(a)!r}", case)
            # the debt must not go down by more than the wallet paid (same tolerance of Asset.sub)
            if paid - (w0 - w1) > TOL * max(1, abs(d0) / 10 ** 12) + MIN_TOKEN * vi:
                ctx.violate(key + ":overdraft-dust", f"{op}: the debt went down by {float(paid)!r} but the wallet held and paid only {float(w0 - w1)!r}", case)
        if amt is None and not op.get("withColl") and A.token(t) in m._borrows:
            ctx.violate("full:repay", f"{op}: the debt was repaid in full but the entry is still there ({m._borrows[A.token(t)]})", case)


def split_merge(ctx: Ctx, rng, m, b, env, actions):
    """op(a+b) on one copy of the state, op(a); op(b) on another: positions must agree within 1e-18"""
    toks = env["tokens"]
    st = A.dump_state(m, b, actions, len(actions))
    kind = rng.choice(["supply", "withdraw", "borrow", "repay", "repay", "repayColl"])
    sup = [k.name for k in m._supplies]
    bor = [k.name for k in m._borrows]
    if kind == "supply":
        c = [t for t in toks if A.token(t) in b._assets and b._assets[A.token(t)].balance > 0]
        if not c:
            return
        t = rng.choice(c)
        total = b._assets[A.token(t)].balance * A.dec_digits(rng, 0.05, 0.9, 6)
        coll = m._supplies[A.token(t)].collateral if A.token(t) in m._supplies else bool(env["risk"][t]["canColl"])
        mk = lambda x: {"kind": "supply", "tok": t, "amount": fmt(x), "coll": coll}
    elif kind == "withdraw":
        c = [t for t in sup if not m._supplies[A.token(t)].collateral or not bor]
        if not c:
            return
        t = rng.choice(c)
        total = m._supplies[A.token(t)].base_amount * env["status"][t]["liqIdx"] * A.dec_digits(rng, 0.05, 0.9, 6)
        mk = lambda x: {"kind": "withdraw", "tok": t, "amount": fmt(x)}
    elif kind == "borrow":
        c = [t for t in toks if env["risk"][t]["canBorrow"]]
        if not c:
            return
        t = rng.choice(c)
        try:
            ref = A.clone_market(m, False).get_max_borrow_amount(A.token(t))
        except Exception:  # noqa: BLE001
            return
        if not ref.is_finite() or ref <= 0:
            return
        total = ref * A.dec_digits(rng, 0.05, 0.8, 6)
        mk = lambda x: {"kind": "borrow", "tok": t, "amount": fmt(x)}
    elif kind == "repayColl":
        # repay out of a collateral supply (C10_repay_collateral_split); sometimes more than the collateral holds, so that the cap
        # ("contract will change payback amount") binds in the one-call run and in the second call of the split run
        colls = [x for x in sup if m._supplies[A.token(x)].collateral]
        if not bor or not colls:
            return
        t, ct = rng.choice(bor), rng.choice(colls)
        if env["price"][t] == 0 or env["price"][ct] == 0:
            return
        debt = m._borrows[A.token(t)].base_amount * env["status"][t]["varIdx"]
        cval = m._supplies[A.token(ct)].base_amount * env["status"][ct]["liqIdx"] * env["price"][ct] / env["price"][t]
        total = min(debt, cval * (D("1.3") if rng.random() < 0.3 else 1)) * A.dec_digits(rng, 0.05, 0.95, 6)
        mk = lambda x: {"kind": "repay", "tok": t, "amount": fmt(x), "withColl": True, "collTok": ct}
    else:
        c = [t for t in bor if A.token(t) in b._assets]
        if not c:
            return
        t = rng.choice(c)
        debt = m._borrows[A.token(t)].base_amount * env["status"][t]["varIdx"]
        # sometimes the whole debt (the entry disappears in both runs), or nearly everything the wallet holds (Asset.sub's dust rule)
        total = min(debt, b._assets[A.token(t)].balance) * (A.dec_digits(rng, 0.05, 0.9, 6) if rng.random() < 0.8 else D(rng.choice(["1", "0.999999"])))
        mk = lambda x: {"kind": "repay", "tok": t, "amount": fmt(x), "withColl": False, "collTok": None}
    if total <= 0:
        return
    total = total.normalize()
    a = (total * A.dec_digits(rng, 0.05, 0.95, 6)).normalize()
    rest = total - a
    res = []
    for ops in ([mk(total)], [mk(a), mk(rest)]):
        m2, b2, act2 = A.new_market(env)
        A.load_state(m2, b2, st)
        outs = [A.apply_op(m2, o)[0] for o in ops]
        res.append((outs, A.dump_state(m2, b2, act2, 0)))
    (o1, s1), (o2, s2) = res
    case = {"env": A.env_json(env), "state": st, "op": mk(total), "split": [fmt(a), fmt(rest)]}
    ctx.case(f"split:{kind}:{'ok' if all(x == 'ok' for x in o1 + o2) else 'rejected'}", {"op": mk(total), "split": [fmt(a), fmt(rest)]})
    if not all(x == "ok" for x in o1 + o2):
        return
    for side in ("supplies", "borrows"):
        d1 = {k: F(D(v["base"])) for k, v in s1[side]}
        d2 = {k: F(D(v["base"])) for k, v in s2[side]}
        for k in set(d1) | set(d2):
            x, y = d1.get(k, F(0)), d2.get(k, F(0))
            ctx.dev(x, y)
            # an entry within rounding distance of the MIN_TOKEN_VALUE clamp may be deleted in one run and kept in the other
            if abs(x - y) > TOL * max(1, abs(x) / 10 ** 12) + (2 * MIN_TOKEN if min(x, y) == 0 else 0):
                ctx.violate(f"split:{kind}:{side}", f"{kind} of {total} in one call vs ({a}, {rest}): scaled {side}[{k}] {float(x)!r} vs {float(y)!r}", case)
    # the wallet moved by the same total (C10_repay_split / C10_repay_collateral_split: equal, or one run snapped to 0 inside Asset.sub's 1e-5 dust)
    w0 = {k: F(D(v)) for k, v in st["wallet"]}
    w1 = {k: F(D(v)) for k, v in s1["wallet"]}
    w2 = {k: F(D(v)) for k, v in s2["wallet"]}
    for k in set(w1) | set(w2):
        x, y, z = w1.get(k, F(0)), w2.get(k, F(0)), w0.get(k, F(0))
        if abs(x - y) > F(1, 10 ** 30) * max(1, abs(z)) and not (min(x, y) == 0 and abs(x - y) < F(1, 10 ** 5) * abs(z) * (1 + F(1, 10 ** 9))):
            ctx.violate(f"split:{kind}:wallet", f"{kind} of {total} in one call vs ({a}, {rest}): wallet[{k}] {float(x)!r} vs {float(y)!r} (was {float(z)!r})", case)


def quiet_update(m) -> bool:
    """update() cannot liquidate: the health factor (read on a copy, so that no cache of `m` is filled) is not in (0, 1)"""
    try:
        hf = A.clone_market(m, False).health_factor
    except Exception:  # noqa: BLE001
        return False
    return not (0 < hf < 1)


def run_sequence(ctx: Ctx, rng, nbars, reqs, meta, exact_env):
    env = A.gen_env(rng, exact=exact_env)
    env["pandas_status"] = rng.random() < 0.4       # the status row as a real backtest hands it over: a Series with a (token, column) MultiIndex
    m, b, actions = A.new_market(env, A.initial_wallet(rng, env))
    led = Ledger()
    bar = 0
    steps = 0
    pending = []        # a scripted run of operations inside the current bar
    borrows_in_bar = {}
    while bar < nbars and steps < 400:
        steps += 1
        r = rng.random()
        env_next = None
        if pending:
            op = pending.pop(0)
            if op["kind"] == "newBar":
                env_next = A.next_env(rng, env)
                borrows_in_bar = {}
            elif op["kind"] == "update":
                if not quiet_update(m):
                    continue
                ctx.count("feature:update-inside-ledger")
                ctx.count("feature:end-of-bar-update-then-new-bar")
        elif r < 0.45:
            if rng.random() < 0.5:
                # as the Actuator does: update() at the end of the bar, then the next bar's set_market_status
                pending += [{"kind": "update"}, {"kind": "newBar"}]
                continue
            env_next = A.next_env(rng, env)
            op = {"kind": "newBar"}
            borrows_in_bar = {}
        elif r < 0.5:
            split_merge(ctx, rng, m, b, env, actions)
            continue
        elif r < 0.54 and any(v.collateral for v in m._supplies.values()):
            # three or four borrows of ONE token inside one bar, the listing / value views read in between (they fill the market's caches:
            # the next borrow must still see the debt the previous one added), then the position is judged by the ledger as always
            cands = [t for t in env["tokens"] if env["risk"][t]["canBorrow"]]
            if not cands:
                continue
            t3 = rng.choice([t for t in cands if A.token(t) in m._supplies] or cands) if rng.random() < 0.4 else rng.choice(cands)
            try:
                ref = A.clone_market(m, False).get_max_borrow_amount(A.token(t3))
            except Exception:  # noqa: BLE001
                continue
            if not ref.is_finite() or ref <= 0:
                continue
            k = rng.choice([3, 3, 4])
            for _ in range(k):
                pending.append({"kind": "borrow", "tok": t3, "amount": fmt((ref * A.dec_digits(rng, 0.05, 0.28, 4)).normalize())})
                pending.append({"kind": "read", "view": rng.choice(["borrows", "borrowsValue", "totalBorrowsValue", "healthFactor", "marketBalance", "ltv"])})
            continue
        else:
            op = A.gen_op(rng, m, b, env, malformed=0.03)
            if op["kind"] in ("update", "changeCollateral") and rng.random() < 0.5:
                continue
            if op["kind"] == "update":
                # the end-of-bar update() of a real run: the ledger must survive it whenever it cannot liquidate (health factor not in (0, 1):
                # C10_*_accrues_through_bars); a liquidating update changes balances by other means (C12) and is left out
                if not quiet_update(m):
                    continue
                ctx.count("feature:update-inside-ledger")
        t = op.get("tok")
        before = None
        if op["kind"] in ("supply", "withdraw", "borrow", "repay") and t in env["status"]:
            li, vi = F(env["status"][t]["liqIdx"]), F(env["status"][t]["varIdx"])
            ws0 = {k.name: F(v.base_amount) * F(env["status"][k.name]["liqIdx"]) for k, v in m._supplies.items()}
            before = (wallet_of(b, t), ws0.get(t, F(0)),
                      F(m._borrows[A.token(t)].base_amount) * vi if A.token(t) in m._borrows else F(0), ws0)
        s0 = A.dump_state(m, b, actions, len(actions))
        n0 = len(actions)
        env_used = env_next if op["kind"] == "newBar" else env
        outcome, result = A.apply_op(m, op, env_next)
        s1 = A.dump_state(m, b, actions, n0)
        case = {"env": A.env_json(env_used), "state": s0, "op": op}
        if env_next is not None:
            env = env_next
            bar += 1
        if before is not None:
            check_move(ctx, m, b, env, op, outcome, before, case)
            if outcome == "ok":
                k = op["kind"]
                w0, sup0, d0, ws0 = before
                amt = None if op.get("amount") is None else F(op["amount"])
                if k == "supply":
                    led.add("sup", t, amt, env["status"][t]["liqIdx"], bar)
                elif k == "withdraw":
                    # the amount actually paid out is what the wallet received
                    led.sub("sup", t, wallet_of(b, t) - w0, env["status"][t]["liqIdx"])
                elif k == "borrow":
                    led.add("bor", t, wallet_of(b, t) - w0, env["status"][t]["varIdx"], bar)
                elif k == "repay":
                    paid = F(s1["actions"][-1]["amount"])
                    led.sub("bor", t, paid, env["status"][t]["varIdx"])
                    if op.get("withColl"):
                        ct = op.get("collTok") or t
                        led.sub("sup", ct, paid * F(env["price"][t]) / F(env["price"][ct]), env["status"][ct]["liqIdx"])
        if op["kind"] == "borrow" and outcome == "ok":
            borrows_in_bar[t] = borrows_in_bar.get(t, 0) + 1
            if borrows_in_bar[t] == 3:
                ctx.count("feature:three-borrows-of-one-token-in-one-bar")
        for ft in A.features(m, env):
            ctx.count("feature:" + ft)
        check_ledger(ctx, m, env, led, bar, case, f"after {op}")
        if op["kind"] != "newBar":
            reqs.append(A.step_request(env_used, s0, op))
            since = "-"
            if t is not None:
                o = led.opened.get(("bor" if op["kind"] in ("borrow", "repay") else "sup", t))
                since = "new" if o is None else "same-bar" if o == bar else "later" if bar - o < 10 else "much-later"
            meta.append((case, outcome, s1, since))
        ctx.impl_traces += 1


def overdraft_dust(ctx: Ctx, rng, reqs, meta):
    """amounts just above what the wallet holds (inside Asset.sub's 1e-5 relative tolerance): `supply(W·(1+5e-6))` with W in the wallet, and
    `repay(None)` of a debt X with X·(1−5e-6) in the wallet.  Both are accepted, the wallet goes to 0 and the position moves by the full amount —
    more than was paid (C10_supply_overdraft_dust; known finding `move:supply:overdraft-dust` / `move:repay:overdraft-dust`)."""
    for exact in (True, False):
        env = A.gen_env(rng, exact=exact)
        t = rng.choice(env["tokens"])
        w = D(100) if exact else A.dec_digits(rng, 1, 1000, 6)
        m, b, actions = A.new_market(env, [(t, w)])
        ops = [{"kind": "supply", "tok": t, "amount": fmt((w * D("1.000005")).normalize()), "coll": False}]
        # a collateral supply of another token worth 1e6 USD, a debt of 100 `t`, then the wallet is 5e-6 short of the debt
        ct = next((x for x in env["tokens"] if x != t and env["risk"][x]["canColl"] and env["price"][x] > 0), None)
        steps = [(m, b, actions, ops[0])]
        if ct is not None and env["risk"][t]["canBorrow"] and env["price"][t] > 0:
            m2, b2, act2 = A.new_market(env, [(ct, (D(10) ** 6 * max(env["price"][t], 1) / env["price"][ct]).quantize(D(10) ** -6)), (t, D(0))])
            if A.apply_op(m2, {"kind": "supply", "tok": ct, "amount": fmt(b2._assets[A.token(ct)].balance), "coll": True})[0] == "ok" and \
                    A.apply_op(m2, {"kind": "borrow", "tok": t, "amount": "100"})[0] == "ok":
                b2.set_balance(A.token(t), D(100) * D("0.999995"))
                steps.append((m2, b2, act2, {"kind": "repay", "tok": t, "amount": None, "withColl": False, "collTok": None}))
        for mm, bb, acts, op in steps:
            tt = op["tok"]
            vi = F(env["status"][tt]["varIdx"])
            ws0 = {k.name: F(v.base_amount) * F(env["status"][k.name]["liqIdx"]) for k, v in mm._supplies.items()}
            before = (wallet_of(bb, tt), ws0.get(tt, F(0)), F(mm._borrows[A.token(tt)].base_amount) * vi if A.token(tt) in mm._borrows else F(0), ws0)
            s0 = A.dump_state(mm, bb, acts, len(acts))
            n0 = len(acts)
            outcome, _ = A.apply_op(mm, op)
            s1 = A.dump_state(mm, bb, acts, n0)
            case = {"env": A.env_json(env), "state": s0, "op": op}
            ctx.case(f"overdraft-dust:{op['kind']}:{outcome}:{'exact' if exact else 'random'}", {"op": op, "wallet": fmt(before[0])})
            check_move(ctx, mm, bb, env, op, outcome, before, case)
            reqs.append(A.step_request(env, s0, op))
            meta.append((case, outcome, s1, "overdraft"))
            ctx.impl_traces += 1


def run(ctx: Ctx):
    rng = ctx.rng
    nseq = ctx.scale(60, 2000)
    reqs, meta = [], []
    overdraft_dust(ctx, rng, reqs, meta)
    for i in range(nseq):
        run_sequence(ctx, rng, rng.choice((1, 3, 10, 30, 120)) if not ctx.thorough else rng.choice((1, 10, 50, 200)), reqs, meta,
                     exact_env=(i % 3 == 2))
    if ctx.driver_ok:
        outs = driver_json(reqs, exe=A.EXE)
        for (case, outcome, s1, since), o in zip(meta, outs):
            op = case["op"]
            if "error" in o:
                ctx.disagree(f"driver error {o['error']}", case)
                continue
            ctx.case(f"step:{op.get('view', op['kind'])}:{o['tag']}:{A.arg_class(op)}:{since}", {"op": op, "outcome": outcome})
            if o["outcome"] != outcome:
                ctx.disagree(f"{op}: impl {outcome} model {o['outcome']}/{o['tag']}", case)
                continue
            d = A.diff(s1, o["state"])
            if d:
                ctx.disagree(f"{op} ({outcome}/{o['tag']}): state after differs at {d[:300]}", case)
    else:
        for case, outcome, _, since in meta:
            ctx.case(f"step:{case['op']['kind']}:{outcome}:{since}")


def replay(ctx: Ctx, case) -> bool:
    env = A.env_from_json(case["env"])
    sub = Ctx(ctx.prop, ctx.tier, ctx.seed, False)
    if "split" in case:
        # re-run the split / merge comparison
        op = case["op"]
        a, rest = D(case["split"][0]), D(case["split"][1])
        res = []
        for amts in ([D(op["amount"])], [a, rest]):
            m2, b2, act2 = A.new_market(env)
            A.load_state(m2, b2, case["state"])
            for x in amts:
                A.apply_op(m2, dict(op, amount=fmt(x)))
            res.append(A.dump_state(m2, b2, act2, 0))
        ok = True
        for side in ("supplies", "borrows"):
            d1 = {k: F(D(v["base"])) for k, v in res[0][side]}
            d2 = {k: F(D(v["base"])) for k, v in res[1][side]}
            for k in set(d1) | set(d2):
                if abs(d1.get(k, F(0)) - d2.get(k, F(0))) > TOL * max(1, abs(d1.get(k, F(0))) / 10 ** 12) + (2 * MIN_TOKEN if min(d1.get(k, F(0)), d2.get(k, F(0))) == 0 else 0):
                    print(f"   {side}[{k}]: {d1.get(k)} vs {d2.get(k)}")
                    ok = False
        w0 = {k: F(D(v)) for k, v in case["state"]["wallet"]}
        w1 = {k: F(D(v)) for k, v in res[0]["wallet"]}
        w2 = {k: F(D(v)) for k, v in res[1]["wallet"]}
        for k in set(w1) | set(w2):
            x, y, z = w1.get(k, F(0)), w2.get(k, F(0)), w0.get(k, F(0))
            if abs(x - y) > F(1, 10 ** 30) * max(1, abs(z)) and not (min(x, y) == 0 and abs(x - y) < F(1, 10 ** 5) * abs(z) * (1 + F(1, 10 ** 9))):
                print(f"   wallet[{k}]: {x} vs {y}")
                ok = False
        return ok
    m, b, actions = A.new_market(env)
    A.load_state(m, b, case["state"])
    op = case["op"]
    t = op.get("tok")
    before = None
    if op["kind"] in ("supply", "withdraw", "borrow", "repay") and t in env["status"]:
        ws0 = {k.name: F(v.base_amount) * F(env["status"][k.name]["liqIdx"]) for k, v in m._supplies.items()}
        before = (wallet_of(b, t), ws0.get(t, F(0)),
                  F(m._borrows[A.token(t)].base_amount) * F(env["status"][t]["varIdx"]) if A.token(t) in m._borrows else F(0), ws0)
    outcome, _ = A.apply_op(m, op, env)
    if before is not None:
        check_move(sub, m, b, env, op, outcome, before, case)
    for v in sub.violations:
        print("  ", v["key"], v["what"])
    return not sub.violations
